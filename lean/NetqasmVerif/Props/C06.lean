/-
C06 — Pre-compiled templated subroutines equal direct compilation.

Models: `Model/Template.lean`.  Three layers:
 (1) assembled instructions: `instantiate σ` replaces template operands by immediates, so the
     instantiated subroutine is *the same instruction list* as the one written with the values —
     hence the same bytes through the codec of C01/C02 (`instantiate_encode`);
 (2) assembler: the constant-replacement pass commutes with substitution as long as templates
     sit at positions of the exception table (`subst_assemble`); the live exception table, the
     positions at which `from_operands` keeps a Template and the positions at which the builder
     emits one are regenerated from /repo (Gen/TemplateTable.lean) and the two inclusions are
     decided by the kernel;
 (3) connection/builder bookkeeping: `compile_commit_eq_flush` — for EVERY history of segments
     (any builder activity, then `flush()` or `compile(); instantiate σ; commit_subroutine()`),
     the subroutines sent to the controller and the final bookkeeping of the pre-compiled flow
     equal those of the flow written with the concrete values and ordinary flushes (induction
     over the history).  `compile()` is the code after the `fix:` for F7; `f7_old_counterexample`
     shows the statement is false for `compile()` without `_reset()`.
-/
import NetqasmVerif.Lemmas.Template
import NetqasmVerif.Model.Codec
import NetqasmVerif.Gen.TemplateTable
namespace NQ.C06
open NQ NQ.Tpl

/-- instantiating a subroutine that has no templates changes nothing -/
theorem instantiate_concrete (σ : String → Int) (is : List Instr) :
    instantiate σ (is.map embed) = is := instantiate_embed σ is

/-- a rotation with a template angle numerator instantiates to the rotation with that value:
the operand order is kept and only the template position changes -/
theorem instantiate_rotation (σ : String → Int) (cls n : String) (q : Reg) (d : Int) :
    instantiate σ [⟨cls, [.op (.reg q), .tmpl n, .op (.imm d)]⟩] =
      [⟨cls, [.reg q, .imm (σ n), .imm d]⟩] := rfl

/-- **instantiate then encode = encode the program written with the values** (any table, any
version/app id): both sides are the codec of C01/C02 applied to the same instruction list -/
theorem instantiate_encode (T : Table) (σ : String → Int) (v0 v1 app : Nat) (P : List TInstr)
    (direct : List Instr) (h : instantiate σ P = direct) :
    encodeSub T ⟨v0, v1, app, instantiate σ P⟩ = encodeSub T ⟨v0, v1, app, direct⟩ := by rw [h]

/-- generated obligation: every position at which the SDK builder emits a Template is one at
which the instruction classes keep it in `from_operands` … -/
theorem builder_positions_accepted :
    Gen.builderTemplatePositions.all (fun p => Gen.acceptsTemplate.contains p) = true := by decide

/-- … and every such position is exempt from constant replacement in the assembler -/
theorem accepted_positions_exempt :
    Gen.acceptsTemplate.all (fun p => Gen.replaceConstantsException.contains p) = true := by decide

theorem templatesExempt_mono (P E : List (String × Nat)) (hPE : P.all (fun p => E.contains p) = true)
    (name : String) : ∀ (os : List POp) (j : Nat), templatesExempt P name j os = true →
      templatesExempt E name j os = true := by
  intro os
  induction os with
  | nil => intro j _; rfl
  | cons o os ih =>
    intro j h
    simp only [templatesExempt, Bool.and_eq_true] at h ⊢
    refine ⟨?_, ih (j + 1) h.2⟩
    cases o with
    | int v => rfl
    | txt s => rfl
    | tmpl n =>
      have h1 : P.contains (name, j) = true := h.1
      rw [List.all_eq_true] at hPE
      exact hPE (name, j) (by simpa using h1)

/-- **subst_assemble**: for a command whose templates sit where the builder can emit them, the
assembler's constant replacement (live exception table) commutes with substitution:
assembling the template command and then instantiating = assembling the command written with
the values -/
theorem subst_assemble (fresh : List String) (σ : String → Int) (c : PCmd)
    (h : templatesExempt Gen.builderTemplatePositions c.name 0 c.ops = true) :
    replCmd Gen.replaceConstantsException fresh (substCmd σ c) =
      (replCmd Gen.replaceConstantsException fresh c).map (substCmd σ) := by
  apply replCmd_subst
  apply templatesExempt_mono Gen.acceptsTemplate _ accepted_positions_exempt
  exact templatesExempt_mono Gen.builderTemplatePositions _ builder_positions_accepted _ _ _ h

/-- non-vacuity: a rotation with template numerator satisfies the hypothesis, and a constant in a
non-exempt position of the same command list is really replaced -/
example : templatesExempt Gen.builderTemplatePositions "ROT_X" 0 [.txt "Q0", .tmpl "a", .int 4] = true := by
  decide
example : replCmd Gen.replaceConstantsException ["R0", "R1"] ⟨"STORE", [.int 7, .txt "@0[R5]"]⟩
    = [⟨"SET", [.txt "R0", .int 7]⟩, ⟨"STORE", [.txt "R0", .txt "@0[R5]"]⟩] := by decide
/-- the hypothesis is needed: a template in a non-exempt position does not commute -/
example : replCmd Gen.replaceConstantsException ["R0"] (substCmd (fun _ => 7) ⟨"STORE", [.tmpl "a", .txt "@0[R5]"]⟩)
    ≠ (replCmd Gen.replaceConstantsException ["R0"] ⟨"STORE", [.tmpl "a", .txt "@0[R5]"]⟩).map (substCmd (fun _ => 7)) := by
  decide

/-- **compile_commit_eq_flush**: for every history of segments starting from a state without
pending commands (the initial one, or any state after a flush/compile), the pre-compiled flow
(`compile; instantiate σ; commit_subroutine` where the segment says so) sends the same
subroutines and ends in the same bookkeeping as the program written with the concrete values and
flushed.  In particular a later flush (e.g. the one in `close()`) neither re-declares nor
returns again an array whose result was already returned. -/
theorem compile_commit_eq_flush (segs : List Seg) (b : Bk) (hb : b.pending = []) :
    runSegs compileOp b (segs.map directSeg) = runSegs compileOp b segs :=
  runSegs_direct segs b hb

theorem compile_commit_eq_flush_init (segs : List Seg) :
    runSegs compileOp Bk.init (segs.map directSeg) = runSegs compileOp Bk.init segs :=
  runSegs_direct segs Bk.init rfl

/-- after either flow nothing is left to be declared or returned again -/
theorem nothing_left_after (b : Bk) (t : Term) (cs : List PCmd)
    (h : (endSeg compileOp b t).1 = some cs) :
    (endSeg compileOp b t).2.arrays = [] ∧ (endSeg compileOp b t).2.regs = [] ∧
    (endSeg compileOp b t).2.pending = [] := by
  cases t with
  | flush =>
    simp only [endSeg, flushOp, popSub] at h ⊢
    cases hc : allCmds b with
    | nil => rw [hc] at h; simp at h
    | cons c cs' => simp [reset]
  | pre σ =>
    simp only [endSeg, compileOp, popSub] at h ⊢
    cases hc : allCmds b with
    | nil => rw [hc] at h; simp at h
    | cons c cs' => simp [reset]

private def measCmds : List PCmd :=
  [⟨"SET", [.txt "Q0", .int 0]⟩, ⟨"ROT_X", [.txt "Q0", .tmpl "a", .int 4]⟩,
   ⟨"MEAS", [.txt "Q0", .txt "M0"]⟩, ⟨"QFREE", [.txt "Q0"]⟩, ⟨"STORE", [.txt "M0", .txt "@0[0]"]⟩]

/-- non-vacuity + F7: on `q.rot_X(Template a); m = q.measure(); compile; instantiate; commit;
close()` the fixed `compile()` sends nothing on the closing flush, the old one re-declares and
returns `@0` (so the returned outcome became undefined) — the statement was false before the fix -/
theorem f7_old_counterexample :
    (runSegs compileOp Bk.init [⟨[.meas .array measCmds], .pre (fun _ => 16)⟩, ⟨[], .flush⟩]).1.getLast?
      = some none ∧
    (runSegs compileOld Bk.init [⟨[.meas .array measCmds], .pre (fun _ => 16)⟩, ⟨[], .flush⟩]).1.getLast?
      = some (some [declCmd ⟨0, 1⟩, retArrCmd ⟨0, 1⟩]) := by
  constructor <;> rfl

example : (runSegs compileOp Bk.init [⟨[.meas .array measCmds], .pre (fun _ => 16)⟩]).1
    = [some ([declCmd ⟨0, 1⟩] ++ measCmds.map (substCmd (fun _ => 16)) ++ [retArrCmd ⟨0, 1⟩])] := by rfl

/-- **compile_commit_eq_flush, any interleaving**: histories in which the host keeps building
operations between `compile()` and `commit_subroutine()` and holds several compiled-but-
uncommitted subroutines (committed oldest first; ordinary flushes only while nothing is
uncommitted — `runH` is `none` otherwise).  Whenever the pre-compiled flow ends in `s'`, the
program written with the concrete values and ordinary flushes (`directH`: every `compile`
becomes a `flush`) ends in the same bookkeeping and has sent exactly the subroutines the
pre-compiled flow has sent followed by those it still holds compiled.  Induction over the
history. -/
theorem compile_commit_eq_flush_interleaved (es : List HEv) (b : Bk) (hb : b.pending = [])
    (s' : HSt) (h : runH false ⟨b, [], []⟩ es = some s') :
    runH false ⟨b, [], []⟩ (directH es) = some ⟨s'.bk, [], s'.sent ++ s'.queue⟩ := by
  have := runH_direct es ⟨b, [], []⟩ s' h
  simpa [substBk?_of_pending_nil _ b hb] using this

private def measCmds2 : List PCmd :=
  [⟨"SET", [.txt "Q0", .int 1]⟩, ⟨"MEAS", [.txt "Q0", .txt "M0"]⟩, ⟨"STORE", [.txt "M0", .txt "@1[0]"]⟩]

private def interleaved : List HEv :=
  [.build (.meas .array measCmds), .compile (fun _ => 5), .build (.meas .array measCmds2),
   .commit, .flush]

/-- non-vacuity: an interleaved history inside the vocabulary, and what it sends -/
example : (runH false ⟨Bk.init, [], []⟩ interleaved).map (·.sent) =
    some [[declCmd ⟨0, 1⟩] ++ measCmds.map (substCmd (fun _ => 5)) ++ [retArrCmd ⟨0, 1⟩],
          [declCmd ⟨1, 1⟩] ++ measCmds2 ++ [retArrCmd ⟨1, 1⟩]] := by rfl

/-- the hypothesis "reset at compile time" is what makes it true: with `_reset()` moved into
`commit_subroutine` the array queued between compile and commit is neither declared nor
returned by the next flush -/
theorem reset_at_commit_counterexample :
    (runH true ⟨Bk.init, [], []⟩ interleaved).map (·.sent) =
      some [[declCmd ⟨0, 1⟩] ++ measCmds.map (substCmd (fun _ => 5)) ++ [retArrCmd ⟨0, 1⟩],
            measCmds2] := by rfl

/-! ### one compiled template, instantiated several times -/

/-- **instantiate_pure**: a call of `instantiate` on (a shallow copy of) the template returns the
instance determined by (template, σ) alone and leaves the shared template as it was — also when
it fails with a missing argument. -/
theorem instantiate_pure (t : List TInstr) (σ : String → Option Int) :
    (instCall t σ).1 = instantiate? σ t ∧ (instCall t σ).2 = t := ⟨rfl, rfl⟩

/-- a failed instantiate (KeyError) leaves the template unchanged -/
theorem instantiate_failed_unchanged (t : List TInstr) (σ : String → Option Int)
    (_h : instantiate? σ t = none) : (instCall t σ).2 = t := rfl

/-- **instantiate_reuse**: ANY sequence of instantiations of one compiled template — complete or
failing, in any order — yields for each call exactly the instance of that call's own values, and
the template is still the template afterwards (induction over the sequence).  In particular two
instantiations with σ₁, σ₂ give the σ₁- and the σ₂-program, and a retry after a failed attempt
gives the program of the retry's values. -/
theorem instantiate_reuse (t : List TInstr) (σs : List (String → Option Int)) :
    instCalls instCall t σs = (σs.map (fun σ => instantiate? σ t), t) := instCalls_pure σs t

/-- with complete values every instance is the program written with those values (layer (1)) -/
theorem instantiate_reuse_total (t : List TInstr) (σ₁ σ₂ : String → Int) :
    (instCalls instCall t [fun n => some (σ₁ n), fun n => some (σ₂ n)]).1 =
      [some (instantiate σ₁ t), some (instantiate σ₂ t)] := by
  rw [instantiate_reuse]; simp [instantiate?_total]

private def rotT : List TInstr :=
  [⟨"RotZ", [.op (.reg ⟨2, 0⟩), .tmpl "a", .op (.imm 4)]⟩,
   ⟨"RotX", [.op (.reg ⟨2, 0⟩), .tmpl "b", .op (.imm 3)]⟩]
private def σab (a b : Int) : String → Option Int := fun n => if n = "a" then some a else if n = "b" then some b else none
private def σa (a : Int) : String → Option Int := fun n => if n = "a" then some a else none

/-- non-vacuity: two rounds and a failed-then-retried instantiate on a two-rotation template -/
example : (instCalls instCall rotT [σab 3 1, σa 1, σab 9 5]).1 =
    [some [⟨"RotZ", [.reg ⟨2, 0⟩, .imm 3, .imm 4]⟩, ⟨"RotX", [.reg ⟨2, 0⟩, .imm 1, .imm 3]⟩],
     none,
     some [⟨"RotZ", [.reg ⟨2, 0⟩, .imm 9, .imm 4]⟩, ⟨"RotX", [.reg ⟨2, 0⟩, .imm 5, .imm 3]⟩]] := by decide

/-- the statement is about the code as it is: an `instantiate` that fills the shared instruction
objects in place sends the FIRST round's values again in the second round, and a retry after a
failed attempt keeps the numerator of the failed attempt -/
theorem inplace_counterexample :
    (instCalls instCallInPlace rotT [σab 3 1, σab 9 5]).1 =
      [some [⟨"RotZ", [.reg ⟨2, 0⟩, .imm 3, .imm 4]⟩, ⟨"RotX", [.reg ⟨2, 0⟩, .imm 1, .imm 3]⟩],
       some [⟨"RotZ", [.reg ⟨2, 0⟩, .imm 3, .imm 4]⟩, ⟨"RotX", [.reg ⟨2, 0⟩, .imm 1, .imm 3]⟩]] ∧
    (instCalls instCallInPlace rotT [σa 1, σab 5 7]).1 =
      [none,
       some [⟨"RotZ", [.reg ⟨2, 0⟩, .imm 1, .imm 4]⟩, ⟨"RotX", [.reg ⟨2, 0⟩, .imm 7, .imm 3]⟩]] := by
  decide

/-! ### template names are just names -/

/-- label assignment commutes with instantiation for EVERY template name and every label table —
a template called `LOOP_EXIT`, `IF_EXIT1`, `R0` … is not a label -/
theorem assignLabel_subst (L : List (String × Int)) (σ : String → Int) (o : POp) :
    substOp σ (assignLabel L o) = assignLabel L (substOp σ o) := by
  cases o with
  | int v => rfl
  | tmpl n => rfl
  | txt s =>
    simp only [assignLabel, substOp]
    cases L.lookup s <;> rfl

/-- with a by-name lookup a template named like a generated label is frozen to the label's line
and the supplied value is ignored -/
theorem label_named_template_counterexample :
    substOp (fun _ => 5) (assignLabelByName [("LOOP_EXIT", 12)] (.tmpl "LOOP_EXIT")) = .int 12 ∧
    assignLabelByName [("LOOP_EXIT", 12)] (substOp (fun _ => 5) (.tmpl "LOOP_EXIT")) = .int 5 := by
  decide

/-- the same block built and compiled twice (identical text, same template name) with different
values: each compiled instance carries its own value — `compile` yields a fresh subroutine every
time, so instantiating the first cannot leak into the second -/
example :
    (runH false ⟨Bk.init, [], []⟩
      [.build (.cmds [⟨"ROT_Z", [.txt "Q0", .tmpl "a", .int 4]⟩]), .compile (fun _ => 3), .commit,
       .build (.cmds [⟨"ROT_Z", [.txt "Q0", .tmpl "a", .int 4]⟩]), .compile (fun _ => 200), .commit]).map (·.sent)
      = some [[⟨"ROT_Z", [.txt "Q0", .int 3, .int 4]⟩], [⟨"ROT_Z", [.txt "Q0", .int 200, .int 4]⟩]] := by rfl

end NQ.C06
