/-
C11 — EPR requests and results cross the SDK/controller boundary intact.

Model: `Model/EprReq.lean` (`serializeReq` = what `serialize_request` writes into the argument array,
`getCreateRequest` = what `_get_create_request` reads back and hands to the network stack, `storeEntInfo`
= the slice `_store_ent_info` writes, `keepHandleIndex` / `measureHandleIndex` / `entInfoIndex` = the array
index each host-side handle reads). Every position and enum numbering comes from `Gen/EprTables.lean`,
regenerated from /repo on every run.

F15 (fixed, /repo commit "fix: pass random basis choices …"): before the fix `random_basis_local/remote`
reached the stack as bare ints (`FVal.int`), and `request_to_qlink_1_0` raised AttributeError on `.value`.
The model is of the fixed code; `request_roundtrip` would be false for `rbl = some v` otherwise.
-/
import NetqasmVerif.Lemmas.EprReq
namespace NQ.C11
open NQ NQ.EprReq NQ.Gen.Epr

/-! ### Decisions built into the specification `expectedCreate` (Lemmas/EprReqSpec.lean)

1. TIME UNIT. `serialize_request` writes `time_unit` and `max_time` only when `max_time ≠ 0`; with
   `max_time = 0` the stack receives the default unit (0, microseconds) whatever unit the application
   named. `expectedCreate` therefore requires `time_unit = (if max_time = 0 then 0 else unit)`: a limit of
   zero "of any unit" is the same value — no limit — so no information the application passed is lost.
   Read literally ("the time unit the application passed is the one the stack receives") the property
   would fail for `max_time = 0 ∧ unit ≠ MICRO_SECONDS`; this reading is NOT taken, deliberately.
2. MINIMUM FIDELITY. `EPRSocket(min_fidelity=…)` is a constructor argument of the socket, sent to the
   controller in `OpenEPRSocketMessage` when the socket is opened; it is not a parameter of a create or
   receive call and `serialize_request` never writes `SER_CREATE_IDX_MINIMUM_FIDELITY`, so every
   `LinkLayerCreate` carries `minimum_fidelity = 0` (the default). `expectedCreate` pins the field to that
   default, like `priority`, `atomic`, `consecutive` and the four probability-distribution fields, for
   which the API has no parameter at all. C11's statement lists the call parameters (type, pairs, time
   limit/unit, rotations/bases, random-basis sets, socket and node ids) — min_fidelity is not among them;
   recorded here as an observation (a stack that wants the socket's fidelity must take it from the
   socket registration, not from the request).
3. R-TYPE REQUESTS. `request_to_qlink_1_0` has branches for `RequestType.K`, `.M` and `.RECV` only and
   raises `ValueError` for every R request, whatever its fields: the conversion to qlink-interface 1.0
   simply does not cover remote state preparation (`qlink_interface.ReqRemoteStatePrep` exists but is never
   constructed). "A form the link-layer interface accepts" is therefore decided for R by the same
   criteria the M branch applies, which is what `qlink_enum_fields_typed` states for all three types:
   `type` is a `RequestType` member and both random-basis fields are `RandomBasis` members (the harness
   oracle builds a `ReqRemoteStatePrep` by hand from the request). The missing branch is an observation
   about the compatibility layer, not counted against C11.
4. NAMED BASES / ROTATIONS. `basis_local=…` is resolved by the SDK with `basis_to_rotation`; the
   harness resolves it independently from the documented table (X (0,24,0), Y (8,0,0), Z (0,0,0),
   MX (0,8,0), MY (24,0,0), MZ (16,0,0)) and `named_bases_in_range` ties the generated table to 0..31.
   Keep requests carry no rotations or random-basis sets (the API has no such parameters): `expectedCreate`
   has defaults there.
-/

/-! ### generated obligations (decided by the kernel over the tables read from /repo) -/

/-- shape of the tables: 22 create fields with one default each, 20 of them in the argument array,
every `SER_CREATE_IDX_*` inside the array, the three OK tuples' lengths as the code's constants say,
and the executor's slice width equals both SDK widths. -/
theorem tables_wellformed :
    createFields.length = createDefaults.length ∧ createFieldsN + 2 = createFields.length ∧
    serCreateLen = createFieldsN ∧ serCreate.all (fun p => decide (p.2 < serCreateLen)) = true ∧
    okK.length = okFieldsK ∧ okM.length = okFieldsM ∧
    okFieldsK = okFieldsExec ∧ okFieldsM = okFieldsExec ∧
    serKeepLen = okFieldsExec ∧ serMeasureLen = okFieldsExec ∧
    (eprType.map (·.2)) = [0, 1, 2] ∧
    eprType.all (fun p => requestType.contains p) = true := by decide

/-- `SER_CREATE_IDX_<NAME>` is the position of field `<name>` of `LinkLayerCreate` minus the two leading
immediates (remote node, purpose): the constants, in index order 0..19, carry the names of fields
2..21 in order (the translator pairs names modulo case and the `PROBABLIITY` spelling). Detects any
swapped or shifted index. -/
theorem ser_create_matches_fields :
    serCreateField.map (·.2) = createFields.drop 2 ∧
    serCreateField.map (·.1) = serCreate.map (·.1) ∧
    serCreate.map (·.2) = List.range serCreateLen := by decide

/-- which link-layer response field each attribute of the host-side handles stands for (the
specification: qubit i, remote node, duration, Bell state, outcome) -/
def keepSpec : List (String × String) :=
  [("qubit_id", "logical_qubit_id"), ("remote_node_id", "remote_node_id"),
   ("generation_duration", "goodness"), ("raw_bell_state", "bell_state")]

def measureSpec : List (String × String) :=
  [("raw_measurement_outcome", "measurement_outcome"), ("remote_node_id", "remote_node_id"),
   ("generation_duration", "goodness"), ("raw_bell_state", "bell_state")]

/-- the indices the real deserialisers asked for (recorded for 3 pairs) are the model's handle indices,
the `SER_RESPONSE_*_IDX_*` constants are the positions of the named fields in the OK tuples, and
`Qubit.entanglement_info` field j of pair i reads entry `i·OK_FIELDS + j`. -/
theorem handles_match_fields :
    keepHandles.all (fun (i, attr, idx) => keepHandleIndex attr i == some idx) = true ∧
    measureHandles.all (fun (i, attr, idx) => measureHandleIndex attr i == some idx) = true ∧
    entInfoHandles.all (fun (i, f, idx) => entInfoIndex (okK.idxOf f) i == idx && okK.contains f) = true ∧
    keepSpec.all (fun (attr, f) => (keepConst attr).bind (lookupNat serKeep) == some (okK.idxOf f)
      && decide (okK.idxOf f < okFieldsK)) = true ∧
    measureSpec.all (fun (attr, f) => (measureConst attr).bind (lookupNat serMeasure) == some (okM.idxOf f)
      && decide (okM.idxOf f < okFieldsM)) = true ∧
    serKeep.map (·.2) = List.range okK.length ∧ serMeasure.map (·.2) = List.range okM.length := by
  decide

/-- the fields `request_to_qlink_1_0` dereferences with `.value` are exactly the two random-basis
fields, which `expectedCreate` types as `RandomBasis` members -/
theorem qlink_enum_fields_typed :
    qlinkEnumFields = ["random_basis_local", "random_basis_remote"] ∧
    ∀ tp remote purpose p, ∀ f ∈ qlinkEnumFields,
      ∃ v, (expectedCreate tp remote purpose p).find? (·.1 == f) = some (f, .randBasis v) := by
  refine ⟨by decide, ?_⟩
  intro tp remote purpose p f hf
  simp only [qlinkEnumFields, List.mem_cons, List.mem_nil_iff, or_false] at hf
  rcases hf with rfl | rfl
  · exact ⟨if (tp == 1 || tp == 2) = true then p.rbl.getD 0 else 0, by simp [expectedCreate]⟩
  · exact ⟨if (tp == 1 || tp == 2) = true then p.rbr.getD 0 else 0, by simp [expectedCreate]⟩

/-! ### the property -/

/-- For every request type K/M/R (`tp` = 0/1/2), every pair count, time unit and limit, rotation
triples (any integers, in particular 0..31 and the six named bases), random-basis sets (any `RandomBasis`
member or none), socket (purpose) and node ids: what the executor hands to the network stack is exactly
`expectedCreate` — link-layer typed, SDK-unset fields at the `LinkLayerCreate` defaults. -/
theorem request_roundtrip (tp : Int) (htp : tp = 0 ∨ tp = 1 ∨ tp = 2) (remote purpose : Int)
    (p : ReqParams) (hl : ValidRB p.rbl) (hr : ValidRB p.rbr) :
    (serializeReq tp p).bind (getCreateRequest remote purpose) = some (expectedCreate tp remote purpose p) := by
  rcases htp with rfl | htp
  · exact roundtrip_K remote purpose p
  · exact roundtrip_MR tp htp remote purpose p hl hr

/-- The purpose id is whatever the network stack assigns to (remote node, local EPR socket id):
`_get_purpose_id` must ask the stack with BOTH. For an ARBITRARY assignment `f` (parameter), the request
for socket `socket` towards `remote` carries exactly `remote_node_id = remote` and
`purpose_id = f remote socket` — nothing remembered from another socket or another remote node. -/
theorem request_ids_exact (f : Int → Int → Int) (tp : Int) (htp : tp = 0 ∨ tp = 1 ∨ tp = 2)
    (remote socket : Int) (p : ReqParams) (hl : ValidRB p.rbl) (hr : ValidRB p.rbr) :
    ∃ kw, (serializeReq tp p).bind (getCreateRequest remote (f remote socket)) = some kw ∧
      kw.find? (·.1 == "remote_node_id") = some ("remote_node_id", .int remote) ∧
      kw.find? (·.1 == "purpose_id") = some ("purpose_id", .int (f remote socket)) := by
  refine ⟨_, request_roundtrip tp htp remote (f remote socket) p hl hr, ?_, ?_⟩ <;> simp [expectedCreate]

/-- if the stack's assignment is injective per remote node, the key (remote node, purpose) under which the
controller files requests and matches responses (C12's queue key) determines the application's
(remote node, socket): two sockets never share a queue, whatever their local ids. -/
theorem queue_key_determines_socket (f : Int → Int → Int) (hinj : ∀ r s s', f r s = f r s' → s = s')
    (r r' s s' : Int) (h : (r, f r s) = (r', f r' s')) : r = r' ∧ s = s' := by
  simp only [Prod.mk.injEq] at h
  obtain ⟨h1, h2⟩ := h
  subst h1
  exact ⟨rfl, hinj r s s' h2⟩

/-- non-vacuity: the harness stack's assignment `remote·1000 + socket` is injective per remote node, and
two sockets with the SAME local id 0 towards remote nodes 1 and 2 get different purposes -/
example : (∀ r s s' : Int, r * 1000 + s = r * 1000 + s' → s = s') ∧ (1 * 1000 + 0 : Int) ≠ 2 * 1000 + 0 :=
  ⟨fun r s s' h => by omega, by decide⟩

/-- the six named bases are rotation triples the theorem covers (values 0..31) -/
theorem named_bases_in_range : basisRot.all (fun (_, a, b, c) =>
    decide (0 ≤ a ∧ a < 32 ∧ 0 ≤ b ∧ b < 32 ∧ 0 ≤ c ∧ c < 32)) = true := by decide

/-- non-vacuity: a measure request with a random-basis set, a named basis (X = (0,24,0)) and a time
limit; every `RandomBasis` member is valid -/
example : (serializeReq 1 ⟨2, 1, 5, some 1, none, (0, 24, 0), (0, 0, 0)⟩).bind (getCreateRequest 7 3) =
    some (expectedCreate 1 7 3 ⟨2, 1, 5, some 1, none, (0, 24, 0), (0, 0, 0)⟩) ∧
    (randomBasis.map (·.2)).all isRandBasis = true ∧ ValidRB (some 3) ∧ ValidRB none := by
  refine ⟨by decide, by decide, ?_, ?_⟩
  · intro x hx; injection hx with hx; subst hx; decide
  · intro x hx; cases hx

/-- Result handles, keep type (`EprKeepResult`; also R-type receivers): for EVERY number of pairs, after
the responses `rs` (each of `OK_FIELDS` values, enums as their `.value`) were stored at pair indices
0, 1, …, the handle attribute `attr` of pair `i` reads the field of response `i` that `keepSpec` names. -/
theorem result_handles_keep (rs : List (List Int)) (arr arr' : List (Option Int))
    (hlen : ∀ r ∈ rs, r.length = okFieldsExec) (h : storeAll okFieldsExec arr 0 rs = some arr')
    (i : Nat) (r : List Int) (hr : rs[i]? = some r) (attr field : String) (hs : (attr, field) ∈ keepSpec) :
    ∃ idx v, keepHandleIndex attr i = some idx ∧ r[okK.idxOf field]? = some v ∧
      arr'[idx]? = some (some v) := by
  have hget := (storeAll_get rs arr arr' 0 hlen h).1 i r hr
  have hrl : r.length = 10 := hlen r (List.mem_of_getElem? hr)
  simp only [Nat.zero_add] at hget
  simp only [keepSpec, List.mem_cons, Prod.mk.injEq, List.mem_nil_iff, or_false] at hs
  rcases hs with ⟨rfl, rfl⟩ | ⟨rfl, rfl⟩ | ⟨rfl, rfl⟩ | ⟨rfl, rfl⟩
  · have ⟨v, hv⟩ : ∃ v, r[2]? = some v := ⟨r[2], List.getElem?_eq_getElem (by omega)⟩
    exact ⟨i * 10 + 2, v, by simp [keepHandleIndex, keepConst, lookupNat, serKeep, serKeepLen],
      by rw [show okK.idxOf "logical_qubit_id" = 2 by decide]; exact hv, hget 2 v hv⟩
  · have ⟨v, hv⟩ : ∃ v, r[6]? = some v := ⟨r[6], List.getElem?_eq_getElem (by omega)⟩
    exact ⟨i * 10 + 6, v, by simp [keepHandleIndex, keepConst, lookupNat, serKeep, serKeepLen],
      by rw [show okK.idxOf "remote_node_id" = 6 by decide]; exact hv, hget 6 v hv⟩
  · have ⟨v, hv⟩ : ∃ v, r[7]? = some v := ⟨r[7], List.getElem?_eq_getElem (by omega)⟩
    exact ⟨i * 10 + 7, v, by simp [keepHandleIndex, keepConst, lookupNat, serKeep, serKeepLen],
      by rw [show okK.idxOf "goodness" = 7 by decide]; exact hv, hget 7 v hv⟩
  · have ⟨v, hv⟩ : ∃ v, r[9]? = some v := ⟨r[9], List.getElem?_eq_getElem (by omega)⟩
    exact ⟨i * 10 + 9, v, by simp [keepHandleIndex, keepConst, lookupNat, serKeep, serKeepLen],
      by rw [show okK.idxOf "bell_state" = 9 by decide]; exact hv, hget 9 v hv⟩

/-- Result handles, measure type (`EprMeasureResult`, used for M and for the creator of R). -/
theorem result_handles_measure (rs : List (List Int)) (arr arr' : List (Option Int))
    (hlen : ∀ r ∈ rs, r.length = okFieldsExec) (h : storeAll okFieldsExec arr 0 rs = some arr')
    (i : Nat) (r : List Int) (hr : rs[i]? = some r) (attr field : String) (hs : (attr, field) ∈ measureSpec) :
    ∃ idx v, measureHandleIndex attr i = some idx ∧ r[okM.idxOf field]? = some v ∧
      arr'[idx]? = some (some v) := by
  have hget := (storeAll_get rs arr arr' 0 hlen h).1 i r hr
  have hrl : r.length = 10 := hlen r (List.mem_of_getElem? hr)
  simp only [Nat.zero_add] at hget
  simp only [measureSpec, List.mem_cons, Prod.mk.injEq, List.mem_nil_iff, or_false] at hs
  rcases hs with ⟨rfl, rfl⟩ | ⟨rfl, rfl⟩ | ⟨rfl, rfl⟩ | ⟨rfl, rfl⟩
  · have ⟨v, hv⟩ : ∃ v, r[2]? = some v := ⟨r[2], List.getElem?_eq_getElem (by omega)⟩
    exact ⟨i * 10 + 2, v, by simp [measureHandleIndex, measureConst, lookupNat, serMeasure, serMeasureLen],
      by rw [show okM.idxOf "measurement_outcome" = 2 by decide]; exact hv, hget 2 v hv⟩
  · have ⟨v, hv⟩ : ∃ v, r[7]? = some v := ⟨r[7], List.getElem?_eq_getElem (by omega)⟩
    exact ⟨i * 10 + 7, v, by simp [measureHandleIndex, measureConst, lookupNat, serMeasure, serMeasureLen],
      by rw [show okM.idxOf "remote_node_id" = 7 by decide]; exact hv, hget 7 v hv⟩
  · have ⟨v, hv⟩ : ∃ v, r[8]? = some v := ⟨r[8], List.getElem?_eq_getElem (by omega)⟩
    exact ⟨i * 10 + 8, v, by simp [measureHandleIndex, measureConst, lookupNat, serMeasure, serMeasureLen],
      by rw [show okM.idxOf "goodness" = 8 by decide]; exact hv, hget 8 v hv⟩
  · have ⟨v, hv⟩ : ∃ v, r[9]? = some v := ⟨r[9], List.getElem?_eq_getElem (by omega)⟩
    exact ⟨i * 10 + 9, v, by simp [measureHandleIndex, measureConst, lookupNat, serMeasure, serMeasureLen],
      by rw [show okM.idxOf "bell_state" = 9 by decide]; exact hv, hget 9 v hv⟩

/-- `Qubit.entanglement_info` of pair `i`: field number `j` of the `LinkLayerOKTypeK` of futures reads
field `j` of response `i`, for every number of pairs and every `j < OK_FIELDS`. -/
theorem result_handles_ent_info (rs : List (List Int)) (arr arr' : List (Option Int))
    (hlen : ∀ r ∈ rs, r.length = okFieldsExec) (h : storeAll okFieldsExec arr 0 rs = some arr')
    (i : Nat) (r : List Int) (hr : rs[i]? = some r) (j : Nat) (v : Int) (hv : r[j]? = some v) :
    arr'[entInfoIndex j i]? = some (some v) := by
  have hget := (storeAll_get rs arr arr' 0 hlen h).1 i r hr j v hv
  simpa [entInfoIndex, okFieldsK, okFieldsExec] using hget

/-- `Qubit.entanglement_info` on hardware with ONE communication qubit (NV), all `n` pairs requested at
once: pair `i` is generated in virtual qubit 0 and ends up in virtual qubit `nvPairLocation n i`; exactly
one returned qubit (number `i`) carries that virtual id, ids of returned qubits are pairwise distinct and
below `n`, and field `j` of ITS `entanglement_info` reads field `j` of response `i` — for every `n`. -/
theorem result_handles_ent_info_nv (rs : List (List Int)) (arr arr' : List (Option Int))
    (hlen : ∀ r ∈ rs, r.length = okFieldsExec) (h : storeAll okFieldsExec arr 0 rs = some arr')
    (i : Nat) (r : List Int) (hr : rs[i]? = some r) (j : Nat) (v : Int) (hv : r[j]? = some v) :
    nvHandleId rs.length i = nvPairLocation rs.length i ∧ nvHandleId rs.length i < rs.length ∧
    (∀ i', i' < rs.length → nvHandleId rs.length i' = nvPairLocation rs.length i → i' = i) ∧
    arr'[entInfoIndex j (handleSlice i)]? = some (some v) := by
  have hi : i < rs.length := by
    rcases Nat.lt_or_ge i rs.length with h' | h'
    · exact h'
    · rw [List.getElem?_eq_none h'] at hr; cases hr
  refine ⟨?_, ?_, ?_, result_handles_ent_info rs arr arr' hlen h i r hr j v hv⟩
  · unfold nvHandleId nvPairLocation; split <;> omega
  · unfold nvHandleId; omega
  · intro i' hi'
    unfold nvHandleId nvPairLocation
    split <;> omega

/-- non-vacuity / the recorded NV layout for 3 pairs: returned qubits get virtual ids 2, 1, 0 and the
pairs end in 2, 1, 0 -/
example : (List.range 3).map (nvHandleId 3) = [2, 1, 0] ∧ (List.range 3).map (nvPairLocation 3) = [2, 1, 0] ∧
    (List.range 3).map (fun i => handleLayout true false 3 i) = [(2, 0), (1, 1), (0, 2)] := by decide

/-- VALUE RANGE: the result theorems are over `Int` — the model stores the response fields as unbounded
integers, exactly the value the link layer delivered, with no wrap at 32 or 64 bits (a generation
duration of 5 s in ns, a 32-bit create id with the top bit set, 2^63−1 …). Any narrowing in the code
(`c_int32(...)`, truncation on the way to the host) breaks the correspondence and the handle oracle, which
draws fields from the classes 0, 1, 2^31−1, 2^31, 2^32−1, 2^32, 5·10^9, 2^63−1. -/
example : (storeAll okFieldsExec (List.replicate 10 none) 0
    [[0, 4294967296, 5, 1, 9223372036854775807, 1000, 1, 5000000000, 2147483648, 3]]).map
      (fun a => (a[7]?, a[8]?, a[4]?, a[1]?)) =
    some (some (some 5000000000), some (some 2147483648), some (some 9223372036854775807),
          some (some 4294967296)) := by decide

/-- non-vacuity of the result theorems: two responses stored into a fresh array of 20 entries -/
example : (storeAll okFieldsExec (List.replicate 20 none) 0
    [[0, 1, 102, 0, 4, 5, 6, 7, 8, 3], [0, 2, 103, 0, 5, 5, 6, 70, 80, 1]]).map (fun a => a[1 * 10 + 7]?) =
    some (some (some 70)) := by decide

end NQ.C11
