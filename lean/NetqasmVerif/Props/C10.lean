/-
C10 — "Entanglement looks like Phi+ whatever Bell state the link delivered".

Statements over the executable models `Model/Bell.lean` (exact ℤ[i] arithmetic)
and `Model/BellLoop.lean` (the commands the builder emits for the EPR receive
operations + their small-step semantics). The data (`Gen/Corrections.lean`) is
regenerated from /repo on every run; the emitted command lists of the model are
compared syntactically with the real builder's by the correspondence stream.

FULL STATEMENT of the addressing part (`per_pair_addressing`):
  for EVERY number of pairs n, EVERY tuple of Bell values (b₀ … bₙ₋₁) written by the link layer
  into the results array and EVERY content (v₀ … vₙ₋₁) of the qubit-ids array, executing the emitted
  correction code applies, for i = 0 … n−1 in order, exactly the rotations C_{bᵢ} to virtual qubit vᵢ
  and touches no other qubit.
Status on the current tree:
  * post-routine / sequential path (`_build_cmds_post_epr`, repaired by the `fix:` commit) and the
    move-to-memory path of single-communication-qubit hardware: proved (`block_applies_correction`,
    per iteration i, for every i) — the loop around the block contains user code (the post routine);
  * wait-all path (`_build_cmds_epr_keep_corrections`): the whole loop is characterised for every n
    (`waitall_loop_runs`): it addresses `Target.pick` = 0 as long as the code keeps `set <reg> 0`
    (finding F14, open: three exact-stream tests pin the defective stream). Hence
    `per_pair_addressing` holds for the `loaded` variant, `per_pair_addressing_partial` needs
    "every pair's qubit id is 0" for the `setZero` variant, and `f14_counterexample` (n = 2) is proved.
-/
import NetqasmVerif.Lemmas.BellLoopSpec
import NetqasmVerif.Lemmas.BellAlloc
import NetqasmVerif.Lemmas.BellContext
import NetqasmVerif.Lemmas.BellSeqAlloc
import NetqasmVerif.Props.BellObligations
/-
OVERVIEW — what is proved for which API form × hardware × role (addressing part; (a)–(c) hold for all)

| API form                                   | hardware                         | role     | emitted path            | addressing theorem                                   | status |
|--------------------------------------------|----------------------------------|----------|-------------------------|------------------------------------------------------|--------|
| recv_keep / _with_info, no post routine    | generic, ≥ 2 comm. qubits        | receiver | wait-all loop           | waitall_loop_runs, emitted_waitall_addressing        | whole loop, every n; addresses 0 while the code keeps `set <reg> 0` (F14 open): per_pair_addressing for `loaded`, _partial + f14_counterexample for the emitted variant |
| recv_rsp / _with_info                      | any                              | receiver | wait-all loop           | same                                                 | same (F14) |
| recv_keep / _with_info, post routine       | any (sequential or not)          | receiver | per-pair loop (post)    | post_path_loop_runs, per_pair_addressing_post(_empty) | FULL: whole loop, every n, arbitrary post routine under PostOk / every straight-line routine |
| recv_keep / _with_info, no post routine    | single comm. qubit (NV, generic(1)) | receiver | per-pair loop + move | post_path_loop_runs (mv = true), move_path_ids       | FULL: corrections on qubit 0 = pair i's id there, then move to n−1−i |
| recv_measure                               | any                              | receiver | request + wait only     | expect_off / postprocess_table                       | no quantum correction; classical table proved; public API assumes Z (F32 open) |
| create_keep (all modes), create_rsp, create_measure | any                     | creator  | same paths, no block    | creator_emits_no_correction                          | FULL: no rotation for any configuration |
| any receive form, expect_phi_plus = False  | any                              | receiver | same paths, no block    | expect_off                                           | FULL |
Hardware enters through `singleComm` (single_comm_configs); the block-level results
(block_applies_correction, block_in_context, emitted_block_in_loop) remain as lemmas of the loop theorems.
-/
namespace NQ.C10
open NQ NQ.Bell NQ.BellObl

/-! ## (a) the Pauli correction of each Bell state -/

/-- For each Bell state `b` (numbering of `qlink_compat.BellState`), the rotations the emitted
single-pair block performs for the value of `b`, applied to the receiver's half (first or second
tensor factor — both are proved), map `|b⟩` to a unit multiple of `|Φ⁺⟩`. -/
theorem pauli_fixes_bell (b : BellSt) : fixes 0 b = true ∧ fixes 1 b = true := by
  have h := fixes_all
  cases b <;> simp_all [BellSt.all]

/-- what `fixes` means: an explicit operator and an explicit unit scalar -/
theorem fixes_sound {side : Nat} {b : BellSt} (h : fixes side b = true) :
    ∃ m c, gatesMat (corrGates b) = some m ∧ c ∈ units ∧
      applyLocal side m b.vec = smulVec c BellSt.phiPlus.vec := by
  unfold fixes at h
  split at h
  · rename_i m hm
    simp only [unitMultiple, List.any_eq_true, beq_iff_eq] at h
    obtain ⟨c, hc, he⟩ := h
    exact ⟨m, c, hm, hc, he⟩
  · simp at h

/-- the Bell numbering distinguishes the four states (so `ofValue` inverts `value`) -/
theorem numbering_injective : nb.injective = true := BellObl.numbering_injective

/-- the rotations are tied to the emitted code: started with Bell register value `bv` and qubit
register value `v`, the single-pair block (wherever it sits in a program, `SingleAt`) applies exactly
`Gen.singlePair.gates bv` to qubit `v`, changes no register and falls through -/
theorem single_pair_block {code : List Cmd} {mem : Mem} {o b q : Nat} {x1 x2 x3 : String}
    (h : SingleAt code o Gen.singlePair b q x1 x2 x3) (regs : Nat → Int) (tr : List Ev) :
    Reaches code mem ⟨o, regs, tr⟩ ⟨o + 10, regs, tr ++ corrEvents Gen.singlePair (regs b) (regs q)⟩ :=
  single_spec h regs tr

example : corrEvents Gen.singlePair (nb.value .psiMinus) 7 = [.rot ⟨.x, 16, 4⟩ 7, .rot ⟨.z, 16, 4⟩ 7] := by
  decide

/-! ## (b) expectation switched off -/

def Cmd.isRot : Cmd → Bool
  | .rot _ _ => true
  | _ => false

/-- With `expect_phi_plus = False` the receive operations emit no rotation at all, for every
configuration (hardware, API, post routine, number of pairs, register/label state). -/
theorem expect_off (d : Data) (c : Config) (code : List Cmd) (he : c.expect = false)
    (h : emit d c = some code) : code.all (fun cmd => !Cmd.isRot cmd) = true := by
  have hw : ∀ code, emitWaitAll d c = some code → code.all (fun cmd => !Cmd.isRot cmd) = true := by
    intro code h
    simp only [emitWaitAll, he, Bool.not_false, if_true, Option.some.injEq] at h
    subst h
    simp [Cmd.isRot]
  have htail : ∀ mv a u t u', seqTail c mv a u = some (t, u') → t.all (fun cmd => !Cmd.isRot cmd) = true := by
    intro mv a u t u' h
    unfold seqTail at h
    cases mv with
    | false =>
      simp only [Bool.not_false, if_true, Option.some.injEq, Prod.mk.injEq] at h
      obtain ⟨rfl, _⟩ := h; rfl
    | true =>
      simp only [Bool.not_true, Bool.false_eq_true, if_false] at h
      cases h1 : getInactive (a.b :: a.q :: a.L :: c.act) with
      | none => simp [h1] at h
      | some r0 =>
        cases h2 : getInactive (r0 :: a.b :: a.q :: a.L :: c.act) with
        | none => simp [h1, h2] at h
        | some r1 =>
          cases h3 : newLabel u "IF_EXIT" with
          | none => simp [h1, h2, h3] at h
          | some p =>
            obtain ⟨x4, u10⟩ := p
            simp only [h1, h2, h3, Option.some.injEq, Prod.mk.injEq] at h
            obtain ⟨rfl, _⟩ := h
            simp [Cmd.isRot]
  have hs : ∀ mv code, emitSeq d c mv = some code → code.all (fun cmd => !Cmd.isRot cmd) = true := by
    intro mv code h
    unfold emitSeq at h
    cases h0 : allocSeq c.act c.labels with
    | none => simp [h0] at h
    | some p0 =>
      obtain ⟨a, u4⟩ := p0
      have hc : seqCorr d c mv a u4 = some ([], u4) := by simp [seqCorr, he]
      simp only [h0, hc] at h
      cases h1 : seqTail c mv a u4 with
      | none => simp [h1] at h
      | some p1 =>
        obtain ⟨tailCmds, u10⟩ := p1
        have ht := htail _ _ _ _ _ h1
        cases h2 : newLabel u10 "LOOP" with
        | none => simp [h1, h2] at h
        | some p2 =>
          obtain ⟨l3, u11⟩ := p2
          cases h3 : newLabel u11 "LOOP_EXIT" with
          | none => simp [h1, h2, h3] at h
          | some p3 =>
            obtain ⟨l4, u12⟩ := p3
            simp only [h1, h2, h3, Option.some.injEq] at h
            subst h
            simp only [List.all_append, ht, Bool.and_true]
            simp [Cmd.isRot, waitBlockCode]
  unfold emit at h
  split at h
  · simp only [emitMeasure, Option.some.injEq] at h
    subst h; simp [Cmd.isRot]
  · split at h
    · exact hw code h
    · split at h
      · split at h
        · exact hs _ code h
        · split at h
          · exact hs _ code h
          · exact hw code h
      · simp at h

/-- non-vacuity: a configuration with the expectation off that emits something -/
example : (emit Gen.data ⟨"keep", false, false, 2, false, [], [], 0, 1, 1, 0⟩).isSome = true := by decide

/-- and with the expectation on rotations are emitted -/
example : ((emit Gen.data ⟨"keep", false, false, 2, true, [], [], 0, 1, 1, 0⟩).getD []).any Cmd.isRot = true := by
  decide

/-- `post_process = False` (creator side, or `expect_phi_plus = False`): the outcome is the raw
outcome for every Bell state, basis and raw outcome -/
theorem postprocess_off : Gen.postOffTable.all (fun r => r.2.2.2 == some r.2.2.1) = true :=
  post_off_identity

/-! ## (c) post-processing of measure-directly outcomes -/

/-- For all 4 Bell states × 6 named bases × both raw outcomes the real `measurement_outcome`
(table regenerated by calling it) satisfies `post ⊕ raw = parity_b(B) ⊕ parity_Φ⁺(B)`, the parities
being read off the exact correlations `⟨b|B⊗B|b⟩`; hence `post ⊕ remote` has the parity Φ⁺ gives.
The table is complete (48 rows), each named rotation triple measures the Pauli its name says, and
unequal or unnamed bases raise. -/
theorem postprocess_table :
    Gen.postTable.all rowOk = true ∧
    (allCombos.all (fun c => Gen.postTable.any (fun r => r.1 == c.1 && r.2.1 == c.2.1 && r.2.2.1 == c.2.2))
      && Gen.postTable.length == 48) = true ∧
    (Gen.bases.all basisOk && Gen.bases.length == 6) = true ∧
    (Gen.unequalNotRaising == 0 && Gen.unnamedNotRaising == 0 && Gen.unequalTried == 240
      && decide (Gen.unnamedTried > 0)) = true :=
  ⟨post_table_ok, post_table_complete, named_bases, unequal_unnamed_raise⟩

/-- the parities used above, spelled out: Φ⁺ gives equal outcomes in X and Z and opposite in Y -/
example : parityBit .phiPlus pauliX = some 0 ∧ parityBit .phiPlus pauliY = some 1 ∧
    parityBit .phiPlus pauliZ = some 0 ∧ parityBit .psiMinus pauliX = some 1 ∧
    parityBit .psiMinus pauliY = some 1 ∧ parityBit .psiMinus pauliZ = some 1 := by decide

/-! ## (d) per-pair addressing -/

/-- what the property demands of the correction code: pair i's rotations on pair i's qubit, in
order, and nothing else -/
def required (sp : SinglePair) (pairs : List (Int × Int)) : List Ev := pairEvents sp .loaded pairs

/-- the results array holds the Bell value of pair `i` at `idxBell + len·i` -/
def ResultsHold (ly : Layout) (resv bvs : List Int) : Prop :=
  ∀ i (h : i < bvs.length), ∃ k : Nat, ly.idxBell + ly.len * (i : Int) = (k : Int) ∧ resv[k]? = some bvs[i]

/-- **The wait-all correction loop, for every number of pairs.** Started at its first command with
arbitrary register contents, the emitted loop (either variant `t`) terminates behind its exit label
and has applied, for i = 0 … n−1 in order, the rotations selected by pair i's Bell value to the qubit
`t.pick (ids[i])` — and nothing else. -/
theorem waitall_loop_runs (t : Target) (ly : Layout) (sp : SinglePair) (q b L I J : Nat) (lb : LoopLabels)
    (ids res : Int) (mem : Mem) (hd : RegsDistinct q b L I J) (hl : lb.toList.Nodup)
    (idv resv bvs : List Int) (hmi : mem ids = some idv) (hmr : mem res = some resv)
    (hlen : idv.length = bvs.length) (hres : ResultsHold ly resv bvs) (regs : Nat → Int) :
    ∃ regs', Reaches (corrLoopCode t ly sp q b L I J lb bvs.length ids res) mem ⟨0, regs, []⟩
      ⟨(corrLoopCode t ly sp q b L I J lb bvs.length ids res).length, regs',
        pairEvents sp t (bvs.zip idv)⟩ := by
  have c0 : (corrLoopCode t ly sp q b L I J lb bvs.length ids res)[0]? = some (.set L 0) := by
    cases t <;> rfl
  have c1 : (corrLoopCode t ly sp q b L I J lb bvs.length ids res)[0 + 1]? = some (.label lb.l3) := by
    cases t <;> rfl
  have hlenc : (corrLoopCode t ly sp q b L I J lb bvs.length ids res).length = spOff t + 13 := by
    cases t <;> rfl
  obtain ⟨regs', hr⟩ := loop_from (t := t) (sp := sp) (mem := mem) hd hl idv resv bvs hmi hmr hlen hres
    bvs.length 0 (by omega) (upd regs L 0) [] (by simp [upd_same])
  refine ⟨regs', ?_⟩
  rw [hlenc]
  simp only [List.drop_zero, List.nil_append] at hr
  exact Reaches.head (step_set c0) (Reaches.head (step_label c1) hr)

/-- `per_pair_addressing` for the loop that keeps the loaded id: full statement. -/
theorem per_pair_addressing (ly : Layout) (sp : SinglePair) (q b L I J : Nat) (lb : LoopLabels)
    (ids res : Int) (mem : Mem) (hd : RegsDistinct q b L I J) (hl : lb.toList.Nodup)
    (idv resv bvs : List Int) (hmi : mem ids = some idv) (hmr : mem res = some resv)
    (hlen : idv.length = bvs.length) (hres : ResultsHold ly resv bvs) (regs : Nat → Int) :
    ∃ regs', Reaches (corrLoopCode .loaded ly sp q b L I J lb bvs.length ids res) mem ⟨0, regs, []⟩
      ⟨(corrLoopCode .loaded ly sp q b L I J lb bvs.length ids res).length, regs',
        required sp (bvs.zip idv)⟩ :=
  waitall_loop_runs .loaded ly sp q b L I J lb ids res mem hd hl idv resv bvs hmi hmr hlen hres regs

theorem pairEvents_zero (sp : SinglePair) (t : Target) (pairs : List (Int × Int))
    (h : ∀ p ∈ pairs, p.2 = 0) : pairEvents sp t pairs = required sp pairs := by
  induction pairs with
  | nil => rfl
  | cons p rest ih =>
    obtain ⟨bv, id⟩ := p
    have h0 : id = 0 := h (bv, id) (by simp)
    have ih' := ih (fun p hp => h p (by simp [hp]))
    subst h0
    cases t <;> simp [pairEvents, required, Target.pick] at ih' ⊢ <;> simp [ih']

/-- `per_pair_addressing_partial`: for the loop as the wait-all path emits it today (variant from
the generated data) the demanded trace is obtained under the extra hypothesis that the variant is
`loaded` or every pair's qubit id is 0. -/
theorem per_pair_addressing_partial (t : Target) (ly : Layout) (sp : SinglePair) (q b L I J : Nat)
    (lb : LoopLabels) (ids res : Int) (mem : Mem) (hd : RegsDistinct q b L I J) (hl : lb.toList.Nodup)
    (idv resv bvs : List Int) (hmi : mem ids = some idv) (hmr : mem res = some resv)
    (hlen : idv.length = bvs.length) (hres : ResultsHold ly resv bvs) (regs : Nat → Int)
    (hextra : t = .loaded ∨ ∀ id ∈ idv, id = 0) :
    ∃ regs', Reaches (corrLoopCode t ly sp q b L I J lb bvs.length ids res) mem ⟨0, regs, []⟩
      ⟨(corrLoopCode t ly sp q b L I J lb bvs.length ids res).length, regs',
        required sp (bvs.zip idv)⟩ := by
  obtain ⟨regs', hr⟩ := waitall_loop_runs t ly sp q b L I J lb ids res mem hd hl idv resv bvs hmi hmr hlen hres regs
  refine ⟨regs', ?_⟩
  have : pairEvents sp t (bvs.zip idv) = required sp (bvs.zip idv) := by
    rcases hextra with h | h
    · subst h; rfl
    · apply pairEvents_zero
      intro p hp
      exact h p.2 (List.of_mem_zip hp).2
  rw [← this]; exact hr

/-- non-vacuity of the hypotheses of the loop theorems (n = 2, concrete registers and labels) -/
example : RegsDistinct 0 1 2 3 4 ∧ lbl.toList.Nodup ∧ ResultsHold Gen.layout res2 [nb.value .phiPlus, nb.value .psiPlus] := by
  refine ⟨⟨by decide, by decide, by decide, by decide, by decide, by decide, by decide, by decide, by decide,
    by decide⟩, by decide, ?_⟩
  intro i h
  have : i = 0 ∨ i = 1 := by simp at h; omega
  rcases this with rfl | rfl
  · exact ⟨9, by decide, by rfl⟩
  · exact ⟨19, by decide, by rfl⟩

/-- **F14, proved counter-example (n = 2).** Bell states (Φ⁺, Ψ⁺), qubit ids [0, 1]: the `setZero`
loop is executed by the kernel and rotates virtual qubit 0, whereas the property demands the rotation
on virtual qubit 1 (which is what the `loaded` loop does). -/
theorem f14_counterexample :
    traceOf .setZero = some [Ev.rot ⟨.x, 16, 4⟩ 0] ∧
    traceOf .loaded = some (required Gen.singlePair [(nb.value .phiPlus, 0), (nb.value .psiPlus, 1)]) ∧
    [Ev.rot ⟨.x, 16, 4⟩ 0] ≠ required Gen.singlePair [(nb.value .phiPlus, 0), (nb.value .psiPlus, 1)] := by
  refine ⟨f14_witness.1, ?_, by decide⟩
  rw [f14_witness.2]; decide

/-- **Per-pair correction block of the post-routine / sequential path and of the move-to-memory
path, for every iteration i.** With the pair register holding `i`, the block loads the Bell value of
pair `i` from `res[idxBell + len·i]`, applies exactly the rotations it selects to the qubit
`t.pick (ids[i])`, leaves the pair register unchanged and falls through. For the post-routine path
`t = loaded` (`targets_of_paths`), i.e. pair i's own qubit; for the move path `t = setZero`, and there
the builder stores 0 for every pair (`idsInit`), i.e. again pair i's own qubit at that moment. -/
theorem block_applies_correction (t : Target) (ly : Layout) (sp : SinglePair) (q b L I J : Nat)
    (l1 l2 x1 x2 x3 : String) (ids res : Int) (mem : Mem)
    (hd : RegsDistinct q b L I J) (hl : [l1, l2, x1, x2, x3].Nodup)
    (idv resv : List Int) (hmi : mem ids = some idv) (hmr : mem res = some resv)
    (i : Nat) (id bv : Int) (k : Nat)
    (hid : idv[i]? = some id) (hk : ly.idxBell + ly.len * (i : Int) = (k : Int)) (hbv : resv[k]? = some bv)
    (regs : Nat → Int) (tr : List Ev) (hL : regs L = (i : Int)) :
    ∃ regs', Reaches (corrBlockCode t ly sp q b L I J l1 l2 x1 x2 x3 ids res) mem ⟨0, regs, tr⟩
        ⟨(corrBlockCode t ly sp q b L I J l1 l2 x1 x2 x3 ids res).length, regs',
          tr ++ corrEvents sp bv (t.pick id)⟩ ∧ regs' L = (i : Int) := by
  have hlen : (corrBlockCode t ly sp q b L I J l1 l2 x1 x2 x3 ids res).length = 20 := by cases t <;> rfl
  rw [hlen]
  exact block_spec hd hl idv resv hmi hmr i id bv k hid hk hbv regs tr hL

/-- the repaired paths address the loaded id, the move path the communication qubit -/
theorem targets_of_paths :
    Gen.targetPost = .loaded ∧ Gen.targetPostNonSeq = .loaded ∧ Gen.targetPostNV = .loaded ∧
      Gen.targetMove = .setZero := by decide

/-- on single-communication-qubit hardware `recv_keep` stores id 0 for every pair, so that the
constant 0 of the move path *is* pair i's qubit id -/
theorem move_path_ids (c : Config) (hk : c.api = "keep") (hnv : c.nv = true) (hs : List Int) :
    ∀ id ∈ idsInit c hs, id = 0 := by
  intro id h
  simp [idsInit, hk, hnv] at h
  exact h.2.symm

/-! ## (e) the same, for everything the builder model can emit (no side conditions left) -/

/-- **Wait-all path, emitted code.** For EVERY configuration (active registers, labels already
used, array addresses, number of pairs) in which corrections are expected, what the model of
`recv_keep` / `recv_rsp` emits is `recv_epr; wait_all; loop`, and `loop` — run for any Bell tuple and
any qubit-id array of that many pairs — terminates and applies pair i's rotations to
`d.tWaitAll.pick (ids[i])` for i = 0 … n−1, nothing else. Freshness of the allocated registers and
labels is proved, not assumed. -/
theorem emitted_waitall_addressing (d : Data) (c : Config) (code : List Cmd) (he : c.expect = true)
    (h : emitWaitAll d c = some code) (mem : Mem) (idv resv bvs : List Int) (hn : bvs.length = c.n)
    (hmi : mem c.ids = some idv) (hmr : mem c.res = some resv) (hlen : idv.length = bvs.length)
    (hres : ResultsHold d.ly resv bvs) (regs : Nat → Int) :
    ∃ loop, code = [ .recvEpr c.remote c.sock (some c.ids) c.res, .waitAllImm c.res 0 (d.ly.len * c.n) ] ++ loop ∧
      ∃ regs', Reaches loop mem ⟨0, regs, []⟩ ⟨loop.length, regs', pairEvents d.sp d.tWaitAll (bvs.zip idv)⟩ := by
  obtain ⟨q, b, L, I, J, lb, hd, hl, hc⟩ := emitWaitAll_shape he h
  refine ⟨_, hc, ?_⟩
  rw [← hn]
  exact waitall_loop_runs d.tWaitAll d.ly d.sp q b L I J lb c.ids c.res mem hd hl idv resv bvs hmi hmr hlen hres regs

/-- **Post-routine / sequential and move-to-memory paths, emitted code.** For EVERY configuration
with corrections expected, the emitted per-pair loop contains the correction block `blk`
(`code = pre ++ blk ++ post`), and in iteration `i` (pair register `L = i`) the block applies exactly
the rotations of pair i's Bell value to `t.pick (ids[i])`, `t` being the generated target of that path,
keeps `L` and falls through. -/
theorem emitted_block_addressing (d : Data) (c : Config) (mv : Bool) (code : List Cmd)
    (he : c.expect = true) (h : emitSeq d c mv = some code) :
    ∃ (L : Nat) (pre blk post : List Cmd), code = pre ++ blk ++ post ∧
      ∀ (mem : Mem) (idv resv : List Int), mem c.ids = some idv → mem c.res = some resv →
      ∀ (i : Nat) (id bv : Int) (k : Nat), idv[i]? = some id →
        d.ly.idxBell + d.ly.len * (i : Int) = (k : Int) → resv[k]? = some bv →
      ∀ (regs : Nat → Int) (tr : List Ev), regs L = (i : Int) →
        ∃ regs', Reaches blk mem ⟨0, regs, tr⟩
          ⟨blk.length, regs', tr ++ corrEvents d.sp bv ((if mv then d.tMove else d.tPost).pick id)⟩ ∧
          regs' L = (i : Int) := by
  unfold emitSeq at h
  cases h0 : allocSeq c.act c.labels with
  | none => simp [h0] at h
  | some p0 =>
    obtain ⟨a, u4⟩ := p0
    cases h1 : seqCorr d c mv a u4 with
    | none => simp [h0, h1] at h
    | some p1 =>
      obtain ⟨corrCmds, u9⟩ := p1
      cases h2 : seqTail c mv a u9 with
      | none => simp [h0, h1, h2] at h
      | some p2 =>
        obtain ⟨tailCmds, u10⟩ := p2
        cases h3 : newLabel u10 "LOOP" with
        | none => simp [h0, h1, h2, h3] at h
        | some p3 =>
          cases h4 : newLabel p3.2 "LOOP_EXIT" with
          | none => simp [h0, h1, h2, h3, h4] at h
          | some p4 =>
            simp only [h0, h1, h2, h3, h4, Option.some.injEq] at h
            obtain ⟨I, J, l1, l2, x1, x2, x3, hd, hl, hb⟩ := seqCorr_shape h0 rfl he h1
            refine ⟨a.L, [ .recvEpr c.remote c.sock (some c.ids) c.res, .set a.L 0, .label p3.1,
                  .beq (.r a.L) (.imm c.n) p4.1 ] ++
                waitBlockCode d.ly a.L a.s a.t a.e a.J a.a1 a.a2 a.b1 a.b2 c.res, corrCmds,
              tailCmds ++ [ .add a.L a.L (.imm 1), .jmp p3.1, .label p4.1 ], ?_, ?_⟩
            · rw [← h]; simp only [List.append_assoc]
            · intro mem idv resv hmi hmr i id bv k hid hk hbv regs tr hL
              subst hb
              exact block_applies_correction _ d.ly d.sp a.q a.b a.L I J l1 l2 x1 x2 x3 c.ids c.res mem hd hl
                idv resv hmi hmr i id bv k hid hk hbv regs tr hL

/-- non-vacuity: configurations for which the two theorems above have a model emission -/
example : (emitWaitAll Gen.data ⟨"keep", false, false, 3, true, [0, 2], ["LOOP", "IF_EXIT"], 2, 3, 1, 0⟩).isSome = true
    ∧ (emitSeq Gen.data ⟨"keep", false, true, 3, true, [0, 2], ["LOOP", "IF_EXIT"], 2, 3, 1, 0⟩ false).isSome = true
    ∧ (emitSeq Gen.data ⟨"keep", true, false, 3, true, [], [], 0, 1, 1, 0⟩ true).isSome = true := by decide

/-! ## (f) the correction block in its real surroundings, with an arbitrary post routine -/

theorem allocSeq_labels {act : List Nat} {used : List String} {a : SeqAlloc} {u4 : List String}
    (h : allocSeq act used = some (a, u4)) : a.a1 ∈ u4 ∧ a.a2 ∈ u4 ∧ a.b1 ∈ u4 ∧ a.b2 ∈ u4 := by
  simp only [allocSeq, Option.bind_eq_some_iff] at h
  obtain ⟨L, _, q, _, b, _, s, _, t, _, e, _, J, _, p1, h1, p2, h2, p3, h3, p4, h4, he⟩ := h
  simp only [Option.some.injEq, Prod.mk.injEq] at he
  obtain ⟨rfl, rfl⟩ := he
  rw [(newLabel_fresh h4).2, (newLabel_fresh h3).2, (newLabel_fresh h2).2, (newLabel_fresh h1).2]
  simp

theorem seqTail_labels {c : Config} {mv : Bool} {a : SeqAlloc} {u9 u10 : List String} {t : List Cmd}
    (h : seqTail c mv a u9 = some (t, u10)) : ∀ l ∈ u9, l ∈ u10 := by
  unfold seqTail at h
  cases mv with
  | false =>
    simp only [Bool.not_false, if_true, Option.some.injEq, Prod.mk.injEq] at h
    obtain ⟨_, rfl⟩ := h
    exact fun l hl => hl
  | true =>
    simp only [Bool.not_true, Bool.false_eq_true, if_false] at h
    cases h1 : getInactive (a.b :: a.q :: a.L :: c.act) with
    | none => simp [h1] at h
    | some r0 =>
      cases h2 : getInactive (r0 :: a.b :: a.q :: a.L :: c.act) with
      | none => simp [h1, h2] at h
      | some r1 =>
        cases h3 : newLabel u9 "IF_EXIT" with
        | none => simp [h1, h2, h3] at h
        | some p =>
          simp only [h1, h2, h3, Option.some.injEq, Prod.mk.injEq] at h
          obtain ⟨_, rfl⟩ := h
          intro l hl
          rw [(newLabel_fresh h3).2]; simp [hl]

/-- **The correction block inside the emitted per-pair loop, followed by ANY post routine.**
For every configuration with corrections expected, the model emission is `pre ++ blk ++ tail`
(`pre` = receive command, loop head and the wait-for-pair code; `tail` = move code and loop tail).
Insert an ARBITRARY command list `post` — the user's post routine — behind the block. In the program
`pre ++ blk ++ post ++ tail`, whenever control reaches the block with the pair register holding `i`
(`L = i`), the block applies exactly the rotations of pair i's Bell value to `t.pick (ids[i])` and to
no other qubit, arrives at the first command of `post`, and has preserved `L` and every register
other than its four scratch registers. No hypothesis on `post` is needed for this: label lookup takes
the first definition, and `pre` defines none of the block's labels (proved from the allocation).
What a post routine must respect for the *next* iteration to meet the precondition again is only
`L` (and the loop's own labels) — the bookkeeping registers `q, b, I, J` are re-initialised by the
block itself in every iteration. -/
theorem emitted_block_in_loop (d : Data) (c : Config) (mv : Bool) (code : List Cmd)
    (he : c.expect = true) (h : emitSeq d c mv = some code) :
    ∃ (L q b I J : Nat) (pre blk tail : List Cmd), code = pre ++ (blk ++ tail) ∧ blk.length = 20 ∧
      ∀ (post : List Cmd) (mem : Mem) (idv resv : List Int), mem c.ids = some idv → mem c.res = some resv →
      ∀ (i : Nat) (id bv : Int) (k : Nat), idv[i]? = some id →
        d.ly.idxBell + d.ly.len * (i : Int) = (k : Int) → resv[k]? = some bv →
      ∀ (regs : Nat → Int) (tr : List Ev), regs L = (i : Int) →
        ∃ regs', Reaches (pre ++ (blk ++ (post ++ tail))) mem ⟨pre.length, regs, tr⟩
            ⟨pre.length + 20, regs', tr ++ corrEvents d.sp bv ((if mv then d.tMove else d.tPost).pick id)⟩ ∧
          regs' L = (i : Int) ∧ (∀ x, x ≠ I → x ≠ J → x ≠ b → x ≠ q → regs' x = regs x) := by
  unfold emitSeq at h
  cases h0 : allocSeq c.act c.labels with
  | none => simp [h0] at h
  | some p0 =>
    obtain ⟨a, u4⟩ := p0
    cases h1 : seqCorr d c mv a u4 with
    | none => simp [h0, h1] at h
    | some p1 =>
      obtain ⟨corrCmds, u9⟩ := p1
      cases h2 : seqTail c mv a u9 with
      | none => simp [h0, h1, h2] at h
      | some p2 =>
        obtain ⟨tailCmds, u10⟩ := p2
        cases h3 : newLabel u10 "LOOP" with
        | none => simp [h0, h1, h2, h3] at h
        | some p3 =>
          cases h4 : newLabel p3.2 "LOOP_EXIT" with
          | none => simp [h0, h1, h2, h3, h4] at h
          | some p4 =>
            simp only [h0, h1, h2, h3, h4, Option.some.injEq] at h
            obtain ⟨I, J, l1, l2, x1, x2, x3, hd, hl, hb⟩ := seqCorr_shape h0 rfl he h1
            subst hb
            obtain ⟨hnew, hin9, _⟩ := seqCorr_labels he h1
            obtain ⟨ha1, ha2, hb1, hb2⟩ := allocSeq_labels h0
            have h910 := seqTail_labels h2
            have hl3 : p3.1 ∉ u10 := (newLabel_fresh h3).1
            refine ⟨a.L, a.q, a.b, I, J,
              [ .recvEpr c.remote c.sock (some c.ids) c.res, .set a.L 0, .label p3.1,
                  .beq (.r a.L) (.imm c.n) p4.1 ] ++
                waitBlockCode d.ly a.L a.s a.t a.e a.J a.a1 a.a2 a.b1 a.b2 c.res,
              corrBlockCode (if mv then d.tMove else d.tPost) d.ly d.sp a.q a.b a.L I J l1 l2 x1 x2 x3
                c.ids c.res,
              tailCmds ++ [ .add a.L a.L (.imm 1), .jmp p3.1, .label p4.1 ], ?_, ?_, ?_⟩
            · rw [← h]; simp only [List.append_assoc]
            · generalize (if mv = true then d.tMove else d.tPost) = t
              cases t <;> rfl
            · intro post mem idv resv hmi hmr i id bv k hid hk hbv regs tr hL
              have hpre : ∀ l ∈ [l1, l2, x1, x2, x3], Cmd.label l ∉
                  ([ Cmd.recvEpr c.remote c.sock (some c.ids) c.res, .set a.L 0, .label p3.1,
                      .beq (.r a.L) (.imm c.n) p4.1 ] ++
                    waitBlockCode d.ly a.L a.s a.t a.e a.J a.a1 a.a2 a.b1 a.b2 c.res) := by
                intro l hlm hmem
                have hl9 := hin9 l hlm
                have hl4 := hnew l hlm
                simp [waitBlockCode] at hmem
                rcases hmem with e | e | e | e | e
                · exact hl3 (by rw [← e]; exact h910 l hl9)
                · exact hl4 (by rw [e]; exact ha1)
                · exact hl4 (by rw [e]; exact ha2)
                · exact hl4 (by rw [e]; exact hb1)
                · exact hl4 (by rw [e]; exact hb2)
              exact block_in_context _ (post ++ (tailCmds ++ [ .add a.L a.L (.imm 1), .jmp p3.1, .label p4.1 ]))
                hpre hd hl idv resv hmi hmr i id bv k hid hk hbv regs tr hL

/-! ## (g) the creator emits no correction -/

theorem retarget_noRot (args : Int) (code : List Cmd) (h : code.all (fun cmd => !Cmd.isRot cmd) = true) :
    (retarget args code).all (fun cmd => !Cmd.isRot cmd) = true := by
  cases code with
  | nil => simpa [retarget] using h
  | cons c cs =>
    cases c <;> simp only [retarget] <;> exact h

/-- **The correction is applied to pair i's qubit "and to no other" — in particular not to the
partner half.** With the creator data read off the real builder (`Gen.creatorData`: no corrections on
any of the three paths), the model of `create_keep` (plain, post routine, sequential, on generic and
single-communication-qubit hardware), `create_rsp` and `create_measure` emits no rotation, for EVERY
configuration. -/
theorem creator_emits_no_correction (d : Data) (c : Config) (args : Int) (code : List Cmd)
    (h : emitCreate d Gen.creatorData c args = some code) : code.all (fun cmd => !Cmd.isRot cmd) = true := by
  unfold emitCreate at h
  split at h
  · have hflag : (if c.post = true then Gen.creatorData.cPost else if c.nv = true then Gen.creatorData.cMove
        else Gen.creatorData.cWaitAll) = false := by
      have : Gen.creatorData = ⟨false, false, false⟩ := by decide
      rw [this]; split <;> (try split) <;> rfl
    simp only [hflag, Bool.and_false, Option.map_eq_some_iff] at h
    obtain ⟨code0, h0, rfl⟩ := h
    exact retarget_noRot _ _ (expect_off d _ code0 rfl h0)
  · split at h
    · simp only [emitMeasure, Option.map_some, Option.some.injEq] at h
      subst h
      simp [retarget, Cmd.isRot]
    · simp at h

/-- the generated creator data itself -/
theorem creator_data : Gen.creatorData = ⟨false, false, false⟩ := by decide

/-- non-vacuity: creator configurations with an emission (wait-all, post routine, move, rsp) -/
example : (emitCreate Gen.data Gen.creatorData ⟨"keep", false, false, 2, true, [], [], 0, 1, 1, 0⟩ 2).isSome = true
    ∧ (emitCreate Gen.data Gen.creatorData ⟨"keep", false, true, 2, true, [], [], 0, 1, 1, 0⟩ 2).isSome = true
    ∧ (emitCreate Gen.data Gen.creatorData ⟨"keep", true, false, 2, true, [], [], 0, 1, 1, 0⟩ 2).isSome = true
    ∧ (emitCreate Gen.data Gen.creatorData ⟨"rsp", false, false, 2, true, [], [], 0, 1, 1, 0⟩ 1).isSome = true := by
  decide

/-- sharpness: were the creator flag of the move path set, rotations would be emitted -/
example : ((emitCreate Gen.data ⟨false, false, true⟩ ⟨"keep", true, false, 2, true, [], [], 0, 1, 1, 0⟩ 2).getD []).any
    Cmd.isRot = true := by decide

/-! ## (h) the hardware configuration -/

/-- `single_comm_qubit` over the swept configurations: every NV configuration and exactly the
generic configuration with a budget of one qubit -/
theorem single_comm_configs :
    (List.range 8).all (fun k => singleComm "nv" k) = true ∧
    (List.range 8).all (fun k => singleComm "generic" k == (k == 1)) = true := by decide

/-- on a single-communication-qubit configuration a plain `recv_keep` emits the correction block
exactly once (inside the one-pair-at-a-time loop) and no wait-all correction loop: the emission has as
many rotations as one single-pair block (four) -/
theorem single_comm_corrects_once :
    [("generic", 1), ("nv", 1), ("nv", 2), ("nv", 5)].all (fun (kind, k) =>
      ((emit Gen.data ⟨"keep", singleComm kind k, false, 1, true, [], [], 0, 1, 1, 0⟩).getD []).countP Cmd.isRot == 4)
      = true := by decide

/-! ## (i) the WHOLE per-pair loop of the post-routine / sequential and move-to-memory paths -/

/-- **`post_path_loop_runs`.** For EVERY configuration with corrections expected, the emission of
`recv_keep` with a post routine / sequential (`mv = false`) or on single-communication-qubit hardware
without post routine (`mv = true`) is
`request; set L 0; l3: beq L n l4; WAIT; BLOCK; ; MOVE; add L L 1; jmp l3; l4:` (`seqLoopCode … [] …`).
Put ANY command list `post` — the user's post routine — behind the correction block, under two
explicit hypotheses:
  * it does not redefine the loop's exit label `l4` nor (move path) the label `x4` of the move code;
  * `PostOk`: run in place in iteration i it arrives at the command behind it without having changed
    the pair register `L` (its quantum events are described by `Q i`; branches inside are allowed).
Then for every number of pairs n, every Bell tuple `bvs` in the results array and every qubit-id array
`idv`, the program executed from its first command terminates behind `l4`, and its events are those of
the iterations i = 0 … n−1 IN ORDER, iteration i being: the rotations selected by pair i's Bell value
on `t.pick (ids[i])` and on no other qubit, then the post routine's events, then (move path) the move
of the state to memory qubit n−1−i. The wait for pair i's slice of the results array is a no-op of the
semantics; its two repeated-addition loops are executed. All register/label side conditions are
derived from the allocation. -/
theorem post_path_loop_runs (d : Data) (c : Config) (mv : Bool) (code0 : List Cmd)
    (he : c.expect = true) (h : emitSeq d c mv = some code0) (k : Nat) (hK : d.ly.okFields = (k : Int)) :
    ∃ (L : Nat) (l3 l4 x4 : String) (W B T : List Cmd),
      code0 = seqLoopCode (.recvEpr c.remote c.sock (some c.ids) c.res) L c.n l3 l4 W B [] T ∧
      W.length = 19 ∧ B.length = 20 ∧
      ∀ (post : List Cmd), Cmd.label l4 ∉ post → (mv = true → Cmd.label x4 ∉ post) →
      ∀ (mem : Mem) (bvs idv resv : List Int), bvs.length = c.n → mem c.ids = some idv →
        mem c.res = some resv → idv.length = bvs.length → ResultsHold d.ly resv bvs →
      ∀ (Q : Nat → List Ev → Prop),
        PostOk (seqLoopCode (.recvEpr c.remote c.sock (some c.ids) c.res) L c.n l3 l4 W B post T) mem 43
          post.length L Q →
      ∀ (regs : Nat → Int), ∃ regs' all,
        Reaches (seqLoopCode (.recvEpr c.remote c.sock (some c.ids) c.res) L c.n l3 l4 W B post T) mem
          ⟨0, regs, []⟩
          ⟨(seqLoopCode (.recvEpr c.remote c.sock (some c.ids) c.res) L c.n l3 l4 W B post T).length, regs', all⟩ ∧
        IterEvents (SeqIter d.sp (if mv then d.tMove else d.tPost) Q mv c.n bvs idv) 0 c.n all := by
  unfold emitSeq at h
  cases h0 : allocSeq c.act c.labels with
  | none => simp [h0] at h
  | some p0 =>
    obtain ⟨a, u4⟩ := p0
    cases h1 : seqCorr d c mv a u4 with
    | none => simp [h0, h1] at h
    | some p1 =>
      obtain ⟨corrCmds, u9⟩ := p1
      cases h2 : seqTail c mv a u9 with
      | none => simp [h0, h1, h2] at h
      | some p2 =>
        obtain ⟨tailCmds, u10⟩ := p2
        cases h3 : newLabel u10 "LOOP" with
        | none => simp [h0, h1, h2, h3] at h
        | some p3 =>
          cases h4 : newLabel p3.2 "LOOP_EXIT" with
          | none => simp [h0, h1, h2, h3, h4] at h
          | some p4 =>
            simp only [h0, h1, h2, h3, h4, Option.some.injEq] at h
            obtain ⟨I, J', l1, l2, x1, x2, x3, hd, hlB, hb⟩ := seqCorr_shape h0 rfl he h1
            subst hb
            obtain ⟨hnew, hin9, h49⟩ := seqCorr_labels he h1
            obtain ⟨⟨hsJ, heJ, hLs, hLt, hLe, hLJ⟩, hlW, ha4⟩ := allocSeq_facts h0
            obtain ⟨f3, e3⟩ := newLabel_fresh h3
            obtain ⟨f4, e4⟩ := newLabel_fresh h4
            rw [e3] at f4
            simp only [List.mem_cons, not_or] at f4
            have h910 := seqTail_labels h2
            -- the move code (or nothing)
            have hT : ∃ r0 r1 x4, tailCmds = (if mv then moveTailCode a.L r0 r1 (c.n : Int) x4 else []) ∧
                r0 ≠ a.L ∧ r1 ≠ a.L ∧ r0 ≠ r1 ∧ (mv = true → x4 ∉ u9 ∧ x4 ∈ u10) := by
              rcases seqTail_shape h2 with ⟨hm, ht, _⟩ | ⟨hm, r0, r1, x4, ht, hu, hx, h0L, h1L, h01⟩
              · exact ⟨a.L + 1, a.L + 2, "", by simp [hm, ht], by omega, by omega, by omega,
                  fun hc => by simp [hm] at hc⟩
              · exact ⟨r0, r1, x4, by simp [hm, ht], h0L, h1L, h01, fun _ => ⟨hx, by simp [hu]⟩⟩
            obtain ⟨r0, r1, x4, hTe, h0L, h1L, h01, hx4⟩ := hT
            subst hTe
            refine ⟨a.L, p3.1, p4.1, x4, waitBlockCode d.ly a.L a.s a.t a.e a.J a.a1 a.a2 a.b1 a.b2 c.res,
              corrBlockCode (if mv then d.tMove else d.tPost) d.ly d.sp a.q a.b a.L I J' l1 l2 x1 x2 x3
                c.ids c.res,
              (if mv then moveTailCode a.L r0 r1 (c.n : Int) x4 else []), ?_, rfl, corrBlockCode_length .., ?_⟩
            · rw [← h]; simp [seqLoopCode, loopEnd, List.append_assoc]
            · intro post hpl4 hpx4 mem bvs idv resv hn hmi hmr hlen hres Q hpost regs
              have hwf : SeqWf a.L a.q a.b I J' a.s a.t a.e a.J r0 r1 :=
                ⟨hd, hsJ, heJ, hLs, hLt, hLe, hLJ, h0L, h1L, h01⟩
              -- labels of the wait code / the block are known names (`u4` resp. `u9`), `l3`, `l4`, `x4` are new
              have w10 : ∀ l ∈ [a.a1, a.a2, a.b1, a.b2], l ∈ u10 := fun l hl => h910 l (h49 l (ha4 l hl))
              have b10 : ∀ l ∈ [l1, l2, x1, x2, x3], l ∈ u10 := fun l hl => h910 l (hin9 l hl)
              have hpW : ∀ l ∈ [a.a1, a.a2, a.b1, a.b2], Cmd.label l ∉
                  ([Cmd.recvEpr c.remote c.sock (some c.ids) c.res, .set a.L 0, .label p3.1,
                    .beq (.r a.L) (.imm ((bvs.length : Nat) : Int)) p4.1] : List Cmd) := by
                intro l hl hm
                simp at hm
                exact f3 (by rw [← hm]; exact w10 l hl)
              have hpB : ∀ l ∈ [l1, l2, x1, x2, x3], Cmd.label l ∉
                  ([Cmd.recvEpr c.remote c.sock (some c.ids) c.res, .set a.L 0, .label p3.1,
                    .beq (.r a.L) (.imm ((bvs.length : Nat) : Int)) p4.1] : List Cmd) ++
                  waitBlockCode d.ly a.L a.s a.t a.e a.J a.a1 a.a2 a.b1 a.b2 c.res := by
                intro l hl hm
                rcases List.mem_append.mp hm with hm | hm
                · simp at hm
                  exact f3 (by rw [← hm]; exact b10 l hl)
                · exact hnew l hl (ha4 l (label_mem_waitBlock hm))
              rw [← hn] at hpost ⊢
              refine seq_loop_runs (mem := mem) (rem := c.remote) (sock := c.sock) (x4 := x4) mv post bvs idv resv
                hwf hlW hlB k hK hmi hmr hlen hres hpW hpB ?_ ?_ Q hpost regs
              · intro hmv hm
                obtain ⟨hx9, hx10⟩ := hx4 hmv
                rcases List.mem_append.mp hm with hm | hm
                · simp at hm
                  exact f3 (by rw [← hm]; exact hx10)
                · rcases List.mem_append.mp hm with hm | hm
                  · exact hx9 (h49 x4 (ha4 x4 (label_mem_waitBlock hm)))
                  · rcases List.mem_append.mp hm with hm | hm
                    · exact hx9 (hin9 x4 (label_mem_corrBlock hm))
                    · exact hpx4 hmv hm
              · intro hm
                rcases List.mem_append.mp hm with hm | hm
                · simp at hm
                  exact f4.1 hm
                · rcases List.mem_append.mp hm with hm | hm
                  · exact f4.2 (w10 _ (label_mem_waitBlock hm))
                  · rcases List.mem_append.mp hm with hm | hm
                    · exact f4.2 (b10 _ (label_mem_corrBlock hm))
                    · rcases List.mem_append.mp hm with hm | hm
                      · exact hpl4 hm
                      · cases hmv : mv with
                        | false => simp [hmv] at hm
                        | true =>
                          simp only [hmv, if_true] at hm
                          have := label_mem_moveTail hm
                          exact f4.2 (by rw [this]; exact (hx4 hmv).2)

/-- **`per_pair_addressing_post` — the addressing statement at full strength for the post-routine /
sequential path and the move-to-memory path.** For every configuration with corrections expected, every
post routine made of straight-line commands that do not write the pair register (`Cmd.simpleFor L`:
classical writes to other registers, gates, moves, frees, waits — in particular the empty routine; such
a routine satisfies `PostOk` and defines no label), every number of pairs, every Bell tuple and every
qubit-id array: the emitted program terminates, and for i = 0 … n−1 in order it applies exactly the
rotations selected by pair i's Bell value to `t.pick (ids[i])` — pair i's own qubit: `t = loaded` on the
post-routine path, and on the move path `t = setZero` with all stored ids 0 (`targets_of_paths`,
`move_path_ids`) — followed by the post routine's own events and the move. No "block executed alone"
caveat is left. -/
theorem per_pair_addressing_post (d : Data) (c : Config) (mv : Bool) (code0 : List Cmd)
    (he : c.expect = true) (h : emitSeq d c mv = some code0) (k : Nat) (hK : d.ly.okFields = (k : Int)) :
    ∃ (L : Nat) (l3 l4 : String) (W B T : List Cmd),
      code0 = seqLoopCode (.recvEpr c.remote c.sock (some c.ids) c.res) L c.n l3 l4 W B [] T ∧
      ∀ (post : List Cmd), post.all (Cmd.simpleFor L) = true →
      ∀ (mem : Mem) (bvs idv resv : List Int), bvs.length = c.n → mem c.ids = some idv →
        mem c.res = some resv → idv.length = bvs.length → ResultsHold d.ly resv bvs →
      ∀ (regs : Nat → Int), ∃ regs' all,
        Reaches (seqLoopCode (.recvEpr c.remote c.sock (some c.ids) c.res) L c.n l3 l4 W B post T) mem
          ⟨0, regs, []⟩
          ⟨(seqLoopCode (.recvEpr c.remote c.sock (some c.ids) c.res) L c.n l3 l4 W B post T).length, regs', all⟩ ∧
        IterEvents (SeqIter d.sp (if mv then d.tMove else d.tPost) (fun _ _ => True) mv c.n bvs idv) 0 c.n all := by
  obtain ⟨L, l3, l4, x4, W, B, T, hc, hW, hB, hrun⟩ := post_path_loop_runs d c mv code0 he h k hK
  refine ⟨L, l3, l4, W, B, T, hc, ?_⟩
  intro post hs mem bvs idv resv hn hmi hmr hlen hres regs
  exact hrun post (simple_no_label hs l4) (fun _ => simple_no_label hs x4) mem bvs idv resv hn hmi hmr hlen hres
    _ (simple_postOk hW hB hs) regs

/-- with the empty post routine on the post-routine / sequential path the trace is exactly the demanded
one (`required` when the target is `loaded`, which it is: `targets_of_paths`) -/
theorem per_pair_addressing_post_empty (d : Data) (c : Config) (code0 : List Cmd)
    (he : c.expect = true) (h : emitSeq d c false = some code0) (k : Nat) (hK : d.ly.okFields = (k : Int))
    (mem : Mem) (bvs idv resv : List Int) (hn : bvs.length = c.n) (hmi : mem c.ids = some idv)
    (hmr : mem c.res = some resv) (hlen : idv.length = bvs.length) (hres : ResultsHold d.ly resv bvs)
    (regs : Nat → Int) :
    ∃ regs', Reaches code0 mem ⟨0, regs, []⟩ ⟨code0.length, regs', pairEvents d.sp d.tPost (bvs.zip idv)⟩ := by
  obtain ⟨L, l3, l4, x4, W, B, T, hc, hW, hB, hrun⟩ := post_path_loop_runs d c false code0 he h k hK
  have hpo : PostOk (seqLoopCode (.recvEpr c.remote c.sock (some c.ids) c.res) L c.n l3 l4 W B [] T) mem 43
      ([] : List Cmd).length L (fun _ pe => pe = []) := by
    intro i r tr hL
    exact ⟨r, [], by simpa using Reaches.refl _, hL, rfl⟩
  obtain ⟨regs', all, hr, hI⟩ := hrun [] (by simp) (by simp) mem bvs idv resv hn hmi hmr hlen hres _ hpo regs
  rw [← hc] at hr
  rw [← hn] at hI
  have := iterEvents_pairs hlen hI (by omega)
  simp only [Bool.false_eq_true, if_false, List.drop_zero] at this
  exact ⟨regs', by rw [← this]; exact hr⟩

/-- non-vacuity: a straight-line post routine (a gate, a classical write, a free) and the layout constant -/
example : ([Cmd.rot ⟨.x, 16, 4⟩ 5, .set 7 3, .qfree 5].all (Cmd.simpleFor 0) = true) ∧
    Gen.layout.okFields = ((10 : Nat) : Int) := by decide

/-! ## (j) host-side post-processing, by role -/

/-- **`creator_postprocess_off`.** The `EprMeasureResult` objects every creating API form hands to the
host (`create_measure`, `create_rsp`, and the deprecated `create(tp=M)`, `create(tp=R)`; flags read off
the real objects) have `post_process = False`, and with `post_process = False` the real
`measurement_outcome` is the raw outcome for every Bell state, basis and raw outcome: the CREATOR never
flips — the correction (quantum or classical) belongs to the receiver's half only. -/
theorem creator_postprocess_off :
    (Gen.hostPostProcess.filter (fun r => r.2.1 == "create")).all (fun r => r.2.2.2 == false) = true ∧
    (Gen.hostPostProcess.filter (fun r => r.2.1 == "create")).map (·.1) =
      ["create_measure", "create_rsp", "create(tp=M)", "create(tp=R)"] ∧
    Gen.postOffTable.all (fun r => r.2.2.2 == some r.2.2.1) = true := by
  refine ⟨by decide, by decide, post_off_identity⟩

/-- on the receiving side the flag is the expectation -/
theorem receiver_postprocess_follows_expectation :
    (Gen.hostPostProcess.filter (fun r => r.2.1 == "recv")).all (fun r => r.2.2.2 == r.2.2.1) = true ∧
    (Gen.hostPostProcess.filter (fun r => r.2.1 == "recv")).length = 3 := by decide

/-! ## (k) the bases the application requests are the bases the link layer is asked for -/

/-- **`request_rotations_follow_requested_bases`.** For `create_measure`, `create_rsp` and the deprecated
`create(tp=M/R)`, probed on the real code over named / unnamed bases × rotation tuples on both sides: the
rotations handed to the builder for EACH side, and slots 14..19 of the serialized request (local X1, Y, X2,
remote X1, Y, X2), are `resolveRot` of THAT side — the named basis' `basis_to_rotation` when a name is
given, the tuple given for that side otherwise. Together with `named_bases` (each named triple measures
the Pauli its name says) the link layer is asked to measure in the bases the application requested. -/
theorem request_rotations_follow_requested_bases :
    Gen.rotProbes.all probeOk = true ∧
    (∀ (rot : Rot), resolveRot Gen.bases none rot = some rot) ∧
    (∀ (b : String) (rot : Rot), resolveRot Gen.bases (some b) rot = basisRot Gen.bases b) :=
  ⟨rot_probes_ok, fun _ => rfl, fun _ _ => rfl⟩

example : requestRots Gen.bases (some "X") none (3, 5, 7) (0, 8, 0) = some ((0, 24, 0), (0, 8, 0)) := by decide

/-! ## (l) histories of requests on one socket object -/

/-- **History independence.** In the model, the parameters handed to the builder for request k of any
history on one socket object, and the post-processing flag of its result objects, are `paramsOf` of request
k's OWN arguments — whatever requests were made before and whatever state the socket is in. (The real
socket is compared with this model request by request on random histories, and every request of a
history is judged by the oracles exactly as a first request on a fresh socket.) -/
theorem history_independence (table : List (String × Rot × Option String)) (s : Sock) (reqs : List Request) :
    runSocket table s reqs = reqs.map (paramsOf table) := by
  induction reqs generalizing s with
  | nil => rfl
  | cons r rs ih => simp [runSocket, Sock.request, ih]

/-- in particular the last request of a history behaves like a first request -/
theorem last_request_like_first (table : List (String × Rot × Option String)) (s : Sock)
    (pre : List Request) (r : Request) :
    (runSocket table s (pre ++ [r])).getLast? = some (paramsOf table r) ∧
    runSocket table ⟨0⟩ [r] = [paramsOf table r] := by
  rw [history_independence]
  simp [runSocket, Sock.request]

/-- `recv_measure` post-processes with the Z rule (rotations (0,0,0) on both sides) after ANY history, and
a `create_measure` with named bases asks for exactly those -/
example : (runSocket Gen.bases ⟨0⟩
    [⟨"create_measure", 1, true, false, false, some "X", some "X", (0, 0, 0), (0, 0, 0)⟩,
     ⟨"recv_measure", 2, true, false, false, none, none, (0, 0, 0), (0, 0, 0)⟩]) =
    [some ⟨1, true, false, false, (0, 24, 0), (0, 24, 0), false⟩,
     some ⟨2, true, false, false, (0, 0, 0), (0, 0, 0), true⟩] := by decide +kernel

end NQ.C10
