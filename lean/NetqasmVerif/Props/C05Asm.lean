/-
C05 ∘ C03: the composition of `emit_correct` (proto-subroutines under `ProtoExec`) with C03's
`assemble_simulates_run` (assembled subroutine under C03's parametric machine).

PARTIAL: the composition is proved for any machine `mc`, translation `tr` and state abstraction `abs`
that form a *bridge* (`SemBridge`: every `ProtoExec` step is a step of `mc` on the translated
program). The bridge itself for C03's executor instance `Asm.xMachine` (which also tracks the qubit
unit module that `ProtoExec` abstracts into a trace) is NOT proved; the check ties the two ends
empirically (stream `protoexec-vs-executor`: ProtoExec on the model's proto-subroutines against the
real assembler + real Executor).
-/
import NetqasmVerif.Props.C03
import NetqasmVerif.Props.C05
namespace NQ.C05
open NQ

/-- every `ProtoExec` step of a subroutine is a step of the machine `mc` on its translation -/
structure SemBridge {M : Type} (mc : Asm.Machine M) (tr : List Sdk.PCmd → List Asm.PCmd)
    (abs : Sdk.St → Asm.State M) : Prop where
  step : ∀ (P : List Sdk.PCmd) (s s' : Sdk.St) (n n' : Nat),
    Sdk.step P (s, n) = some (s', n') → Asm.step mc (tr P) (abs s) n = .next (abs s') n'

theorem bridge_steps {M : Type} {mc : Asm.Machine M} {tr : List Sdk.PCmd → List Asm.PCmd}
    {abs : Sdk.St → Asm.State M} (hb : SemBridge mc tr abs) {P : List Sdk.PCmd} {c c' : Sdk.St × Nat}
    (h : Sdk.Steps P c c') : Asm.Steps mc (tr P) (abs c.1, c.2) (abs c'.1, c'.2) := by
  induction h with
  | refl c => exact Asm.Steps.refl _
  | @next a b d hs _ ih =>
    obtain ⟨a1, a2⟩ := a
    obtain ⟨b1, b2⟩ := b
    exact Asm.Steps.step (hb.step P a1 b1 a2 b2 hs) ih

/-- **emit_correct_assembled_partial.** Whatever `ProtoExec` run of a proto-subroutine `emit_correct`
provides, the ASSEMBLED subroutine (`assemble_subroutine`: literals into scratch registers, labels
into addresses) reproduces it on C03's machine between the images of the two positions, states
agreeing outside the scratch registers — provided the two label-level semantics are bridged. -/
theorem emit_correct_assembled_partial {M : Type} {mc : Asm.Machine M}
    {tr : List Sdk.PCmd → List Asm.PCmd} {abs : Sdk.St → Asm.State M} (hb : SemBridge mc tr abs)
    (hm : C03.StdLike mc) (P : List Sdk.PCmd) (A : List Instr) (hwf : Asm.LabelTargets mc (tr P))
    (hA : Asm.assemble Gen.vanillaRows Gen.excTable Gen.numScratch (tr P) = .ok A)
    {s s' : Sdk.St} {n n' : Nat} (hrun : Sdk.Steps P (s, n) (s', n')) {t : Asm.State M}
    (hag : Asm.AgreeOutsideScratch Gen.numScratch (tr P) (abs s) t) :
    ∃ t', Asm.Steps mc (A.map (Asm.embed Gen.vanillaRows))
        (t, Asm.tpos Gen.excTable (tr P) n) (t', Asm.tpos Gen.excTable (tr P) n') ∧
      Asm.AgreeOutsideScratch Gen.numScratch (tr P) (abs s') t' :=
  C03.assemble_simulates_run hm hwf hA (bridge_steps hb hrun) hag

end NQ.C05
