/-
C07 — rotations at EVERY angle, exactly.

`Props/C07.lean` decides the fixed-gate expansions in ℤ[ζ₈] (angles that are multiples of π/4). This
file removes the former "symbolic + numeric only" status of all other angles:

* the denotation of a rotation instruction `(n, d)` about axis `ax` is ONE definition, `rot2P ax w` of
  Model/Gates at `w = e^{i·nπ/2^d}`; over ℂ it is proved equal to `2·e^{iθ/2}·R_ax(θ)` with
  `R_ax(θ) = cos(θ/2)·1 − i·sin(θ/2)·σ_ax` for EVERY θ (`rot_denotes_rotation`), the controlled
  rotation's |1⟩-block to `2·e^{iθ/2}·R_ax(−θ)` with the SAME scalar (`crot_blocks_exact`);
* composition, full turn, half turn, 2π-periodicity and the hardware normalisation are exact
  identities for all numerators and denominators, proved as polynomial identities in `w` valid in every
  commutative ring with `i² = −1` (Lemmas/RotPoly) and instantiated in ℂ at `ζ_D = e^{iπ/2^D}`;
* the ℤ[ζ₈] matrices used by the kernel-decided obligations are the `D = 2` instance of the same
  definition (`exact_obligations_are_generic`), ℤ[ζ₈] being a commutative ring with `ζ⁴ = −1`.

What remains numeric: only numpy/scipy `expm` behind `to_matrix()` (the correspondence stream
"matrices" compares it with this definition evaluated in doubles, tolerance 1e-12).
Axioms: the ℂ statements use Mathlib's complex exponential (propext, Classical.choice, Quot.sound).
-/
import NetqasmVerif.Lemmas.RotComplex
import NetqasmVerif.Lemmas.CycRing
import NetqasmVerif.Model.NvDecomp
namespace NQ.C07
open NQ NQ.Rot NQ.NV Complex

noncomputable section

/-- the angle `n·π/2^d` -/
def theta (n d : ℕ) : ℂ := (n : ℂ) * Real.pi / 2 ^ d

/-- the (phase-normalised, doubled) operator a rotation instruction `(n, d)` about `ax` denotes, in ℂ:
`rot2P ax e^{iθ}` — the definition the driver evaluates in doubles and the kernel in ℤ[ζ₈] -/
def rotC (ax : Axis) (n d : ℕ) : M2 ℂ := P I ax (exp (theta n d * I))

/-- the control-|1⟩ block of a controlled rotation `(n, d)` -/
def crotC1 (ax : Axis) (n d : ℕ) : M2 ℂ := PNeg I ax (exp (theta n d * I))

theorem rotC_eq_wOf (ax : Axis) (D n d : ℕ) (hd : d ≤ D) : rotC ax n d = P I ax (wOf (zetaC D) D n d) := by
  unfold rotC theta; rw [wOf_zetaC D n d hd]

/-- **every `(n, d)`**: the denotation is the textbook rotation up to the explicit scalar `2e^{iθ/2}` -/
theorem rot_denotes_rotation (ax : Axis) (n d : ℕ) :
    rotC ax n d = smul2 (2 * exp (theta n d / 2 * I)) (Rmat ax (theta n d)) :=
  rot2P_complex ax (theta n d)

/-- (d) the controlled rotation: control-|0⟩ block `R(+θ)`, control-|1⟩ block `R(−θ)`, with ONE
common scalar — the published convention of `get_controlled_rotation_matrix`, for every `(n, d)` -/
theorem crot_blocks_exact (ax : Axis) (n d : ℕ) :
    rotC ax n d = smul2 (2 * exp (theta n d / 2 * I)) (Rmat ax (theta n d)) ∧
    crotC1 ax n d = smul2 (2 * exp (theta n d / 2 * I)) (Rmat ax (-theta n d)) :=
  ⟨rot2P_complex ax _, rot2PNeg_complex ax _⟩

/-- (a) generic: in every commutative ring with `i² = −1` and a root `ζ`, the rotations `(n₁, d₁)` then
`(n₂, d₂)` compose to the rotation whose angle is the SUM `n₁/2^d₁ + n₂/2^d₂` (numerator over `2^D`) -/
theorem rot_compose_generic {R : Type} [CommRing R] (i ζ : R) (hi : i * i = -1) (ax : Axis)
    (D n₁ d₁ n₂ d₂ : ℕ) :
    mul2 (P i ax (wOf ζ D n₁ d₁)) (P i ax (wOf ζ D n₂ d₂)) =
      smul2 2 (P i ax (ζ ^ (n₁ * 2 ^ (D - d₁) + n₂ * 2 ^ (D - d₂)))) := by
  rw [rot_compose i hi]; unfold wOf; rw [← pow_add]

/-- (a) in ℂ, all `(n₁, d₁)`, `(n₂, d₂)`: consecutive rotations about one axis are the rotation by the
summed angle (this is C19's `rotation_sum`, exactly) -/
theorem rot_compose_exact (ax : Axis) (n₁ d₁ n₂ d₂ : ℕ) :
    mul2 (rotC ax n₁ d₁) (rotC ax n₂ d₂) =
      smul2 2 (P I ax (exp ((theta n₁ d₁ + theta n₂ d₂) * I))) := by
  unfold rotC
  rw [rot_compose I I_mul_I, ← exp_add, add_mul]

/-- same denominator: the numerators add -/
theorem rot_compose_same_d (ax : Axis) (n₁ n₂ d : ℕ) :
    mul2 (rotC ax n₁ d) (rotC ax n₂ d) = smul2 2 (rotC ax (n₁ + n₂) d) := by
  rw [rot_compose_exact]
  unfold rotC theta
  congr 3
  push_cast; ring

/-- a whole list of rotations about one axis (what `rot_X(angle=…)` emits): the product is the
rotation by the sum of all angles, times `2^(length − 1)` — by induction on the list -/
def sumTheta : List (ℕ × ℕ) → ℂ
  | [] => 0
  | (n, d) :: rest => theta n d + sumTheta rest

def prodRot (ax : Axis) : List (ℕ × ℕ) → M2 ℂ
  | [] => smul2 2 one2
  | (n, d) :: rest => mul2 (rotC ax n d) (prodRot ax rest)

theorem rot_list_exact (ax : Axis) (l : List (ℕ × ℕ)) :
    prodRot ax l = smul2 (2 ^ l.length) (P I ax (exp (sumTheta l * I))) := by
  induction l with
  | nil =>
    simp only [prodRot, sumTheta, zero_mul, exp_zero, List.length_nil, pow_zero]
    rw [rot_zero]
    simp only [smul2, one2, M2.mk.injEq]; refine ⟨?_, ?_, ?_, ?_⟩ <;> ring
  | cons x rest ih =>
    obtain ⟨n, d⟩ := x
    simp only [prodRot, sumTheta, List.length_cons, ih]
    have h := rot_compose I I_mul_I ax (exp (theta n d * I)) (exp (sumTheta rest * I))
    rw [← exp_add, ← add_mul] at h
    unfold rotC
    generalize P I ax (exp (theta n d * I)) = A at *
    generalize P I ax (exp (sumTheta rest * I)) = B at *
    generalize P I ax (exp ((theta n d + sumTheta rest) * I)) = C at *
    simp only [mul2, smul2, M2.mk.injEq] at h ⊢
    obtain ⟨h1, h2, h3, h4⟩ := h
    refine ⟨?_, ?_, ?_, ?_⟩
    · linear_combination (2 ^ rest.length : ℂ) * h1
    · linear_combination (2 ^ rest.length : ℂ) * h2
    · linear_combination (2 ^ rest.length : ℂ) * h3
    · linear_combination (2 ^ rest.length : ℂ) * h4

/-- (b) numerator 0 is the identity, numerator `2^d` (angle π) is the Pauli of the axis, and adding
`2^(d+1)` (angle 2π) to the numerator changes nothing — for every `d` -/
theorem rot_full_turn (ax : Axis) (n d : ℕ) :
    rotC ax 0 d = smul2 2 one2 ∧ rotC ax (2 ^ d) d = smul2 2 (pauli I ax) ∧
    rotC ax (n + 2 ^ (d + 1)) d = rotC ax n d := by
  refine ⟨?_, ?_, ?_⟩
  · unfold rotC theta; simp only [Nat.cast_zero, zero_mul, zero_div, exp_zero]; exact rot_zero I ax
  · rw [rotC_eq_wOf ax d _ d (Nat.le_refl _), wOf_pi _ d d (zetaC_pow d) (Nat.le_refl _)]
    exact rot_half_turn I ax
  · rw [rotC_eq_wOf ax d _ d (Nat.le_refl _), rotC_eq_wOf ax d n d (Nat.le_refl _),
      wOf_period _ d n d (zetaC_pow d) (Nat.le_refl _)]

/-- equal rational angles denote equal operators -/
theorem rot_same_angle (ax : Axis) (n d n' d' : ℕ) (h : n * 2 ^ d' = n' * 2 ^ d) :
    rotC ax n d = rotC ax n' d' := by
  rw [rotC_eq_wOf ax (max d d') n d (Nat.le_max_left _ _), rotC_eq_wOf ax (max d d') n' d' (Nat.le_max_right _ _),
    wOf_eq_of_same_angle _ _ n d n' d' (Nat.le_max_left _ _) (Nat.le_max_right _ _) h]

/-- (c) hardware normalisation, ALL numerators, `d ≤ 4`: the operator of `(n·2^(4−d), 4)` is the
operator of `(n, d)` — an identity of ζ-powers, not restricted to multiples of π/4 -/
theorem hw_same_matrix_exact (ax : Axis) (n d : ℕ) (hd : d ≤ 4) :
    rotC ax (n * 2 ^ (4 - d)) 4 = rotC ax n d := by
  apply rot_same_angle
  rw [Nat.mul_assoc, ← Nat.pow_add]
  congr 2; omega

/-- the same in any commutative ring with a root `ζ`, `D ≥ 4` -/
theorem hw_same_matrix_generic {R : Type} [CommRing R] (i ζ : R) (ax : Axis) (D n d : ℕ) (hd : d ≤ 4)
    (hD : 4 ≤ D) : P i ax (wOf ζ D (n * 2 ^ (4 - d)) 4) = P i ax (wOf ζ D n d) := by
  rw [wOf_eq_of_same_angle ζ D (n * 2 ^ (4 - d)) 4 n d hD (by omega)]
  rw [Nat.mul_assoc, ← Nat.pow_add]
  congr 2; omega

/-- **what the transpiler emits for a rotation denotes the same operator, every (n, d), both modes**:
simulation mode emits `(n, d)` itself; hardware mode (`d ≤ 4`) emits `(n', 4)` with the same operator -/
theorem rot_emitted_same_unitary (g : GName) (n d : ℕ) (hg : GName.isRot g = true) :
    (∃ i, nvRot false g n d = some [i] ∧ i.g = g ∧ ∀ ax, rotC ax i.n i.d = rotC ax n d) ∧
    (d ≤ 4 → ∃ i, nvRot true g n d = some [i] ∧ i.g = g ∧ ∀ ax, rotC ax i.n i.d = rotC ax n d) := by
  refine ⟨⟨⟨g, [0], n, d⟩, by simp [nvRot, hg], rfl, fun _ => rfl⟩, ?_⟩
  intro hd
  refine ⟨⟨g, [0], n * 2 ^ (4 - d), 4⟩, by simp [nvRot, hg, hwNumDenom, hd], rfl, ?_⟩
  intro ax
  exact hw_same_matrix_exact ax n d hd

end

/-! ### The ℤ[ζ₈] obligations are the D = 2 instance -/

theorem zeta8_pow_mod (k : ℕ) : Cyc.zeta ^ (k % 8) = Cyc.zeta ^ k := by
  have h8 : Cyc.zeta ^ 8 = 1 := by decide +kernel
  conv => rhs; rw [← Nat.div_add_mod k 8, pow_add, pow_mul, h8, one_pow, one_mul]

/-- whenever `angleK n d = some k` the angle `nπ/2^d` is `n₂·π/4` with `k = n₂ mod 8` -/
theorem angleK_spec (n d k : ℕ) (h : angleK n d = some k) : ∃ n₂, n * 2 ^ 2 = n₂ * 2 ^ d ∧ k = n₂ % 8 := by
  unfold angleK at h
  split at h
  · rename_i hd
    refine ⟨n * 2 ^ (2 - d), ?_, by simpa using h.symm⟩
    rw [Nat.mul_assoc, ← Nat.pow_add]; congr 2; omega
  · rename_i hd
    split at h
    · rename_i hm
      refine ⟨n / 2 ^ (d - 2), ?_, by simpa using h.symm⟩
      have hdvd : 2 ^ (d - 2) ∣ n := Nat.dvd_of_mod_eq_zero hm
      have : 2 ^ d = 2 ^ (d - 2) * 2 ^ 2 := by rw [← Nat.pow_add]; congr 1; omega
      rw [this, ← Nat.mul_assoc, Nat.div_mul_cancel hdvd]
    · simp at h

/-- the exact matrix the kernel-decided obligations use for `(n, d)` is the generic `rot2P` at the
ζ₈-power of the SAME rational angle (`ζ₈⁴ = −1`, `D = 2`) -/
theorem exact_obligations_are_generic (ax : Axis) (n d k : ℕ) (h : angleK n d = some k) :
    ∃ n₂, n * 2 ^ 2 = n₂ * 2 ^ d ∧
      rot2P ax (Cyc.zpow k) = P Cyc.I ax (wOf Cyc.zeta 2 n₂ 2) ∧
      rot2PNeg ax (Cyc.zpow k) = PNeg Cyc.I ax (wOf Cyc.zeta 2 n₂ 2) := by
  obtain ⟨n₂, h1, h2⟩ := angleK_spec n d k h
  refine ⟨n₂, h1, ?_, ?_⟩
  · rw [rot2P_cyc, h2, zeta8_pow_mod]; simp [wOf]
  · rw [rot2PNeg_cyc, h2, zeta8_pow_mod]; simp [wOf]

/-- ℤ[ζ₈] satisfies the hypotheses of the generic identities (non-vacuity, D = 2) -/
theorem cyc_root : Cyc.zeta ^ 2 ^ 2 = (-1 : Cyc) ∧ Cyc.I * Cyc.I = (-1 : Cyc) :=
  ⟨Cyc.zeta_pow4, Cyc.I_mul_I⟩

/-- … and ℂ for every D -/
theorem complex_root (D : ℕ) : zetaC D ^ 2 ^ D = -1 ∧ I * I = -1 := ⟨zetaC_pow D, I_mul_I⟩

/-- the generic composition law instantiated in ℤ[ζ₈]: X(π/2)·X(π/4) = 2·X(3π/4) (the `2` is the ring's
numeral, equal to the model's `Cyc.two`) -/
theorem cyc_compose_instance :
    mul2 (P Cyc.I .X (wOf Cyc.zeta 2 2 2)) (P Cyc.I .X (wOf Cyc.zeta 2 1 2)) =
      smul2 ((2 : ℕ) : Cyc) (P Cyc.I .X (Cyc.zeta ^ (2 * 2 ^ (2 - 2) + 1 * 2 ^ (2 - 2)))) := by
  have := rot_compose_generic Cyc.I Cyc.zeta Cyc.I_mul_I .X 2 2 2 1 2
  exact_mod_cast this

example : ((2 : ℕ) : Cyc) = Cyc.two ∧ ((-1 : ℤ) : Cyc) = Cyc.neg Cyc.one := by decide +kernel

end NQ.C07
