/-
C12 ↔ C13 bridge (shared state: unit modules and the set of used physical qubits).

C13 (`Props/C13.lean`) proves its qubit-memory invariant `Inv` for every history of controller
operations, where a keep-response is the operation `Op.keep a v p` = `Exec.keepResp`, under the
environment hypothesis `EnvOk`: the delivered physical qubit `p` is one the link layer reserved on this
controller and has not delivered yet. C12's model (`Model/Epr.lean`) contains the *real* handler: queue
lookup, pair index, virtual address read from the request's qubit array, deferral, result slice.
The theorems below show that what that handler does to the shared state IS a successful
`Exec.keepResp` (never the deferred and never a faulting branch — this is where C12's
`keep_only_when_free` / `unit_never_overwritten` are used: the position was free), so C13's invariant is
preserved by real response handling with a hypothesis about the link layer's physical ids only; no
hypothesis about the handler (which request, which virtual address, allocation status) is needed.
-/
import NetqasmVerif.Lemmas.EprExecBridge
import NetqasmVerif.Props.C13
namespace NQ.C12
open NQ NQ.Bridge

/-- One keep-response consumed by the EPR handler = the controller operation `keep app v p` for some
application and virtual address chosen by the handler; it succeeds (no fault, not deferred: position
free before, mapped to `p` after) and the two models stay related. -/
theorem keep_handler_is_exec_keep {okf : Nat} {e e' : Epr.State} {r : Epr.Resp} {x : Exec.State} {p : Nat}
    (hR : UnitRel e x) (hc : Epr.tryHandle okf e r = .yes e') (hK : r.ty = .K) (hp : r.phys = (p : Int)) :
    ∃ (app : Nat) (v : Int) (i : Nat),
      (Exec.keepResp x app v p).2 = none ∧
      UnitRel e' (Exec.apply x (.keep app v p)) ∧
      Epr.mapped e app i = none ∧ Epr.mapped e' app i = some (p : Int) := by
  obtain ⟨app, v, i, h1, h2, h3, h4⟩ := keep_consumption_simulated hR (Epr.tryHandle_yes hc) hK hp
  exact ⟨app, v, i, h1, by simpa [Exec.apply] using h2, h3, h4⟩

/-- C13's invariant survives the real handler: the only hypothesis is about the link layer —
the physical qubit it delivers is one it reserved on this controller (`p ∈ x.reserved`), which is exactly
C13's `EnvOk` for the operation the handler performs. -/
theorem handler_preserves_qubit_invariant {okf : Nat} {e e' : Epr.State} {r : Epr.Resp} {x : Exec.State}
    {p : Nat} (hR : UnitRel e x) (hI : C13.Inv x) (hc : Epr.tryHandle okf e r = .yes e')
    (hK : r.ty = .K) (hp : r.phys = (p : Int)) (hres : p ∈ x.reserved) :
    ∃ (app : Nat) (v : Int), C13.EnvOk x (.keep app v p) ∧
      C13.Inv (Exec.apply x (.keep app v p)) ∧ UnitRel e' (Exec.apply x (.keep app v p)) := by
  obtain ⟨app, v, _, _, h2, _, _⟩ := keep_handler_is_exec_keep hR hc hK hp
  have he : C13.EnvOk x (.keep app v p) := by simp [C13.EnvOk, C13.envOk, hres]
  exact ⟨app, v, he, C13.inv_step x _ hI he, h2⟩

/-- measure responses do not touch the shared state -/
theorem measure_handler_keeps_rel {okf : Nat} {e e' : Epr.State} {r : Epr.Resp} {x : Exec.State}
    (hR : UnitRel e x) (hc : Epr.tryHandle okf e r = .yes e') (hM : r.ty = .M) : UnitRel e' x :=
  measure_consumption_keeps_rel hR (Epr.tryHandle_yes hc) hM

/-- A whole delivery or poll (`handlePending`: any number of consumptions of either type, in the order
the real loop picks them) amounts to a list of controller `keep` operations, one per consumed keep
response, each carrying the physical id of a response that was pending; if the link layer's ids satisfy
C13's environment hypothesis along that list, C13's invariant holds afterwards. -/
theorem handlePending_preserves_qubit_invariant {okf : Nat} {e e' : Epr.State} {x : Exec.State}
    (hR : UnitRel e x) (hI : C13.Inv x) (h : Epr.handlePending okf e = some e')
    (hnn : ∀ r ∈ e.pending, r.ty = .K → ∃ p : Nat, r.phys = (p : Int)) :
    ∃ ops : List Exec.Op, KeepOps e.pending ops ∧ UnitRel e' (ops.foldl Exec.apply x) ∧
      (C13.EnvOkAll x ops → C13.Inv (ops.foldl Exec.apply x)) := by
  obtain ⟨ops, h1, h2⟩ := micros_simulated (Epr.handlePendingFuel_micros _ _ _ h) hR hnn
  exact ⟨ops, h1, h2, fun he => C13.reachable ops x hI he⟩

/-- non-vacuity: an application with two free qubits in both models, one qubit reserved by the link
layer (physical id 0, marked used in both), a receive-keep request for virtual qubit 1 at the head of
its queue, and the matching response: the hypotheses of `handler_preserves_qubit_invariant` hold. -/
def demoE : Epr.State :=
  { Epr.init 0 with
    subs := [(0, 0)],
    apps := [(0, ⟨[(0, [some 1]), (1, [none, none])], [none, none]⟩)],
    used := [0],
    queues := [(⟨7, 3, false⟩, [⟨0, ⟨7, 3, false⟩, 0, 1, some 0, 1, 1⟩])] }

def demoX : Exec.State := Exec.apply (Exec.apply Exec.init0 (.init 0 2)) .reserve

def demoR : Epr.Resp := ⟨0, .K, 7, 3, 1, 0, [5, 6]⟩

theorem bridge_nonvacuous :
    UnitRel demoE demoX ∧ C13.Inv demoX ∧ (∃ e', Epr.tryHandle 2 demoE demoR = .yes e') ∧
    demoR.ty = .K ∧ demoR.phys = ((0 : Nat) : Int) ∧ 0 ∈ demoX.reserved := by
  refine ⟨⟨?_, ?_⟩, ?_, ?_, rfl, rfl, by decide⟩
  · intro a m hm
    simp only [demoE, Epr.getApp] at hm
    split at hm
    · rename_i ha
      injection hm with hm
      subst hm
      refine ⟨Exec.freshApp 2, ?_, by decide⟩
      simp [demoX, Exec.apply, Exec.initApp, Exec.init0, Exec.reserveQ, Exec.upd, ← ha]
    · cases hm
  · intro q
    simp [demoE, demoX, Exec.apply, Exec.initApp, Exec.init0, Exec.reserveQ, Exec.firstUnused,
      Exec.firstUnusedFrom, Exec.sadd]
  · exact C13.reachable_from_init [.init 0 2, .reserve] (by decide)
  · have hy : (match Epr.tryHandle 2 demoE demoR with | .yes _ => true | _ => false) = true := by decide
    cases h : Epr.tryHandle 2 demoE demoR with
    | yes e' => exact ⟨e', rfl⟩
    | err => rw [h] at hy; cases hy
    | no => rw [h] at hy; cases hy

end NQ.C12
