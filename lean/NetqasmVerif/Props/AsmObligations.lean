/-
Kernel-decided side conditions of the C03 proof about data regenerated from /repo
(`Gen/AsmPassTables.lean`, `Gen/InstrTable.lean`).  Kept in their own module so that they are
re-decided only when the data changes.
-/
import NetqasmVerif.Model.Asm
import NetqasmVerif.Lemmas.AsmPure
import NetqasmVerif.Gen.AsmPassTables
import NetqasmVerif.Gen.InstrTable
namespace NQ.AsmObl
open NQ NQ.Asm

/-- every immediate / branch-target position of an in-scope instruction is exempt from
constant replacement (`_REPLACE_CONSTANTS_EXCEPTION`) -/
theorem exc_covers : excCovers stdRoleTable Gen.excTable = true := by decide +kernel

/-- the hand-written roles agree with the operand kinds of the live vanilla classes -/
theorem roles_fit :
    stdRoleTable.all (fun e => match nameMap Gen.vanillaRows e.1 with
      | some row => rolesFit e.2 row.shape
      | none => false) = true := by decide +kernel

/-- the positions marked as branch targets are exactly the targets of the live branch classes -/
theorem branch_positions :
    stdRoleTable.flatMap (fun e => (tgtPositions e.2 0).map (fun j => (e.1, j))) = Gen.branchTargets := by
  decide +kernel

/-- every row of the vanilla table is found by its own class name -/
theorem classes_unique :
    Gen.vanillaRows.all (fun r => rowOf Gen.vanillaRows r.cls == some r) = true := by decide +kernel

/-- the scratch candidates are R0 … R15 -/
theorem num_scratch : Gen.numScratch = 16 := by decide

/-- the macro pass of the tree under test is token aware (F4 is fixed there) -/
theorem macro_probe_fixed : Gen.macroTokenAware = true := by decide

/-- every immediate position of every vanilla instruction is exempt from constant replacement (so an
assembled program is a fixed point of the passes) -/
theorem imm_exempt :
    Gen.vanillaRows.all (fun r => immExempt Gen.excTable r.mn 0 r.shape) = true := by decide +kernel

end NQ.AsmObl
