/-
C13 — Qubit memory is safe and applications are isolated on the controller.

Model: `Model/Exec.lean` (multi-application layer: `initApp`, `stopApp`, `step`/`run` per
application, `reserveQ`, `keepResp`/`keepAt`), tied to the real `Executor`/`QNodeController` by the
`exec` correspondence stream and by the model-free invariant oracle of `checks/c13.py`.
The model is of the code *after* the repairs of F16 (stop releases the shared-memory key) and F27
(a second registration of a running id is rejected before any state is touched).
-/
import NetqasmVerif.Lemmas.ExecInvStep
namespace NQ.C13
open NQ.Exec

/-- The invariant (`NQ.Exec.Inv`):
* `inj`      — the map (application, virtual qubit) ↦ physical qubit is injective, across all applications;
* `used_iff` — a physical qubit is marked used iff it is mapped or held by the link layer (`reserved`);
* `disj`     — a qubit held by the link layer is not mapped;
* `reg`      — every registered application owns its shared-memory key. -/
abbrev Inv := Exec.Inv

/-- Environment hypothesis, stated on the action: a keep-response delivers a physical qubit that
the link layer obtained from this controller (through `reserve`) and has not delivered yet. -/
def envOk (s : State) : Op → Bool
  | .keep _ _ p => decide (p ∈ s.reserved)
  | .keepAt _ _ p => decide (p ∈ s.reserved)
  | _ => true

abbrev EnvOk (s : State) (op : Op) : Prop := envOk s op = true

theorem inv_init : Inv init0 := inv_init0

theorem apply_exec (s : State) (hw a i pc) : apply s (.exec hw a i pc) = (step hw a i s pc).st := by
  simp only [apply]
  cases step hw a i s pc <;> rfl

/-- every operation preserves the invariant: init/stop application, any instruction (successful or
faulting — so in particular qalloc/qfree and all classical instructions), whole subroutines with any
step bound, the link layer reserving a qubit, keep-responses (under `EnvOk`), oracle scripting. -/
theorem inv_step (s : State) (op : Op) (hI : Inv s) (he : EnvOk s op) : Inv (apply s op) := by
  cases op with
  | init a n => exact inv_initApp' s a n hI
  | stop a => exact inv_stopApp' s a hI
  | exec hw a i pc => rw [apply_exec]; exact Exec.inv_step hw a i s pc hI
  | sub hw a prog fuel => exact inv_run hw a prog fuel s 0 hI
  | reserve => exact inv_reserveQ s hI
  | keep a v p => exact inv_keepResp s a v p hI (of_decide_eq_true he)
  | keepAt a qa p => exact inv_keepAt s a qa p hI (of_decide_eq_true he)
  | oracle os => exact inv_same hI rfl (fun _ => Iff.rfl) rfl rfl

/-- histories: the environment hypothesis along a list of operations -/
def envOkAll : State → List Op → Bool
  | _, [] => true
  | s, op :: rest => envOk s op && envOkAll (apply s op) rest

abbrev EnvOkAll (s : State) (ops : List Op) : Prop := envOkAll s ops = true

/-- the invariant holds after every history of any length -/
theorem reachable (ops : List Op) (s : State) (hI : Inv s) (he : EnvOkAll s ops) :
    Inv (ops.foldl apply s) := by
  induction ops generalizing s with
  | nil => exact hI
  | cons op rest ih =>
    have he' : envOk s op = true ∧ envOkAll (apply s op) rest = true := by
      have h2 : (envOk s op && envOkAll (apply s op) rest) = true := he
      simpa using h2
    exact ih (apply s op) (inv_step s op hI he'.1) he'.2

theorem reachable_from_init (ops : List Op) (he : EnvOkAll init0 ops) : Inv (ops.foldl apply init0) :=
  reachable ops init0 inv_init he

/-- memory safety, spelled out: in a reachable state no two allocated virtual qubits (of the same
or of different applications) share a physical qubit … -/
theorem no_sharing (s : State) (hI : Inv s) (a b va vb p : Nat) (h1 : phys s a va = some p)
    (h2 : phys s b vb = some p) : a = b ∧ va = vb := hI.inj a b va vb p h1 h2

/-- … and at quiescence (nothing held by the link layer) the set marked in use is exactly the set
currently mapped. -/
theorem used_exact (s : State) (hI : Inv s) (hq : s.reserved = []) (p : Nat) :
    p ∈ s.used ↔ ∃ a v, phys s a v = some p := by
  rw [hI.used_iff, hq]; simp

/-- in a reachable state `qfree` never hits the `set.remove` KeyError, so *every* fault is atomic
(C04.fault_atomic_reachable) -/
theorem no_usedKey (hw : Bool) (a : Nat) (i : Instr) (s s' : State) (pc : Int) (hI : Inv s) :
    step hw a i s pc ≠ .fault s' .usedKey := Exec.no_usedKey hw a i s s' pc hI

/-! ## Isolation -/

theorem run_apps_other (hw : Bool) (a : Nat) (prog : List Instr) (fuel : Nat) (s : State) (pc : Int)
    (b : Nat) (hb : b ≠ a) : (run hw a prog fuel s pc).s.apps b = s.apps b :=
  Exec.run_apps_other hw a prog fuel s pc b hb

/-- the application an operation belongs to -/
def opApp : Op → Option Nat
  | .init a _ | .stop a | .exec _ a _ _ | .sub _ a _ _ | .keep a _ _ | .keepAt a _ _ => some a
  | .reserve | .oracle _ => none

/-- One application's operations (registration, instructions, whole subroutines, deliveries, stop)
never change another application's registers, arrays, shared memory or unit module. -/
theorem isolation (s : State) (op : Op) (b : Nat) (hb : opApp op ≠ some b) :
    (apply s op).apps b = s.apps b := by
  cases op with
  | init a n =>
    have : b ≠ a := fun e => hb (by simp [opApp, e])
    simp only [apply, initApp]; split <;> simp [upd_other _ _ _ _ this]
  | stop a =>
    have : b ≠ a := fun e => hb (by simp [opApp, e])
    simp only [apply, stopApp]; split <;> simp [upd_other _ _ _ _ this]
  | exec hw a i pc =>
    have : b ≠ a := fun e => hb (by simp [opApp, e])
    rw [apply_exec]; exact step_apps_other hw a i s pc b this
  | sub hw a prog fuel =>
    have : b ≠ a := fun e => hb (by simp [opApp, e])
    exact run_apps_other hw a prog fuel s 0 b this
  | reserve => rfl
  | keep a v p =>
    have : b ≠ a := fun e => hb (by simp [opApp, e])
    simp only [apply, keepResp]
    repeat' split
    all_goals simp [upd_other _ _ _ _ this]
  | keepAt a qa p =>
    have : b ≠ a := fun e => hb (by simp [opApp, e])
    simp only [apply, keepAt, keepResp]
    repeat' split
    all_goals simp [upd_other _ _ _ _ this]
  | oracle os => rfl

/-! ## Stop releases; rejected registrations change nothing -/

/-- After `stop a` (of a registered application, in a reachable state): no error, the application's
registers/arrays/shared memory/unit module are gone, every physical qubit it held is unused, the
invariant still holds, and the same id can be registered again (with any unit-module size). -/
theorem stop_releases (s : State) (a : Nat) (ap : App) (hI : Inv s) (h : s.apps a = some ap) :
    (stopApp s a).2 = none ∧ (stopApp s a).1.apps a = none ∧
    (∀ p ∈ mapped ap.unit, p ∉ (stopApp s a).1.used) ∧ Inv (stopApp s a).1 ∧
    ∀ n, (initApp (stopApp s a).1 a n).2 = none ∧
      ((initApp (stopApp s a).1 a n).1.apps a).map (·.unit) = some (List.replicate n none) := by
  refine ⟨?_, ?_, ?_, inv_stopApp' s a hI, ?_⟩
  · simp [stopApp, h]
  · simp [stopApp, h]
  · intro p hp; simp [stopApp, h, List.mem_filter, hp]
  · intro n
    have hnr : a ∉ (stopApp s a).1.registry := by simp [stopApp, h, List.mem_filter]
    simp [initApp, hnr, freshApp]

/-- physical qubits of *other* applications stay in use across a stop -/
theorem stop_keeps_others (s : State) (a b v p : Nat) (ap : App) (hI : Inv s) (h : s.apps a = some ap)
    (hb : b ≠ a) (hp : phys s b v = some p) : p ∈ (stopApp s a).1.used ∧ phys (stopApp s a).1 b v = some p := by
  have hu : unitOf s a = some ap.unit := by simp [unitOf, h]
  constructor
  · simp only [stopApp, h, List.mem_filter]
    refine ⟨(hI.used_iff p).2 (Or.inl ⟨b, v, hp⟩), ?_⟩
    simp only [Bool.not_eq_true', List.contains_eq_mem, decide_eq_false_iff_not]
    rw [mem_mapped]
    rintro ⟨w, hw⟩
    have : phys s a w = some p := by simp [phys, hu, physU]; exact hw
    exact hb (hI.inj b a v w p hp this).1
  · simp only [stopApp, h]
    simp only [phys, unitOf] at hp ⊢
    simpa [upd_other _ _ _ _ hb] using hp

/-- a rejected operation leaves the state unchanged: second registration of a running id (F27),
stop of an unknown id -/
theorem rejected_unchanged (s : State) (a n : Nat) :
    ((initApp s a n).2 ≠ none → (initApp s a n).1 = s) ∧ ((stopApp s a).2 ≠ none → (stopApp s a).1 = s) := by
  constructor
  · unfold initApp; split <;> simp
  · unfold stopApp; split <;> simp

/-- a running application cannot be registered twice -/
theorem double_init_rejected (s : State) (a n : Nat) (hI : Inv s) (h : s.apps a ≠ none) :
    (initApp s a n).2 = some .alreadyReg ∧ (initApp s a n).1 = s := by
  have : a ∈ s.registry := hI.reg a (by simpa [unitOf] using h)
  simp [initApp, this]

/-- allocation picks the smallest unused physical qubit, and it is unused -/
theorem alloc_fresh (l : List Nat) : firstUnused l ∉ l ∧ ∀ q, q < firstUnused l → q ∈ l :=
  ⟨firstUnused_not_mem l, fun q h => firstUnusedFrom_min l.length l 0 q (Nat.zero_le _) h⟩

/-! ## Subroutines of several applications in flight at once

`execute_subroutine` is a generator; the runtime may start a subroutine of one application while
subroutines of others are suspended and resume them in any order.  `Exec.tick` advances one
in-flight subroutine by one instruction (the finest switching granularity, which includes every
yield point of the executor itself); a history is a list of `IOp`s: sequential operations,
`spawn`, `tick`.  Each tick is a step of ONE application against the shared controller state, so
the per-step theorems compose over every schedule. -/

theorem inv_tick (hw : Bool) (sys : Sys) (i : Nat) (hI : Inv sys.s) : Inv (tick hw sys i).s := by
  unfold tick
  split
  · exact hI
  · split
    · exact hI
    · exact inv_run hw _ _ 1 sys.s _ hI

/-- resuming a subroutine changes neither the application nor the code of any in-flight subroutine -/
theorem tick_subs_app (hw : Bool) (sys : Sys) (i j : Nat) :
    ((tick hw sys i).subs[j]?).map (fun sb => (sb.a, sb.prog)) = (sys.subs[j]?).map (fun sb => (sb.a, sb.prog)) := by
  unfold tick
  split
  · rfl
  · rename_i sb hsb
    split
    · rfl
    · simp only [List.getElem?_set]
      split
      · rename_i hij
        subst hij
        split
        · simp [hsb]
        · rename_i hlt
          have := List.getElem?_eq_none (Nat.le_of_not_lt hlt)
          simp [this] at hsb
      · rfl

/-- a tick of a subroutine of application `a` leaves every other application unchanged -/
theorem tick_isolation (hw : Bool) (sys : Sys) (i b : Nat)
    (h : ∀ sb, sys.subs[i]? = some sb → sb.a ≠ b) : (tick hw sys i).s.apps b = sys.s.apps b := by
  unfold tick
  split
  · rfl
  · rename_i sb hsb
    split
    · rfl
    · exact Exec.run_apps_other hw sb.a sb.prog 1 sys.s sb.pc b (fun e => h sb hsb e.symm)

/-- … hence so does every schedule that resumes only subroutines of other applications, however
they are interleaved -/
theorem schedule_isolation (hw : Bool) (sched : List Nat) (sys : Sys) (b : Nat)
    (h : ∀ i ∈ sched, ∀ sb, sys.subs[i]? = some sb → sb.a ≠ b) :
    (sched.foldl (tick hw) sys).s.apps b = sys.s.apps b := by
  induction sched generalizing sys with
  | nil => rfl
  | cons i rest ih =>
    simp only [List.foldl_cons]
    rw [ih (tick hw sys i)]
    · exact tick_isolation hw sys i b (h i (by simp))
    · intro j hj sb hsb
      have h1 := tick_subs_app hw sys i j
      rw [hsb] at h1
      rcases h2 : sys.subs[j]? with _ | sb0
      · simp [h2] at h1
      · simp only [h2, Option.map_some, Option.some.injEq, Prod.mk.injEq] at h1
        have := h j (by simp [hj]) sb0 h2
        rw [h1.1]; exact this

def ienvOk (sys : Sys) : IOp → Bool
  | .base op => envOk sys.s op
  | _ => true

def ienvOkAll : Sys → List IOp → Bool
  | _, [] => true
  | sys, op :: rest => ienvOk sys op && ienvOkAll (iapply sys op) rest

theorem inv_istep (sys : Sys) (op : IOp) (hI : Inv sys.s) (he : ienvOk sys op = true) :
    Inv (iapply sys op).s := by
  cases op with
  | base op => exact inv_step sys.s op hI he
  | spawn a prog => exact hI
  | tick hw i => exact inv_tick hw sys i hI

/-- the invariant holds after every history in which subroutines of several applications are in
flight simultaneously and are advanced in an arbitrary order -/
theorem reachable_interleaved (iops : List IOp) (sys : Sys) (hI : Inv sys.s)
    (he : ienvOkAll sys iops = true) : Inv (iops.foldl iapply sys).s := by
  induction iops generalizing sys with
  | nil => exact hI
  | cons op rest ih =>
    have h2 : (ienvOk sys op && ienvOkAll (iapply sys op) rest) = true := he
    have he' : ienvOk sys op = true ∧ ienvOkAll (iapply sys op) rest = true := by simpa using h2
    exact ih (iapply sys op) (inv_istep sys op hI he'.1) he'.2

/-- the application an interleaved operation belongs to -/
def iopApp (sys : Sys) : IOp → Option Nat
  | .base op => opApp op
  | .spawn _ _ => none
  | .tick _ i => (sys.subs[i]?).map (·.a)

theorem isolation_interleaved (sys : Sys) (op : IOp) (b : Nat) (hb : iopApp sys op ≠ some b) :
    (iapply sys op).s.apps b = sys.s.apps b := by
  cases op with
  | base op => exact isolation sys.s op b hb
  | spawn a prog => rfl
  | tick hw i =>
    apply tick_isolation
    intro sb hsb e
    apply hb
    simp [iopApp, hsb, e]

/-! ## Aborted subroutines; several executors per process -/

/-- dropping a suspended subroutine changes nothing of the controller state … -/
theorem abort_state (sys : Sys) (i : Nat) : (abort sys i).s = sys.s := by
  unfold abort; split <;> rfl

/-- … so the invariant survives an abort between two instructions, -/
theorem inv_abort (sys : Sys) (i : Nat) (hI : Inv sys.s) : Inv (abort sys i).s := by
  rw [abort_state]; exact hI

/-- and an abort at the yield point inside the next instruction (`qfree`'s reset hook): the mapping
and the used set were updated together before that yield, so used = mapped ∪ reserved still holds
and a later `stop`/allocation sees a consistent pool. -/
theorem inv_abortMid (hw : Bool) (sys : Sys) (i : Nat) (hI : Inv sys.s) : Inv (abortMid hw sys i).s := by
  unfold abortMid; rw [abort_state]; exact inv_tick hw sys i hI

/-- `qfree` is atomic with respect to (unit module, used): in the state any observer can see after
the instruction started, the freed physical qubit is neither mapped by the slot nor marked used -/
theorem qfree_atomic (hw a l l' pc pc' r) (h : stepLoc hw a (.qfree r) l pc = .ok l' pc') :
    ∃ p q, l.ap.unit[p]?.join = some q ∧ l'.ap.unit = l.ap.unit.set p none ∧ q ∉ l'.used := by
  simp only [stepLoc] at h
  repeat' split at h
  all_goals first | (cases h; done) | skip
  rename_i p _ _ q hq _
  cases h
  exact ⟨p, q, hq, rfl, by simp [mem_srem]⟩

/-- a history may continue after aborts: the invariant holds after any mix of operations, ticks and
aborts (stated as one more step kind on top of `reachable_interleaved`) -/
theorem reachable_with_aborts (sys : Sys) (hI : Inv sys.s) (iops : List IOp)
    (he : ienvOkAll sys iops = true) (hw : Bool) (i : Nat) (iops' : List IOp)
    (he' : ienvOkAll (abortMid hw (iops.foldl iapply sys) i) iops' = true) :
    Inv (iops'.foldl iapply (abortMid hw (iops.foldl iapply sys) i)).s :=
  reachable_interleaved iops' _ (inv_abortMid hw _ i (reachable_interleaved iops sys hI he)) he'

/-- Several executors in one process: a step of executor `k` leaves every other executor's state
unchanged.  This is true by construction — the model has NO component shared between executors —
and is exactly what the correspondence stream checks of the real class (each real `Executor`
instance is compared with its own independent model copy while the instances are advanced
interleaved): any process-wide shared table in the code shows up as a disagreement. -/
theorem executors_independent (m : List Sys) (k j : Nat) (op : IOp) (h : j ≠ k) :
    (mapply m k op)[j]? = m[j]? := by
  unfold mapply
  split
  · rfl
  · rw [List.getElem?_set]
    simp [Ne.symm h]

/-- every executor keeps its own invariant -/
theorem inv_mapply (m : List Sys) (k : Nat) (op : IOp) (hI : ∀ sys ∈ m, Inv sys.s)
    (he : ∀ sys, m[k]? = some sys → ienvOk sys op = true) : ∀ sys ∈ mapply m k op, Inv sys.s := by
  unfold mapply
  split
  · exact hI
  · rename_i sys hk
    intro sys' hs'
    rcases List.mem_or_eq_of_mem_set hs' with h | h
    · exact hI sys' h
    · subst h
      exact inv_istep sys op (hI sys (List.mem_of_getElem? hk)) (he sys hk)

/-! ## Keep responses: parked responses mark nothing; deliveries without pre-reservation -/

/-- a keep response whose virtual qubit is still allocated is parked: NOTHING changes — in particular
its physical qubit is not marked in use by the executor -/
theorem keepResp_parked_unchanged (s : State) (a : Nat) (ap : App) (v : Int) (p : Nat)
    (hap : s.apps a = some ap) (h0 : 0 ≤ v) (h1 : v < ap.unit.length)
    (hbusy : (ap.unit[v.toNat]?.join).isSome = true) : keepResp s a v p = (s, none) := by
  unfold keepResp
  simp only [hap]
  rw [if_pos ⟨h0, h1, hbusy⟩]

/-- histories WITHOUT pre-reservation (a stub network stack): the delivered physical qubit is any id
that is unused at the moment the response is handled.  A response that is handled successfully (or
parked) preserves the invariant; used stays exactly mapped ∪ reserved. -/
theorem inv_keepResp_fresh (s : State) (a : Nat) (v : Int) (p : Nat) (hI : Inv s) (hp : p ∉ s.used)
    (hok : (keepResp s a v p).2 = none) : Inv (keepResp s a v p).1 := by
  have hpr : p ∉ s.reserved := fun h => hp ((hI.used_iff p).2 (Or.inr h))
  unfold keepResp at hok ⊢
  split
  · exact hI
  · rename_i ap hap
    have hu : unitOf s a = some ap.unit := by simp [unitOf, hap]
    simp only [hap] at hok
    simp only []
    split
    · exact hI
    · rename_i hdef
      simp only [hdef, if_false] at hok
      split
      · rename_i hge; simp [hge] at hok
      · rename_i hge
        simp only [hge, if_false] at hok
        split
        · rename_i hk; simp [hk] at hok
        · rename_i k hk
          simp only [hk] at hok
          split
          · rename_i q hq; simp [hq] at hok
          · rename_i hn
            refine inv_alloc (q := p) hI hu (pyIdx_lt hk) hn hp ?_ ?_ ?_ rfl
            · funext b
              simp only [unitOf, upd]
              split <;> simp
            · intro x; simp [mem_sadd]
            · simp only []
              apply List.filter_eq_self.2
              intro x hx
              simp only [bne_iff_ne, ne_eq]
              intro e; subst e; exact hpr hx

/-! ## Non-vacuity: a concrete history with two applications, allocation, delivery, stop, re-registration -/

def q0 : XReg := ⟨2, 0⟩

def demoOps : List Op :=
  [.init 0 2, .init 1 1, .sub false 0 [.set q0 0, .qalloc q0] 10, .sub false 1 [.set q0 0, .qalloc q0] 10,
   .reserve, .keep 0 1 2, .stop 1, .init 1 3]

example : EnvOkAll init0 demoOps := by decide

example : phys (demoOps.foldl apply init0) 0 0 = some 0 ∧ phys (demoOps.foldl apply init0) 0 1 = some 2
    ∧ phys (demoOps.foldl apply init0) 1 0 = none
    ∧ (demoOps.foldl apply init0).used = [2, 0] ∧ (demoOps.foldl apply init0).reserved = [] := by decide

example : Inv (demoOps.foldl apply init0) := reachable_from_init demoOps (by decide)

/-- without the environment hypothesis the invariant can be broken: delivering a physical qubit that
is already mapped (so the hypothesis of `inv_step` for keep-responses is necessary) -/
example : let s := ([.init 0 2, .sub false 0 [.set q0 0, .qalloc q0] 10, .keep 0 1 0] : List Op).foldl apply init0
    phys s 0 0 = some 0 ∧ phys s 0 1 = some 0 := by decide

/-- the interleaving of the seeded-change demo: app 0 and app 1 both in flight, app 0 resumed while
app 1 is suspended — app 1's registers are untouched and app 0's write lands in app 0 -/
def r1 : XReg := ⟨0, 1⟩
def demoIOps : List IOp :=
  [.base (.init 0 2), .base (.init 1 2), .spawn 0 [.set q0 0, .qalloc q0, .set r1 42],
   .spawn 1 [.set r1 7, .set q0 0, .qalloc q0], .tick false 0, .tick false 1, .tick false 0, .tick false 1,
   .tick false 0, .tick false 1]

example : let sys := demoIOps.foldl iapply sys0
    (sys.s.apps 0).bind (·.regs r1) = some 42 ∧ (sys.s.apps 1).bind (·.regs r1) = some 7 ∧
    phys sys.s 0 0 = some 0 ∧ phys sys.s 1 0 = some 1 := by decide

example : Inv (demoIOps.foldl iapply sys0).s := reachable_interleaved demoIOps sys0 inv_init (by decide)

end NQ.C13
