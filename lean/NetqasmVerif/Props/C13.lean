/-
C13 — Qubit memory is safe and applications are isolated on the controller.

Model: `Model/Exec.lean` (multi-application layer: `initApp`, `stopApp`, `step`/`run` per
application, `reserveQ`, `keepResp`/`keepAt`), tied to the real `Executor`/`QNodeController` by the
`exec` correspondence stream and by the model-free invariant oracle of `checks/c13.py`.
The model is of the code *after* the repairs of F16 (stop releases the shared-memory key) and F27
(a second registration of a running id is rejected before any state is touched).
-/
import NetqasmVerif.Lemmas.ExecInvStep
namespace NQ.C13
open NQ.Exec

/-- The invariant (`NQ.Exec.Inv`):
* `inj`      — the map (application, virtual qubit) ↦ physical qubit is injective, across all applications;
* `used_iff` — a physical qubit is marked used iff it is mapped or held by the link layer (`reserved`);
* `disj`     — a qubit held by the link layer is not mapped;
* `reg`      — every registered application owns its shared-memory key. -/
abbrev Inv := Exec.Inv

/-- Environment hypothesis, stated on the action: a keep-response delivers a physical qubit that
the link layer obtained from this controller (through `reserve`) and has not delivered yet. -/
def envOk (s : State) : Op → Bool
  | .keep _ _ p => decide (p ∈ s.reserved)
  | .keepAt _ _ p => decide (p ∈ s.reserved)
  | _ => true

abbrev EnvOk (s : State) (op : Op) : Prop := envOk s op = true

theorem inv_init : Inv init0 := inv_init0

theorem apply_exec (s : State) (hw a i pc) : apply s (.exec hw a i pc) = (step hw a i s pc).st := by
  simp only [apply]
  cases step hw a i s pc <;> rfl

/-- every operation preserves the invariant: init/stop application, any instruction (successful or
faulting — so in particular qalloc/qfree and all classical instructions), whole subroutines with any
step bound, the link layer reserving a qubit, keep-responses (under `EnvOk`), oracle scripting. -/
theorem inv_step (s : State) (op : Op) (hI : Inv s) (he : EnvOk s op) : Inv (apply s op) := by
  cases op with
  | init a n => exact inv_initApp' s a n hI
  | stop a => exact inv_stopApp' s a hI
  | exec hw a i pc => rw [apply_exec]; exact Exec.inv_step hw a i s pc hI
  | sub hw a prog fuel => exact inv_run hw a prog fuel s 0 hI
  | reserve => exact inv_reserveQ s hI
  | keep a v p => exact inv_keepResp s a v p hI (of_decide_eq_true he)
  | keepAt a qa p => exact inv_keepAt s a qa p hI (of_decide_eq_true he)
  | oracle os => exact inv_same hI rfl (fun _ => Iff.rfl) rfl rfl

/-- histories: the environment hypothesis along a list of operations -/
def envOkAll : State → List Op → Bool
  | _, [] => true
  | s, op :: rest => envOk s op && envOkAll (apply s op) rest

abbrev EnvOkAll (s : State) (ops : List Op) : Prop := envOkAll s ops = true

/-- the invariant holds after every history of any length -/
theorem reachable (ops : List Op) (s : State) (hI : Inv s) (he : EnvOkAll s ops) :
    Inv (ops.foldl apply s) := by
  induction ops generalizing s with
  | nil => exact hI
  | cons op rest ih =>
    have he' : envOk s op = true ∧ envOkAll (apply s op) rest = true := by
      have h2 : (envOk s op && envOkAll (apply s op) rest) = true := he
      simpa using h2
    exact ih (apply s op) (inv_step s op hI he'.1) he'.2

theorem reachable_from_init (ops : List Op) (he : EnvOkAll init0 ops) : Inv (ops.foldl apply init0) :=
  reachable ops init0 inv_init he

/-- memory safety, spelled out: in a reachable state no two allocated virtual qubits (of the same
or of different applications) share a physical qubit … -/
theorem no_sharing (s : State) (hI : Inv s) (a b va vb p : Nat) (h1 : phys s a va = some p)
    (h2 : phys s b vb = some p) : a = b ∧ va = vb := hI.inj a b va vb p h1 h2

/-- … and at quiescence (nothing held by the link layer) the set marked in use is exactly the set
currently mapped. -/
theorem used_exact (s : State) (hI : Inv s) (hq : s.reserved = []) (p : Nat) :
    p ∈ s.used ↔ ∃ a v, phys s a v = some p := by
  rw [hI.used_iff, hq]; simp

/-- in a reachable state `qfree` never hits the `set.remove` KeyError, so *every* fault is atomic
(C04.fault_atomic without its side condition) -/
theorem no_usedKey (hw : Bool) (a : Nat) (i : Instr) (s s' : State) (pc : Int) (hI : Inv s) :
    step hw a i s pc ≠ .fault s' .usedKey := by
  intro h
  rcases hap : s.apps a with _ | ap
  · unfold step at h; simp only [hap] at h; split at h <;> cases h
  · rcases hl : stepLoc hw a i (s.loc ap) pc with ⟨l, pc'⟩ | ⟨l, f⟩
    · rw [step_ok_of_loc hap hl] at h; cases h
    · rw [step_fault_of_loc hap hl] at h
      cases h
      have hq := stepLoc_qchange hw a i (s.loc ap) pc
      cases i <;> simp only [stepLoc] at hl
      all_goals first
        | (have := (wr_fault hl).2; cases this; done)
        | skip
      all_goals (try (unfold arith at hl)); (try (unfold arithm at hl))
      all_goals
        repeat' split at hl
      all_goals first
        | (cases hl; done)
        | (have := (wr_fault hl).2; cases this; done)
        | (simp only [br_ok] at hl; cases hl; done)
        | skip
      -- the only remaining case: qfree of a mapped qubit that is not marked used
      rename_i p _ _ q hq' hmem
      apply hmem
      have hu : unitOf s a = some ap.unit := by simp [unitOf, hap]
      exact (hI.used_iff q).2 (Or.inl ⟨a, p, by simp [phys, hu, physU]; exact hq'⟩)

/-! ## Isolation -/

theorem run_apps_other (hw : Bool) (a : Nat) (prog : List Instr) (fuel : Nat) (s : State) (pc : Int)
    (b : Nat) (hb : b ≠ a) : (run hw a prog fuel s pc).s.apps b = s.apps b :=
  Exec.run_apps_other hw a prog fuel s pc b hb

/-- the application an operation belongs to -/
def opApp : Op → Option Nat
  | .init a _ | .stop a | .exec _ a _ _ | .sub _ a _ _ | .keep a _ _ | .keepAt a _ _ => some a
  | .reserve | .oracle _ => none

/-- One application's operations (registration, instructions, whole subroutines, deliveries, stop)
never change another application's registers, arrays, shared memory or unit module. -/
theorem isolation (s : State) (op : Op) (b : Nat) (hb : opApp op ≠ some b) :
    (apply s op).apps b = s.apps b := by
  cases op with
  | init a n =>
    have : b ≠ a := fun e => hb (by simp [opApp, e])
    simp only [apply, initApp]; split <;> simp [upd_other _ _ _ _ this]
  | stop a =>
    have : b ≠ a := fun e => hb (by simp [opApp, e])
    simp only [apply, stopApp]; split <;> simp [upd_other _ _ _ _ this]
  | exec hw a i pc =>
    have : b ≠ a := fun e => hb (by simp [opApp, e])
    rw [apply_exec]; exact step_apps_other hw a i s pc b this
  | sub hw a prog fuel =>
    have : b ≠ a := fun e => hb (by simp [opApp, e])
    exact run_apps_other hw a prog fuel s 0 b this
  | reserve => rfl
  | keep a v p =>
    have : b ≠ a := fun e => hb (by simp [opApp, e])
    simp only [apply, keepResp]
    repeat' split
    all_goals simp [upd_other _ _ _ _ this]
  | keepAt a qa p =>
    have : b ≠ a := fun e => hb (by simp [opApp, e])
    simp only [apply, keepAt, keepResp]
    repeat' split
    all_goals simp [upd_other _ _ _ _ this]
  | oracle os => rfl

/-! ## Stop releases; rejected registrations change nothing -/

/-- After `stop a` (of a registered application, in a reachable state): no error, the application's
registers/arrays/shared memory/unit module are gone, every physical qubit it held is unused, the
invariant still holds, and the same id can be registered again (with any unit-module size). -/
theorem stop_releases (s : State) (a : Nat) (ap : App) (hI : Inv s) (h : s.apps a = some ap) :
    (stopApp s a).2 = none ∧ (stopApp s a).1.apps a = none ∧
    (∀ p ∈ mapped ap.unit, p ∉ (stopApp s a).1.used) ∧ Inv (stopApp s a).1 ∧
    ∀ n, (initApp (stopApp s a).1 a n).2 = none ∧
      ((initApp (stopApp s a).1 a n).1.apps a).map (·.unit) = some (List.replicate n none) := by
  refine ⟨?_, ?_, ?_, inv_stopApp' s a hI, ?_⟩
  · simp [stopApp, h]
  · simp [stopApp, h]
  · intro p hp; simp [stopApp, h, List.mem_filter, hp]
  · intro n
    have hnr : a ∉ (stopApp s a).1.registry := by simp [stopApp, h, List.mem_filter]
    simp [initApp, hnr, freshApp]

/-- physical qubits of *other* applications stay in use across a stop -/
theorem stop_keeps_others (s : State) (a b v p : Nat) (ap : App) (hI : Inv s) (h : s.apps a = some ap)
    (hb : b ≠ a) (hp : phys s b v = some p) : p ∈ (stopApp s a).1.used ∧ phys (stopApp s a).1 b v = some p := by
  have hu : unitOf s a = some ap.unit := by simp [unitOf, h]
  constructor
  · simp only [stopApp, h, List.mem_filter]
    refine ⟨(hI.used_iff p).2 (Or.inl ⟨b, v, hp⟩), ?_⟩
    simp only [Bool.not_eq_true', List.contains_eq_mem, decide_eq_false_iff_not]
    rw [mem_mapped]
    rintro ⟨w, hw⟩
    have : phys s a w = some p := by simp [phys, hu, physU]; exact hw
    exact hb (hI.inj b a v w p hp this).1
  · simp only [stopApp, h]
    simp only [phys, unitOf] at hp ⊢
    simpa [upd_other _ _ _ _ hb] using hp

/-- a rejected operation leaves the state unchanged: second registration of a running id (F27),
stop of an unknown id -/
theorem rejected_unchanged (s : State) (a n : Nat) :
    ((initApp s a n).2 ≠ none → (initApp s a n).1 = s) ∧ ((stopApp s a).2 ≠ none → (stopApp s a).1 = s) := by
  constructor
  · unfold initApp; split <;> simp
  · unfold stopApp; split <;> simp

/-- a running application cannot be registered twice -/
theorem double_init_rejected (s : State) (a n : Nat) (hI : Inv s) (h : s.apps a ≠ none) :
    (initApp s a n).2 = some .alreadyReg ∧ (initApp s a n).1 = s := by
  have : a ∈ s.registry := hI.reg a (by simpa [unitOf] using h)
  simp [initApp, this]

/-- allocation picks the smallest unused physical qubit, and it is unused -/
theorem alloc_fresh (l : List Nat) : firstUnused l ∉ l ∧ ∀ q, q < firstUnused l → q ∈ l :=
  ⟨firstUnused_not_mem l, fun q h => firstUnusedFrom_min l.length l 0 q (Nat.zero_le _) h⟩

/-! ## Non-vacuity: a concrete history with two applications, allocation, delivery, stop, re-registration -/

def q0 : XReg := ⟨2, 0⟩

def demoOps : List Op :=
  [.init 0 2, .init 1 1, .sub false 0 [.set q0 0, .qalloc q0] 10, .sub false 1 [.set q0 0, .qalloc q0] 10,
   .reserve, .keep 0 1 2, .stop 1, .init 1 3]

example : EnvOkAll init0 demoOps := by decide

example : phys (demoOps.foldl apply init0) 0 0 = some 0 ∧ phys (demoOps.foldl apply init0) 0 1 = some 2
    ∧ phys (demoOps.foldl apply init0) 1 0 = none
    ∧ (demoOps.foldl apply init0).used = [2, 0] ∧ (demoOps.foldl apply init0).reserved = [] := by decide

example : Inv (demoOps.foldl apply init0) := reachable_from_init demoOps (by decide)

/-- without the environment hypothesis the invariant can be broken: delivering a physical qubit that
is already mapped (so the hypothesis of `inv_step` for keep-responses is necessary) -/
example : let s := ([.init 0 2, .sub false 0 [.set q0 0, .qalloc q0] 10, .keep 0 1 0] : List Op).foldl apply init0
    phys s 0 0 = some 0 ∧ phys s 0 1 = some 0 := by decide

end NQ.C13
