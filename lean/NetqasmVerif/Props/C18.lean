/-
C18 — Thread sockets deliver every message once and in order under any schedule.

Model: `Model/Hub.lean` — the socket hub AFTER the fix of F20, one transition per source line that
touches shared state.  Every theorem below quantifies over `Reachable progs s`: ANY number of
endpoint threads, ANY programs (`progs`), EVERY interleaving of the atomic steps.

A directed channel is identified by the RECEIVER's key `k = (node, remote node, socket id)`; the
sender works on `rkey k`.  `sent`/`delivered` are history variables (linearisation points: the
`append` under the lock / the callback invocation, and the `pop(0)` / the callback invocation).

PARTIAL, labelled: granularity is one source line (not bytecode / C level); timeouts, `sleep`,
GC-driven `__del__` and dead `WeakMethod`s are not modelled; one thread per endpoint.
`callback_inv` is stated for callback keys that are never disconnected and never connected without
callbacks (`CbOnlyProg`); for plain keys the statements are unconditional: any number of socket ids per
pair (keys are arbitrary triples), any payloads (messages are abstract identities, so plain, structured
and falsy payloads such as "" are all covered), any disconnect–reconnect history.
-/
import NetqasmVerif.Lemmas.Hub
import NetqasmVerif.Model.ThreadSocket
namespace NQ.C18
open NQ.Hub NQ.TSock

/-- `chan_inv`: for every channel whose owner never registers a callback, in every reachable state,
`sent = delivered ++ queue`. -/
theorem chan_inv (progs : List (List Op)) (s : State) (k : Key) (h : Reachable progs s)
    (hk : ∀ t, NoCbProg t k (progs.getD t [])) : s.sent k = s.delivered k ++ s.msgs k := by
  have : PlainInv k s := by
    induction h with
    | init => exact plainInv_init k progs hk
    | step s s' tid _ hs ih => exact plainInv_step k s s' tid ih hs
  exact this.chan

theorem plain_got (progs : List (List Op)) (s : State) (k : Key) (h : Reachable progs s)
    (hk : ∀ t, NoCbProg t k (progs.getD t [])) :
    PlainInv k s ∧ gotOf k (s.threads k.1).res = s.delivered k := by
  induction h with
  | init =>
    refine ⟨plainInv_init k progs hk, ?_⟩
    show gotOf k (startThread k.1 (progs.getD k.1 [])).res = []
    unfold startThread; split <;> rfl
  | step s s' tid hr hs ih =>
    exact ⟨plainInv_step k s s' tid ih.1 hs,
      got_step k s s' tid (baseInv_reachable progs s hr).own ih.1 ih.2 hs⟩

/-- exactly once, in order, per direction and socket id: what the receiving endpoint's `recv` calls
have returned so far (oldest first) followed by what is still queued IS the sequence sent so far. -/
theorem exactly_once_fifo (progs : List (List Op)) (s : State) (k : Key) (h : Reachable progs s)
    (hk : ∀ t, NoCbProg t k (progs.getD t [])) :
    s.sent k = gotOf k (s.threads k.1).res ++ s.msgs k := by
  obtain ⟨hp, hg⟩ := plain_got progs s k h hk
  rw [hg]; exact hp.chan

/-- `no_stale`: the received sequence is a prefix of the sent sequence — the i-th message returned is
the i-th message sent, so a popped message is never returned again and none is skipped. -/
theorem no_stale (progs : List (List Op)) (s : State) (k : Key) (h : Reachable progs s)
    (hk : ∀ t, NoCbProg t k (progs.getD t [])) :
    gotOf k (s.threads k.1).res <+: s.sent k :=
  ⟨s.msgs k, (exactly_once_fifo progs s k h hk).symm⟩

/-- a `recv` that reaches its `pop(0)` returns the HEAD of the queue, removes exactly it, and the
queue is never empty at that point (the check-then-pop race cannot happen: one popper per key). -/
theorem recv_returns_head (progs : List (List Op)) (s : State) (tid : Nat) (k : Key) (tag : Nat)
    (h : Reachable progs s) (hpc : (s.threads tid).pc = .rPop k tag) :
    ∃ m q s', s.msgs k = m :: q ∧ step s tid = some s' ∧ s'.msgs k = q ∧
      s'.delivered k = s.delivered k ++ [m] ∧
      (s'.threads tid).res = (s.threads tid).res ++ [.got k m tag] := by
  have hne := (baseInv_reachable progs s h).pop tid k tag (Or.inr hpc)
  cases hq : s.msgs k with
  | nil => exact absurd hq hne
  | cons m q =>
    let S : State := { s with msgs := upd s.msgs k q, delivered := upd s.delivered k (s.delivered k ++ [m]), popped := upd s.popped k (s.popped k ++ [m]), lock := none }
    have hs : step s tid = some (setThread S tid (advance tid (s.threads tid) (.got k m tag))) := by
      unfold step; simp only [hpc, hq, S]
    exact ⟨m, q, _, rfl, hs, by simp [upd, S], by simp [upd, S], by simp⟩

/-- `pop(0)` on an empty list (IndexError) never happens -/
theorem pop_never_crashes (progs : List (List Op)) (s : State) (h : Reachable progs s) :
    ∀ t k, Res.crash k ∉ (s.threads t).res := (baseInv_reachable progs s h).nocrash

/-- `recv_nonblock_empty`: a non-blocking `recv` that finds the queue empty reports emptiness and
changes nothing in the shared state. -/
theorem recv_nonblock_empty (s : State) (tid : Nat) (k : Key) (tag : Nat)
    (hpc : (s.threads tid).pc = .rLen k .nb tag) (hq : s.msgs k = []) :
    ∃ s', step s tid = some s' ∧ (s'.threads tid).res = (s.threads tid).res ++ [.empty k] ∧
      s'.msgs = s.msgs ∧ s'.sent = s.sent ∧ s'.delivered = s.delivered ∧ s'.open_ = s.open_ ∧
      s'.remote = s.remote ∧ s'.recvCbs = s.recvCbs ∧ s'.lostCbs = s.lostCbs ∧ s'.lock = s.lock ∧
      s'.cbStore = s.cbStore := by
  have hs : step s tid = some (setThread s tid (advance tid (s.threads tid) (.empty k))) := by
    unfold step; simp only [hpc, hq]
  exact ⟨_, hs, by simp, rfl, rfl, rfl, rfl, rfl, rfl, rfl, rfl, rfl⟩

/-- a `recv` (blocking or not) that finds a message queued goes on to pop it (it does not report
emptiness and does not loop) -/
theorem recv_nonblock_nonempty (s : State) (tid : Nat) (k : Key) (b : RMode) (tag : Nat)
    (hpc : (s.threads tid).pc = .rLen k b tag) (hq : s.msgs k ≠ []) :
    ∃ s', step s tid = some s' ∧ (s'.threads tid).pc = .rLock2 k tag ∧ s'.msgs = s.msgs := by
  cases hm : s.msgs k with
  | nil => exact absurd hm hq
  | cons m q =>
    have hs : step s tid = some (setThread s tid (goto (s.threads tid) (.rLock2 k tag))) := by
      unfold step; simp only [hpc, hm]
    exact ⟨_, hs, by simp, rfl⟩

/-- the lock is held exactly by the thread that is inside a `with self._lock` block; hence at most
one thread is inside such a block -/
theorem lock_inv (progs : List (List Op)) (s : State) (h : Reachable progs s) :
    (∀ t, holding (s.threads t).pc = true ↔ s.lock = some t) ∧
    (∀ t t', holding (s.threads t).pc = true → holding (s.threads t').pc = true → t = t') := by
  have hl := (baseInv_reachable progs s h).lock
  refine ⟨hl, ?_⟩
  intro t t' h1 h2
  have e1 := (hl t).mp h1
  have e2 := (hl t').mp h2
  rw [e1] at e2; injection e2

/-- publication invariant behind the rendezvous: a key that was ever added to `_open_sockets` is still
in `_open_sockets` (its owner is between the two `add`s), or in `_remote_sockets`, or the peer has
removed it from there in its own `disconnect`. -/
theorem rendezvous_inv (progs : List (List Op)) (s : State) (k : Key) (h : Reachable progs s)
    (he : s.everOpen k = true) : s.open_ k = true ∨ s.remote k = true ∨ s.remRemoved k = true := by
  have b := baseInv_reachable progs s h
  rcases b.pub2 k he with ⟨t, ht⟩ | hr | hrr
  · left; exact b.pub1 t k ht
  · right; left; exact hr
  · right; right; exact hrr

/-- steps of threads other than `tid` -/
inductive OtherSteps (tid : Nat) : State → State → Prop
  | refl (s : State) : OtherSteps tid s s
  | step (s s' s'' : State) (t : Nat) (ht : t ≠ tid) (h1 : OtherSteps tid s s') (h2 : step s' t = some s'') :
      OtherSteps tid s s''

/-- only the owner of `rkey k'` (the peer, in its `disconnect`) removes `k'` from `_remote_sockets`, and
a step of another thread does not touch a thread's own state -/
theorem rendezvous_stable (progs : List (List Op)) (s s' : State) (tid : Nat) (k : Key)
    (h : Reachable progs s) (hown : k.1 = tid) (ho : OtherSteps tid s s') :
    Reachable progs s' ∧ s'.threads tid = s.threads tid ∧
    (s.remote (rkey k) = true → s'.remote (rkey k) = true) := by
  induction ho with
  | refl => exact ⟨h, rfl, id⟩
  | step s' s'' t ht _ h2 ih =>
    obtain ⟨hr, hth, hrem⟩ := ih
    have hownt := (baseInv_reachable progs s' hr).own t
    refine ⟨Reachable.step s' s'' t hr h2, ?_, ?_⟩
    · rw [← hth]
      step_cases h2 s' t hpc <;> simp [Ne.symm ht]
    · intro h0
      have h1 := hrem h0
      step_cases h2 s' t hpc
      all_goals first
        | exact h1
        | (simp only [remote_setThread, upd]; split <;> first | rfl | exact h1)
        | (rename_i k0
           simp only [remote_setThread, upd]
           split
           · rename_i e
             exfalso
             rw [hpc] at hownt
             have e3 : rkey (rkey k) = k := by simp [rkey]
             have e5 : rkey (rkey k0) = k0 := by simp [rkey]
             have : k = k0 := by rw [← e3, e, e5]
             subst this
             exact ht ((hownt k rfl).symm.trans hown)
           · exact h1)

/-- `rendezvous`: thread `tid` is in `_wait_for_remote` for its key `k` (about to test
`remote_key in _open_sockets`); the peer has executed `open.add` at some time before (`everOpen`) and
`tid` itself has not disconnected that socket (`¬ remRemoved`).  Then — whichever side started first,
whatever the other threads do in between, also when the peer has already disconnected — `connect`
returns at this test or at the very next one (`remote_key in _remote_sockets`). -/
theorem rendezvous (progs : List (List Op)) (s s1 s2 : State) (tid : Nat) (k : Key)
    (h : Reachable progs s) (hpc : (s.threads tid).pc = .cWaitOpen k)
    (he : s.everOpen (rkey k) = true) (hnr : s.remRemoved (rkey k) = false)
    (h1 : step s tid = some s1) (ho : OtherSteps tid s1 s2) :
    (s1.threads tid).res = (s.threads tid).res ++ [.connected k] ∨
    ∃ s3, step s2 tid = some s3 ∧ (s3.threads tid).res = (s.threads tid).res ++ [.connected k] := by
  have hown : k.1 = tid := (baseInv_reachable progs s h).own tid k (by rw [hpc]; rfl)
  by_cases hopen : s.open_ (rkey k) = true
  · left
    unfold step at h1
    simp only [hpc, hopen, if_true, Option.some.injEq] at h1
    subst h1; simp
  · right
    have hrem : s.remote (rkey k) = true := by
      rcases rendezvous_inv progs s (rkey k) h he with h' | h' | h'
      · exact absurd h' hopen
      · exact h'
      · rw [hnr] at h'; cases h'
    unfold step at h1
    simp only [hpc, hopen, Bool.false_eq_true, if_false, Option.some.injEq] at h1
    have hr1 : Reachable progs s1 := Reachable.step s s1 tid h (by unfold step; simp only [hpc, hopen, Bool.false_eq_true, if_false, h1])
    obtain ⟨_, hth, hrem2⟩ := rendezvous_stable progs s1 s2 tid k hr1 hown ho
    have hrem1 : s1.remote (rkey k) = true := by subst h1; simpa using hrem
    have hpc2 : (s2.threads tid).pc = .cWaitRemote k := by rw [hth]; subst h1; simp
    have hres2 : (s2.threads tid).res = (s.threads tid).res := by rw [hth]; subst h1; simp
    have hs : step s2 tid = some (setThread s2 tid (advance tid (s2.threads tid) (.connected k))) := by
      unfold step; simp only [hpc2, hrem2 hrem1, if_true]
    exact ⟨_, hs, by simp [hres2]⟩

/-- after the fix of F20: a callback key that is visible in `_open_sockets` has its callback
registered (for keys that are only connected with callbacks and not disconnected). -/
theorem callback_registered_while_open (progs : List (List Op)) (s : State) (k : Key)
    (h : Reachable progs s) (hk : ∀ t, CbOnlyProg t k (progs.getD t [])) :
    s.open_ k = true → s.recvCbs k = true := by
  have : CbInv k s := by
    induction h with
    | init => exact cbInv_init k progs hk
    | step s s' tid _ hs ih => exact cbInv_step k s s' tid ih hs
  exact this.opn

/-- `callback_inv`: callback delivery sees exactly the sent sequence, nothing is ever queued for such a
key (the situation of F20 — a message in the queue that the callback never sees — is unreachable). -/
theorem callback_inv (progs : List (List Op)) (s : State) (k : Key)
    (h : Reachable progs s) (hk : ∀ t, CbOnlyProg t k (progs.getD t [])) :
    s.cbStore k = s.sent k ∧ s.delivered k = s.sent k ∧ s.msgs k = [] := by
  have : CbInv k s := by
    induction h with
    | init => exact cbInv_init k progs hk
    | step s s' tid _ hs ih => exact cbInv_step k s s' tid ih hs
  exact ⟨this.seq.1.symm, by rw [this.seq.2, this.seq.1], this.emp⟩

def lastState (s : State) (l : List (State × Bool)) : State := (l.getLast?.map (·.1)).getD s

/-! ### Keys of ANY history: callback and plain incarnations, disconnects, reconnects

For a key that alternates between callback and plain incarnations the GLOBAL identity
`sent = delivered ++ queue` is false of the code (`mixed_key_not_globally_fifo`): a message queued for an
incarnation that closed without receiving it stays in `_messages[key]`; a later CALLBACK incarnation never
sees it (its callback gets only what is sent from then on), a later PLAIN incarnation pops it first.
What is true for every program is the statement per delivery path (`queue_path_fifo`, `paths_partition`) plus
the fact that the path a message takes is the one of the incarnation that is open (`callback_matches_incarnation`,
`send_path_matches_incarnation`) — the last one is what a `disconnect` that forgets to unregister would break. -/

/-- the queue path of EVERY key under EVERY program: what was appended = what was popped ++ what is queued;
and the owner's `recv` results are exactly the popped sequence (exactly once, FIFO, across reconnects) -/
theorem queue_path_fifo (progs : List (List Op)) (s : State) (k : Key) (h : Reachable progs s) :
    s.queued k = s.popped k ++ s.msgs k ∧ gotOf k (s.threads k.1).res = s.popped k := by
  induction h with
  | init =>
    refine ⟨rfl, ?_⟩
    show gotOf k (startThread k.1 (progs.getD k.1 [])).res = []
    unfold startThread; split <;> rfl
  | step s s' tid hr hs ih =>
    exact queue_step k s s' tid (baseInv_reachable progs s hr).own ih.1 ih.2 hs

/-- every sent message went to exactly one of the two paths, each path keeps the sending order -/
theorem paths_partition (progs : List (List Op)) (s : State) (k : Key) (h : Reachable progs s) :
    Shuffle (s.queued k) (s.cbStore k) (s.sent k) := by
  induction h with
  | init => exact Shuffle.nil
  | step s s' tid _ hs ih => exact shuffle_step k s s' tid ih hs

/-- `callback_matches_incarnation`: for a key whose owner never connects it twice without a disconnect in
between (any number of incarnations, callback or plain in any order, disconnect at any time): whenever the
key is visible in `_open_sockets`, a recv callback is registered for it IF AND ONLY IF the incarnation that
published it uses callbacks. -/
theorem callback_matches_incarnation (progs : List (List Op)) (s : State) (k : Key) (h : Reachable progs s)
    (hk : LifeOk k.1 k false (progs.getD k.1 [])) :
    ModeInv k s ∧ (s.open_ k = true → s.recvCbs k = s.cbMode k) := by
  have : ModeInv k s := by
    induction h with
    | init => exact modeInv_init k progs hk
    | step s s' tid hr hs ih => exact modeInv_step k s s' tid (baseInv_reachable progs s hr).own ih hs
  exact ⟨this, this.mode⟩

/-- a `send` that looks up the callback while the receiving key is open takes the callback path exactly when
the open incarnation is a callback socket, and the queue path exactly when it is plain -/
theorem send_path_matches_incarnation (progs : List (List Op)) (s : State) (tid : Nat) (k0 : Key) (m : Msg)
    (more : List Nat)
    (h : Reachable progs s) (hk : LifeOk (rkey k0).1 (rkey k0) false (progs.getD (rkey k0).1 []))
    (hpc : (s.threads tid).pc = .sCb k0 m more) (hopen : s.open_ (rkey k0) = true) :
    ∃ s', step s tid = some s' ∧
      (s'.threads tid).pc = (if s.cbMode (rkey k0) then .sCall k0 m more else .sLock k0 m more) := by
  have hm := (callback_matches_incarnation progs s (rkey k0) h hk).2 hopen
  cases hc : s.cbMode (rkey k0) with
  | true =>
    rw [hc] at hm
    have hs : step s tid = some (setThread s tid (goto (s.threads tid) (.sCall k0 m more))) := by
      unfold step; simp only [hpc, hm, if_true]
    exact ⟨_, hs, by simp⟩
  | false =>
    rw [hc] at hm
    have hs : step s tid = some (setThread s tid (goto (s.threads tid) (.sLock k0 m more))) := by
      unfold step; simp only [hpc, hm, Bool.false_eq_true, if_false]
    exact ⟨_, hs, by simp⟩

def mixedProgs : List (List Op) :=
  [[.connect 1 0 false, .send 1 0 1 [], .send 1 0 2 []],
   [.connect 0 0 false, .disconnect 0 0, .connect 0 0 true]]

/-- the global identity fails for a key that is first plain, then (after a disconnect) a callback socket:
m1 was queued for the plain incarnation, which closed without receiving it; m2 reaches the callback of the
second incarnation; `sent = [1, 2]`, `delivered = [2]`, queue `[1]`.  (Lock-step checked on the real hub.) -/
theorem mixed_key_not_globally_fifo :
    let run := runSched (init mixedProgs)
      [0, 0, 1, 1, 1, 0, 0, 0, 0, 0, 1, 1, 1, 1, 1, 1, 1, 1, 1, 1, 1, 1, 1, 0, 0, 0]
    let s := lastState (init mixedProgs) run
    run.all (·.2) = true ∧ s.sent (1, 0, 0) = [1, 2] ∧ s.delivered (1, 0, 0) = [2] ∧ s.msgs (1, 0, 0) = [1] ∧
    s.cbStore (1, 0, 0) = [2] ∧ s.sent (1, 0, 0) ≠ s.delivered (1, 0, 0) ++ s.msgs (1, 0, 0) := by decide

/-- these programs satisfy the hypothesis of `callback_matches_incarnation` for the alternating key -/
example : LifeOk 1 (1, 0, 0) false (mixedProgs.getD 1 []) := by
  simp [mixedProgs, LifeOk]

/-! ### The socket layer (`ThreadSocket`) and the broadcast channel on top of the hub

`Model/ThreadSocket.lean`: every socket-level call is a short program of hub operations (`compile`) and a local
view of the hub outcome (`view`).  The theorems below are about programs written in socket-level operations
(`sprogs`), run on the hub transition system through `compileProg`, under every interleaving. -/

/-- `send_snapshots_value` (value-snapshot semantics, made explicit): the value a receiver gets is the value the
message had AT THE SEND ACTION, whatever the sender does to its message object afterwards.  In the model a socket-
level send carries the values (`sendStructured rn id h p` = `json.dumps` at call time, an immutable string) and no
step ever rewrites a queued or callback-stored value: a queue only grows at its tail, by exactly the value carried
by the sending operation's program counter, and shrinks at its head; a callback store only grows at its tail.
(That the real code takes this snapshot — and does not share one mutable object between sender, queue and
receiver — is what the `value_snapshot_histories` stream of the harness checks on the real sockets.) -/
theorem send_snapshots_value (k : Key) (s s' : State) (tid : Nat) (h : step s tid = some s') :
    (s'.msgs k = s.msgs k ∨ (∃ m more k0, (s.threads tid).pc = .sAppend k0 m more ∧ s'.msgs k = s.msgs k ++ [m]) ∨
      (∃ m, s.msgs k = m :: s'.msgs k)) ∧
    (s'.cbStore k = s.cbStore k ∨
      (∃ m more k0, (s.threads tid).pc = .sCall k0 m more ∧ s'.cbStore k = s.cbStore k ++ [m])) :=
  ⟨msgs_step_shape k s s' tid h, cbStore_step_shape k s s' tid h⟩

/-- `structured_roundtrip`: what `recv_structured` returns for a message produced by `send_structured` is that
message; `recv` returns a string as it was sent; and in every case the returned value determines the wire
(nothing is lost or altered by the (de)serialisation — a string that is no JSON message is reported as such) -/
theorem structured_roundtrip (k : Key) :
    (∀ h p, view (.got k (enc (.structured h p)) 1) = .gotStructured k h p) ∧
    (∀ w, view (.got k (enc (.str w)) 0) = .gotStr k w) ∧
    (∀ w tag, wireOfView (view (.got k w tag)) = some w) := by
  refine ⟨fun h p => rfl, fun w => rfl, ?_⟩
  intro w tag
  simp only [view]
  split
  · cases w <;> simp [dec, wireOfView]
  · rfl

theorem recvWires_eq_gotOf (k : Key) (rs : List Res) : recvWires k rs = gotOf k rs := by
  unfold recvWires gotOf
  congr 1
  funext r
  cases r <;> simp only [gotSel]
  rename_i k' w tag
  split
  · exact (structured_roundtrip k').2.2 w tag
  · rfl

/-- for EVERY key and program: the channel history is exactly what the sender's socket-level sends report -/
theorem sent_results (progs : List (List Op)) (s : State) (k : Key) (h : Reachable progs s) :
    s.sent (rkey k) = sentOf k (s.threads k.1).res := by
  induction h with
  | init =>
    show ([] : List Msg) = sentOf k (startThread k.1 (progs.getD k.1 [])).res
    unfold startThread; split <;> rfl
  | step s s' tid hr hs ih => exact sentres_step k s s' tid (baseInv_reachable progs s hr).own ih hs

theorem rkey_rkey (k : Key) : rkey (rkey k) = k := by simp [rkey]

/-- the hub program of a socket-level program registers no callback for `k` if the socket-level program
never opens `k` with `use_callbacks=True` -/
theorem compile_noCb (t : Nat) (k : Key) (sp : List SOp)
    (h : ∀ rn id, SOp.connect rn id true ∈ sp → (t, rn, id) ≠ k) : NoCbProg t k (compileProg sp) := by
  intro rn id hm
  unfold compileProg at hm
  obtain ⟨sop, hs, hc⟩ := List.mem_flatMap.mp hm
  cases sop with
  | connect rn' id' cb =>
    simp only [compile, List.mem_singleton, Op.connect.injEq] at hc
    obtain ⟨rfl, rfl, rfl⟩ := hc
    exact h rn id hs
  | brecv r rs id' b => cases b <;> simp [compile] at hc
  | _ => simp [compile] at hc

/-- `socket_exactly_once_fifo`: endpoints written in socket-level operations (plain and structured sends and
receives mixed, broadcast sends and polls included), any number of them, every interleaving.  For a key `k`
that is never opened with callbacks: the values returned so far by the receiving endpoint's receive calls on `k`
(in program order, each standing for its wire: `structured_roundtrip`), followed by what is still queued, are
exactly the wires of the peer's completed socket-level sends on that socket, in sending order.  The receive vocabulary is everything that ends in `_SocketHub.recv`: `recv`, `recv_silent`,
`recv_structured`, the blocking broadcast receive (poll) and the non-blocking one (one round). -/
theorem socket_exactly_once_fifo (sprogs : List (List SOp)) (s : State) (k : Key)
    (h : Reachable (sprogs.map compileProg) s)
    (hk : ∀ t rn id, SOp.connect rn id true ∈ sprogs.getD t [] → (t, rn, id) ≠ k) :
    recvWires k (s.threads k.1).res ++ s.msgs k = sentOf (rkey k) (s.threads (rkey k).1).res := by
  have hno : ∀ t, NoCbProg t k ((sprogs.map compileProg).getD t []) := by
    intro t
    have : (sprogs.map compileProg).getD t [] = compileProg (sprogs.getD t []) := by
      simp only [List.getD_eq_getElem?_getD, List.getElem?_map]
      cases sprogs[t]? <;> simp [compileProg]
    rw [this]
    exact compile_noCb t k _ (hk t)
  have h1 := exactly_once_fifo _ s k h hno
  have h2 := sent_results _ s (rkey k) h
  rw [rkey_rkey] at h2
  rw [recvWires_eq_gotOf, ← h1, h2]

/-- the same for keys of ANY history (callbacks, reconnects): the queue path alone -/
theorem socket_queue_path (sprogs : List (List SOp)) (s : State) (k : Key)
    (h : Reachable (sprogs.map compileProg) s) :
    recvWires k (s.threads k.1).res ++ s.msgs k = s.queued k := by
  have := queue_path_fifo _ s k h
  rw [recvWires_eq_gotOf, this.2, this.1]

/-- one remote of a (broadcast) send: the hand-over step appends the message exactly once to exactly that
remote's channel, records it in the sender's results, and goes on with the NEXT remote of the list (or completes
the operation when the list is exhausted) -/
theorem bsend_progress (s : State) (tid : Nat) (k : Key) (m : Msg) (more : List Nat)
    (hpc : (s.threads tid).pc = .sCall k m more ∨ (s.threads tid).pc = .sAppend k m more) :
    ∃ s', step s tid = some s' ∧
      s'.sent (rkey k) = s.sent (rkey k) ++ [m] ∧ (∀ k2, k2 ≠ rkey k → s'.sent k2 = s.sent k2) ∧
      (s'.threads tid).res = (s.threads tid).res ++ [.sent k m] ∧
      (∀ r rs, more = r :: rs → (s'.threads tid).pc = .sCheck (k.1, r, k.2.2) m rs) := by
  rcases hpc with hpc | hpc
  · cases more with
    | nil =>
      refine ⟨_, by unfold step; simp only [hpc]; rfl, ?_, ?_, ?_, ?_⟩
      · simp [upd]
      · intro k2 h2; simp [upd, h2]
      · simp
      · intro r rs h; cases h
    | cons r rs =>
      refine ⟨_, by unfold step; simp only [hpc]; rfl, ?_, ?_, ?_, ?_⟩
      · simp [upd]
      · intro k2 h2; simp [upd, h2]
      · simp
      · intro r' rs' h; injection h with h1 h2; subst h1; subst h2; simp
  · cases more with
    | nil =>
      refine ⟨_, by unfold step; simp only [hpc]; rfl, ?_, ?_, ?_, ?_⟩
      · simp [upd]
      · intro k2 h2; simp [upd, h2]
      · simp
      · intro r rs h; cases h
    | cons r rs =>
      refine ⟨_, by unfold step; simp only [hpc]; rfl, ?_, ?_, ?_, ?_⟩
      · simp [upd]
      · intro k2 h2; simp [upd, h2]
      · simp
      · intro r' rs' h; injection h with h1 h2; subst h1; subst h2; simp

/-- a broadcast stops at the first remote that is not connected: nothing is appended, the remaining remotes
are not served (ConnectionError propagates out of `BroadcastChannel.send`) -/
theorem bsend_abort (s : State) (tid : Nat) (k : Key) (m : Msg) (more : List Nat)
    (hpc : (s.threads tid).pc = .sCheck k m more) (hc : (s.open_ k && s.open_ (rkey k)) = false) :
    ∃ s', step s tid = some s' ∧ s'.sent = s.sent ∧ s'.msgs = s.msgs ∧
      (s'.threads tid).res = (s.threads tid).res ++ [.connErr k m] := by
  have hs : step s tid = some (setThread s tid (advance tid (s.threads tid) (.connErr k m))) := by
    unfold step; simp only [hpc, hc, Bool.false_eq_true, if_false]
  exact ⟨_, hs, rfl, rfl, by simp⟩

/-- `broadcast_delivers_each_once`, three endpoints, every one broadcasting to the other two and polling:
(kernel-decided run of the compiled socket-level programs) each remote's channel got the broadcast exactly
once, and what `recv` returned per sender is in that sender's sending order. The general statements are
`bsend_progress` (one append per remote, in list order), `sent_results` (the channel history IS the sender's
results) and `socket_exactly_once_fifo` per (receiver, sender) key — poll results included. -/
theorem broadcast_delivers_each_once :
    let sprogs : List (List SOp) :=
      [[.connect 1 0 false, .connect 2 0 false, .bsend 1 [2] 0 10, .bsend 1 [2] 0 11],
       [.connect 0 0 false, .connect 2 0 false, .brecv 0 [2] 0 true, .brecv 0 [2] 0 true],
       [.connect 0 0 false, .connect 1 0 false, .brecv 0 [1] 0 true, .bsend 0 [1] 0 20, .brecv 0 [1] 0 true]]
    let progs := sprogs.map compileProg
    let run := runSched (init progs) ((List.replicate 60 [0, 1, 2]).flatten)
    let s := lastState (init progs) run
    s.sent (1, 0, 0) = [10, 11] ∧ s.sent (2, 0, 0) = [10, 11] ∧ s.sent (0, 2, 0) = [20] ∧ s.sent (1, 2, 0) = [20] ∧
    recvWires (1, 0, 0) (s.threads 1).res = [10, 11] ∧ recvWires (2, 0, 0) (s.threads 2).res = [10, 11] := by
  decide

/-- `broadcast_recv_nonblocking_one_round` (the code after the fix of F48): a non-blocking broadcast receive is
ONE round of non-blocking receives over the remotes in list order.  On an empty socket it goes on with the next
remote of the list and, after the last one, reports emptiness without changing the shared state; on a socket
with a message it pops that message (`recv_nonblock_nonempty`, `recv_returns_head`: the head, exactly once). -/
theorem broadcast_recv_nonblocking_one_round (r : Nat) (rs : List Nat) (id : Nat) :
    compile (.brecv r rs id false) = [.recv r id (.pollOnce rs) 0] ∧
    (∀ (s : State) (tid : Nat) (k : Key) (tag r' : Nat) (rs' : List Nat),
      (s.threads tid).pc = .rLen k (.pollOnce (r' :: rs')) tag → s.msgs k = [] →
      step s tid = some (setThread s tid (goto (s.threads tid) (.rLock (k.1, r', k.2.2) (.pollOnce rs') tag)))) ∧
    (∀ (s : State) (tid : Nat) (k : Key) (tag : Nat),
      (s.threads tid).pc = .rLen k (.pollOnce []) tag → s.msgs k = [] →
      step s tid = some (setThread s tid (advance tid (s.threads tid) (.empty k)))) := by
  refine ⟨rfl, ?_, ?_⟩
  · intro s tid k tag r' rs' hpc hq
    unfold step; simp only [hpc, hq]
  · intro s tid k tag hpc hq
    unfold step; simp only [hpc, hq]

/-- a non-blocking broadcast receive finds the message of the SECOND remote although the first has none
(kernel-decided run; before the fix of F48 the call raised without looking at any socket) -/
example :
    let sprogs : List (List SOp) :=
      [[.connect 1 0 false, .connect 2 0 false, .brecv 1 [2] 0 false, .brecv 1 [2] 0 false],
       [.connect 0 0 false],
       [.connect 0 0 false, .send 0 0 9]]
    let progs := sprogs.map compileProg
    let run := runSched (init progs) ([2, 1, 0, 2, 1, 0, 2, 1, 0, 2, 1, 0, 2, 2, 2, 2, 2, 2] ++ List.replicate 30 0)
    let s := lastState (init progs) run
    ((s.threads 0).res.map view).filter (fun r => r ≠ .connected (0, 1, 0) ∧ r ≠ .connected (0, 2, 0)) =
      [.gotStr (0, 2, 0) 9, .empty (0, 2, 0)] := by decide

/-- mixed plain / structured traffic through the socket layer (kernel-decided run): the structured message comes
back as (header, payload), the string as a string, in sending order -/
example :
    let sprogs : List (List SOp) :=
      [[.connect 1 0 false, .sendStructured 1 0 7 8, .send 1 0 5, .sendStructured 1 0 1 2],
       [.connect 0 0 false, .recvStructured 0 0 true, .recv 0 0 true, .recv 0 0 true]]
    let progs := sprogs.map compileProg
    let run := runSched (init progs) ((List.replicate 30 [0, 1]).flatten)
    let s := lastState (init progs) run
    ((s.threads 1).res.map view).filter (fun r => (wireOfView r).isSome) =
      [.gotStructured (1, 0, 0) 7 8, .gotStr (1, 0, 0) 5, .gotStr (1, 0, 0) (.json 1 2)] := by decide

/-! ### The F20 schedule on the model of the fixed code, and non-vacuity -/

def f20Progs : List (List Op) :=
  [[.connect 1 0 false, .send 1 0 1 [], .send 1 0 2 []], [.connect 0 0 true]]

/-- the schedule shape of F20 (B starts connecting, A connects and sends m1, B goes on, A sends m2) -/
def f20Sched : List Nat := [1, 1, 1, 0, 0, 0, 0, 0, 0, 1, 1, 0, 0, 0]


/-- on the fixed code both messages reach the callback, in order, and nothing is queued -/
theorem f20_schedule_fixed :
    (lastState (init f20Progs) (runSched (init f20Progs) f20Sched)).cbStore (1, 0, 0) = [1, 2] ∧
    (lastState (init f20Progs) (runSched (init f20Progs) f20Sched)).msgs (1, 0, 0) = [] ∧
    ((runSched (init f20Progs) f20Sched).all (·.2)) = true := by decide

/-- the hypotheses of `chan_inv` / `callback_inv` are satisfiable by these programs, and the states
of the schedule are reachable with messages actually sent -/
example : (∀ t, CbOnlyProg t (1, 0, 0) (f20Progs.getD t [])) ∧ (∀ t, NoCbProg t (0, 1, 0) (f20Progs.getD t [])) := by
  constructor
  · intro t
    match t with
    | 0 => simp [f20Progs, CbOnlyProg]
    | 1 => simp [f20Progs, CbOnlyProg]
    | (n + 2) => simp [f20Progs, CbOnlyProg]
  · intro t
    match t with
    | 0 => simp [f20Progs, NoCbProg]
    | 1 => simp [f20Progs, NoCbProg]
    | (n + 2) => simp [f20Progs, NoCbProg]

/-- a plain exchange: A sends 7 then 8, B receives twice: B's results are [7, 8] in order -/
example :
    let progs : List (List Op) := [[.connect 1 0 false, .send 1 0 7 [], .send 1 0 8 []],
                                   [.connect 0 0 false, .recv 0 0 .blk 0, .recv 0 0 .nb 0]]
    let s := lastState (init progs) (runSched (init progs)
      [0, 0, 1, 1, 1, 0, 0, 0, 0, 0, 0, 0, 0, 0, 1, 1, 1, 1, 1, 1, 1, 1, 1, 1, 1])
    gotOf (1, 0, 0) (s.threads 1).res = [7, 8] ∧ s.sent (1, 0, 0) = [7, 8] := by decide

/-- a disconnect–reconnect history on a plain key (the plain-channel theorems are unconditional, so they
cover it): A connects, sends 7, disconnects, connects the same key again, sends 8; B receives [7, 8];
the hypotheses of `chan_inv`/`exactly_once_fifo` hold for these programs and every step is enabled -/
example :
    let progs : List (List Op) := [[.connect 1 0 false, .send 1 0 7 [], .disconnect 1 0, .connect 1 0 false, .send 1 0 8 []],
                                   [.connect 0 0 false, .recv 0 0 .blk 0, .recv 0 0 .blk 0]]
    let run := runSched (init progs)
      [0, 0, 0, 0, 1, 1, 1, 1, 1, 1, 0, 0, 0, 0, 0, 0, 0, 0, 0, 0, 0, 0, 0, 0, 0, 0, 0, 0, 0, 0,
       1, 1, 1, 1, 1, 1, 1, 1, 1, 1]
    let s := lastState (init progs) run
    gotOf (1, 0, 0) (s.threads 1).res = [7, 8] ∧ s.sent (1, 0, 0) = [7, 8] ∧ run.all (·.2) = true := by decide

example (t : Nat) : NoCbProg t (1, 0, 0)
    ([[Op.connect 1 0 false, .send 1 0 7 [], .disconnect 1 0, .connect 1 0 false, .send 1 0 8 []],
      [.connect 0 0 false, .recv 0 0 .blk 0, .recv 0 0 .blk 0]].getD t []) := by
  intro rn id h
  match t with
  | 0 => simp at h
  | 1 => simp at h
  | (n + 2) => simp at h

end NQ.C18
