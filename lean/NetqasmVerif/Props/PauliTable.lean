/-
Every row of the conjugation table of Model/Pauli is checked against the exact matrices:
`M† · P · M = ±(M†M) · P'` with `M` the (scaled) gate matrix.
-/
import NetqasmVerif.Model.Pauli
namespace NQ.PauliTable
open NQ

def allP : List P1 := [.I, .X, .Y, .Z]

def gateMat : GName → Option (M2 Cyc)
  | .x => some gX | .y => some gY | .z => some gZ
  | .h => some gHSqrt2 | .k => some gKSqrt2 | .s => some gS
  | _ => none

/-- row `(g, P)` is right: `M†PM = ±(M†M)P'` -/
def row1Ok (g : GName) (p : P1) : Bool :=
  match gateMat g, conj1 g p with
  | some m, some (s, p') =>
    M2.mul m.adj (M2.mul p.mat m) ==
      M2.smul (if s then -1 else 1) (M2.mul (M2.mul m.adj m) p'.mat)
  | _, _ => false

theorem conj1_table_ok :
    ([GName.x, .y, .z, .h, .k, .s].all fun g => allP.all fun p => row1Ok g p) = true := by
  decide +kernel

/-- the table is defined exactly on the gates it claims -/
theorem conj1_defined (g : GName) (p : P1) : (conj1 g p).isSome = (isClifford1 g || p == .I) := by
  cases g <;> cases p <;> rfl

def rowCnotOk (pc pt : P1) : Bool :=
  let r := conjCnot pc pt
  let cn := cnotMat 2 0 1
  matMul (matAdj cn) (matMul (kron2 pc.mat pt.mat) cn) ==
    matSmul (if r.1 then -1 else 1) (kron2 r.2.1.mat r.2.2.mat)

theorem conjCnot_table_ok : (allP.all fun pc => allP.all fun pt => rowCnotOk pc pt) = true := by
  decide +kernel

/-- conjugating twice by a Hermitian Clifford gate is the identity on Paulis (H² = K² = 1) -/
theorem hk_involutive :
    ([GName.h, .k, .x, .y, .z].all fun g => allP.all fun p =>
      match conj1 g p with
      | some (s, p') => (match conj1 g p' with | some (s', p'') => p'' == p && (xor s s' == false) | none => false)
      | none => false) = true := by decide

end NQ.PauliTable
