/-
C09 — SDK and controller agree on which virtual qubits exist.

Model: `Model/QubitMgr.lean` (SDK handles with mutable virtual ids, lowest-unused id choice, the NV
relocation with its peephole as coded after the `fix:` commits for F11/F13, EPR handle creation
(and release at the end of loop constructs, as coded after the fixes for F12/F29) on
both hardware configs, and the controller's unit module with K-type delivery).  A pending
subroutine is its list of allocation-relevant events; `run` executes them on the unit module and
returns `.error` exactly when an instruction addresses an unallocated / out-of-range virtual
qubit, a `qalloc` targets an allocated one, or a delivery can never be handled.

FULL STATEMENT (property C09): for every history `ops` of host operations (creation, gates,
in-place and destructive measurement, free, EPR keep / sequential / context on both roles,
flushes) that keeps at most `limit c` qubits alive (`maxq`, one fewer on NV), on generic and NV
configurations, with and without the NV transpiler:
  `(runOps c St.init ops).2.fatal = false ∧ Inv c (runOps c St.init ops).1`.
The code (after the `fix:` commits for F11, F13, F12, F29 and the NV context block) still violates
it in two ways (open findings, counter-examples proved below):
  F28 NV multi-pair keep asserts when an id in 1..n-1 is taken,
  F30 the NV transpiler's carbon–carbon gates use virtual qubit 0 even if it is not allocated.
`good` spells out exactly these two hypotheses besides the budget and "gates on live handles";
sequential keeps and context blocks (both roles, sequential or not, any number of pairs) are
inside the proved part: their loop bodies consume each pair, so the placeholders' ids are
released at the end of the construct (F12/F29 fixed) and on single-communication-qubit hardware
a context block handles its pairs in virtual qubit 0.
-/
import NetqasmVerif.Lemmas.QubitMgr
namespace NQ.C09
open NQ.QM

/-- after a flush: the SDK's active ids are exactly the controller's allocated virtual ids, and
no two live handles share an id -/
def Agree (st : St) : Prop :=
  (activeIds st.hs).Nodup ∧ ∀ v, v ∈ st.unit ↔ v ∈ activeIds st.hs

/-- meaning of "`run` succeeds": every `qalloc` hits a free address inside the unit module … -/
theorem step_alloc_ok {m : Nat} {u u' : List Nat} {v : Nat} (h : step m u (.alloc v) = .ok u') :
    v < m ∧ v ∉ u := by
  simp only [step] at h
  split at h
  · cases h
  · split at h
    · cases h
    · exact ⟨by omega, by assumption⟩

/-- … and every other instruction addresses an allocated virtual qubit -/
theorem step_use_ok {m : Nat} {u u' : List Nat} {v : Nat} (h : step m u (.use v) = .ok u') :
    v < m ∧ v ∈ u := by
  simp only [step, need] at h
  split at h
  · cases h
  · rename_i hn
    split at hn
    · cases hn
    · split at hn
      · exact ⟨by omega, by assumption⟩
      · cases hn

theorem step_free_ok {m : Nat} {u u' : List Nat} {v : Nat} (h : step m u (.free v) = .ok u') :
    v < m ∧ v ∈ u := by
  simp only [step, need] at h
  split at h
  · cases h
  · rename_i hn
    split at hn
    · cases hn
    · split at hn
      · exact ⟨by omega, by assumption⟩
      · cases hn

/-- the invariant holds initially -/
theorem inv_init (c : Cfg) : Inv c St.init := QM.inv_init c

/-- **agree_preserved** (partial: `good` excludes the open findings F28 and F30 only).
For histories of ANY length (induction over the history): no operation faults and the joint
invariant — pending events run fault-free from the controller's unit module and end in exactly
the SDK's active id set; ids pairwise distinct, inside the unit module, within the budget — is
preserved, for creation, gates, in-place/destructive measurement, free, keep, sequential keep
with post routine, context blocks (both roles), the min-fidelity retry forms of keep (any number
of too slow attempts before a successful one), flush and close.  Generic and NV configurations, with and without the transpiler. -/
theorem agree_preserved_partial (c : Cfg) (ops : List Op) (hg : good c St.init ops = true) :
    (runOps c St.init ops).2.fatal = false ∧ Inv c (runOps c St.init ops).1 :=
  let h := inv_runOps ops St.init (QM.inv_init c) hg
  ⟨h.2, h.1⟩

/-- one step of the induction, for an arbitrary reachable state -/
theorem agree_step_partial (c : Cfg) (st : St) (op : Op) (hi : Inv c st) (hok : opOk c st op = true) :
    Inv c (apply c st op).1 ∧ (apply c st op).2.fatal = false := inv_apply hi hok

/-- within a subroutine: the emitted instructions run without any allocation fault -/
theorem no_alloc_fault (c : Cfg) (st : St) (hi : Inv c st) :
    ∃ u, run c.maxq st.unit st.evs = .ok u := by
  obtain ⟨u, hu, _⟩ := hi.runs; exact ⟨u, hu⟩

/-- after every flush `Agree` holds (and the flush itself does not fault) -/
theorem agree_after_flush (c : Cfg) (st : St) (hi : Inv c st) :
    (flushSt c st).2 = .ok ∧ Agree (flushSt c st).1 := by
  obtain ⟨i1, i2, i3, _⟩ := inv_flush hi
  refine ⟨i2, i1.nodup, ?_⟩
  obtain ⟨u, hu, hm⟩ := i1.runs
  rw [i3] at hu
  simp only [run] at hu
  cases hu
  exact hm

/-- **id_reuse**: after `free()` or a destructive measurement the id is unused on the SDK side,
so the id choice hands out an id no larger than it — and exactly it as soon as all smaller ids
are in use. -/
theorem id_reuse_free (c : Cfg) (st : St) (h : Nat) (q : Handle) (hi : Inv c st)
    (hq : st.hs[h]? = some q) (hact : q.active = true) :
    q.id ∉ activeIds (apply c st (.free h)).1.hs ∧
    lowestUnused (activeIds (apply c st (.free h)).1.hs) ≤ q.id :=
  ⟨free_released hi hq hact, lowestUnused_le _ _ (free_released hi hq hact)⟩

theorem id_reuse_meas (c : Cfg) (st : St) (h : Nat) (q : Handle) (hi : Inv c st)
    (hq : st.hs[h]? = some q) (hact : q.active = true) :
    q.id ∉ activeIds (apply c st (.meas h false)).1.hs ∧
    lowestUnused (activeIds (apply c st (.meas h false)).1.hs) ≤ q.id :=
  ⟨meas_released hi hq hact, lowestUnused_le _ _ (meas_released hi hq hact)⟩

/-- the id handed out is the lowest unused one: `v` itself once everything below is taken -/
theorem id_choice (ids : List Nat) (v : Nat) (hv : v ∉ ids) (hb : ∀ w, w < v → w ∈ ids) :
    lowestUnused ids = v := by
  have h1 := lowestUnused_le ids v hv
  have h2 := lowestUnused_not_mem ids
  rcases Nat.lt_or_ge (lowestUnused ids) v with h | h
  · exact absurd (hb _ h) h2
  · omega

/-! ### non-vacuity: `good` histories exist on every configuration and exercise the NV
relocation (peephole and move), keep, gates, in-place and destructive measurement, free -/

example : good ⟨true, false, 5⟩ St.init
    [.new, .new, .meas 1 false, .flush, .new, .meas 2 true, .keep true 1, .gate2 0 3, .free 0,
     .flush, .new, .close] = true := by decide
example : good ⟨true, true, 3⟩ St.init
    [.new, .keep false 1, .gate2 0 1, .meas 0 false, .gate 1, .flush] = true := by decide
example : good ⟨false, false, 2⟩ St.init
    [.keep false 2, .free 0, .new, .meas 1 false, .new, .flush, .gate2 2 3, .flush] = true := by decide
example : good ⟨true, false, 5⟩ St.init
    [.keep true 3, .gate2 0 2, .meas 1 false, .flush, .keep false 2, .flush, .close] = true := by decide
/-- NV keep of three pairs: memory ids 2 and 1 are allocated, each pair arrives in id 0 and all
but the last are moved -/
example : ((runOps ⟨true, false, 5⟩ St.init [.keep true 3]).1.evs
    = [.alloc 2, .use 2, .alloc 1, .use 1, .deliver 0, .use2 0 2, .free 0, .deliver 0, .use2 0 1,
       .free 0, .deliver 0]) := by decide
/-- the peephole really fires in the first example: after `new; new; meas 1` on NV the
allocation of handle 0 has been re-addressed to id 2 -/
example : ((runOps ⟨true, false, 5⟩ St.init [.new, .new, .meas 1 false]).1.evs
    = [.alloc 0, .use 0, .alloc 1, .use 1, .alloc 2, .use 2, .use2 0 2, .free 0, .use 1, .free 1]) := by
  decide
example : ((runOps ⟨true, false, 5⟩ St.init [.new, .keep false 1]).1.evs
    = [.alloc 1, .use 1, .deliver 0]) := by decide

/-! ### min-fidelity retry loop (`min_fidelity_all_at_end`, `max_tries`) -/

/-- non-vacuity for the retry forms: plain and sequential, generic and NV (with a live qubit on
id 0 that is relocated once, before the loop), slow first attempts -/
example : good ⟨false, false, 5⟩ St.init
    [.new, .keepr true 2 1 3, .seqr true 2 ⟨1, .meas⟩ 2 3, .flush, .free 1, .new, .flush, .close] = true := by
  decide
example : good ⟨true, false, 5⟩ St.init
    [.keepr false 2 1 2, .flush, .new, .seqr true 3 ⟨0, .meas⟩ 1 2, .meas 1 false, .flush] = true := by decide
/-- NV, live qubit on id 0, first attempt too slow: the relocation (here through the peephole)
happens once, before the loop; NV, two pairs: each attempt allocates memory qubit 1 and the
clean-up frees both pairs -/
example : ((runOps ⟨true, false, 5⟩ St.init [.new, .keepr false 1 1 2]).1.evs
    = [.alloc 1, .use 1, .deliver 0, .free 0, .deliver 0]) := by decide
example : ((runOps ⟨true, false, 5⟩ St.init [.keepr false 2 1 2]).1.evs
    = [.alloc 1, .use 1, .deliver 0, .use2 0 1, .free 0, .deliver 0, .free 1, .free 0,
       .alloc 1, .use 1, .deliver 0, .use2 0 1, .free 0, .deliver 0]) := by decide

/-- why `good` asks for `fails < tries`: when every attempt is too slow the last clean-up frees
the pairs, yet the request has returned live handles — outside the statement (the request
failed), recorded here as a proved fact about the code -/
theorem retry_exhausted_witness :
    activeIds (runOps ⟨false, false, 5⟩ St.init [.keepr true 2 2 2, .flush]).1.hs = [0, 1] ∧
    (runOps ⟨false, false, 5⟩ St.init [.keepr true 2 2 2, .flush]).1.unit = [] := by decide

/-! ### loop bodies / post routines that keep the pair -/

/-- non-vacuity: a post routine that only applies gates (non-sequential request, two pairs, generic
hardware: two live handles with distinct ids), a context block whose body measures in place, a
sequential request of one pair kept alive on NV; afterwards a new qubit gets a fresh id -/
example : good ⟨false, false, 5⟩ St.init
    [.postk true 2 ⟨1, .none⟩, .ctx false 2 false ⟨0, .inplace⟩, .flush, .new, .gate2 0 4, .meas 1 false,
     .flush, .close] = true := by decide
example : (activeIds (runOps ⟨false, false, 5⟩ St.init
    [.postk true 2 ⟨1, .none⟩, .ctx false 2 false ⟨0, .inplace⟩, .flush, .new]).1.hs = [0, 1, 2, 3, 4]) ∧
    ((runOps ⟨false, false, 5⟩ St.init
    [.postk true 2 ⟨1, .none⟩, .ctx false 2 false ⟨0, .inplace⟩, .flush]).1.unit.length = 4) := by decide
example : good ⟨true, false, 4⟩ St.init
    [.new, .seq false 1 ⟨2, .none⟩, .ctx true 1 false ⟨0, .inplace⟩, .flush, .meas 1 false, .flush] = true := by
  decide
/-- all pairs in ONE id and a body that keeps them: only one pair can ever arrive (why `good` asks
for `n ≤ 1` there) -/
example : (runOps ⟨false, false, 5⟩ St.init [.seq false 2 ⟨0, .none⟩, .flush]).2 = .fault .blocked := by decide

/-! ### several connections alive in one process -/

/-- **connections_independent**: whatever the interleaving of the operations of two connections
(including one connection acting while a context block of the other is open), the joint state
is the pair of the states each connection reaches on its own operations alone -/
theorem connections_independent (cs : Cfg × Cfg) (h : List (Bool × Op)) (s : St × St) :
    runJ cs s h = (foldOps cs.1 s.1 (projOps false h), foldOps cs.2 s.2 (projOps true h)) :=
  runJ_proj cs h s

/-- hence the invariant holds for both connections under any interleaving -/
theorem agree_preserved_two_partial (cs : Cfg × Cfg) (h : List (Bool × Op))
    (h1 : good cs.1 St.init (projOps false h) = true) (h2 : good cs.2 St.init (projOps true h) = true) :
    Inv cs.1 (runJ cs (St.init, St.init) h).1 ∧ Inv cs.2 (runJ cs (St.init, St.init) h).2 := by
  rw [connections_independent]
  exact ⟨inv_foldOps _ _ (QM.inv_init _) h1, inv_foldOps _ _ (QM.inv_init _) h2⟩

example : good ⟨false, false, 5⟩ St.init (projOps false
    [(false, .new), (true, .ctx true 2 false ⟨1, .meas⟩), (false, .ctx false 2 false ⟨1, .meas⟩),
     (true, .flush), (false, .flush)]) = true := by decide

/-! ### counter-examples: the full statement is false for the code (open findings) -/

/-- F12 (fixed): two `create_context(number=3)` blocks on five qubits now run: after each block
and flush neither side holds an id -/
theorem f12_fixed_witness :
    let c : Cfg := ⟨false, false, 5⟩
    let blk : Op := .ctx false 3 false ⟨1, .meas⟩
    good c St.init [blk, .flush, blk, .flush] = true ∧
    activeIds (runOps c St.init [blk, .flush]).1.hs = [] ∧
    (runOps c St.init [blk, .flush, blk, .flush]).2 = .ok ∧
    (runOps c St.init [blk, .flush, blk, .flush]).1.unit = [] := by decide

/-- F29 (fixed): after a sequential keep whose post routine measures each pair no handle is
active, the id is handed out again, and a later NV relocation has nothing to move -/
theorem f29_fixed_witness :
    activeIds (runOps ⟨false, false, 2⟩ St.init [.seq false 2 ⟨0, .meas⟩, .flush]).1.hs = [] ∧
    good ⟨true, false, 5⟩ St.init
      [.seq false 3 ⟨0, .meas⟩, .flush, .new, .new, .meas 4 false, .flush] = true ∧
    (runOps ⟨true, false, 5⟩ St.init
      [.seq false 3 ⟨0, .meas⟩, .flush, .new, .new, .meas 4 false, .flush]).2 = .ok := by decide

/-- F28: NV, five qubits, one live qubit: `recv_keep(number=2)` trips the assertion in
`_create_ent_qubits` although 3 ≤ 4 qubits are needed -/
theorem f28_counterexample :
    (runOps ⟨true, false, 5⟩ St.init [.new, .keep true 2]).2 = .assertion := by decide

/-- F30: NV transpiler, ids 1 and 2 live, id 0 free: a cnot between them addresses virtual
qubit 0 -/
theorem f30_counterexample :
    (runOps ⟨true, true, 5⟩ St.init
      [.new, .new, .new, .meas 0 false, .gate2 1 2, .flush]).2 = .fault .notAlloc := by decide

/-- NV non-sequential context block with three pairs and a live qubit: the live qubit is
relocated from id 0 and every pair is handled in id 0 (fixed; used to block forever) -/
theorem nv_context_fixed_witness :
    good ⟨true, false, 5⟩ St.init [.new, .ctx false 3 false ⟨1, .meas⟩, .flush, .close] = true ∧
    (runOps ⟨true, false, 5⟩ St.init [.new, .ctx false 3 false ⟨1, .meas⟩, .flush]).1.unit = [1] ∧
    (runOps ⟨true, false, 5⟩ St.init [.new, .ctx false 3 false ⟨1, .meas⟩]).1.evs
      = [.alloc 1, .use 1, .deliver 0, .use 0, .use 0, .free 0, .deliver 0, .use 0, .use 0, .free 0,
         .deliver 0, .use 0, .use 0, .free 0] := by decide

end NQ.C09
