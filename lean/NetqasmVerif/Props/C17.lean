/-
C17 — Printed assembly parses back to the same instruction.

Model: `Model/Text.lean` — the printer (`_pretty_print`, operand `__str__`), the lexer
(`_create_subroutine`, `_parse_operand`, `_parse_value`, `parse_address`) and the
assembler (`_replace_constants`, `_build_subroutine`) of `netqasm/lang/parsing/text.py`.
-/
import NetqasmVerif.Lemmas.TextProgram
import NetqasmVerif.Lemmas.TextSourceLine
import NetqasmVerif.Props.TextObligations
import NetqasmVerif.Props.C01
namespace NQ.C17
open NQ NQ.Text

/-- **Token level, any table.** For every list of instructions whose rows satisfy the
decidable `rowTextOk` (mnemonic ↦ class through `GenericInstr` and the flavour's name map;
every immediate position exempt from constant replacement) and whose operands have the
constructors of their slots — any integer values, negative ones included, entries and
slices with register indices — assembling the printed tokens yields exactly the
instructions: no `set` is inserted, nothing is reordered, every mnemonic finds its class. -/
theorem parse_print_tokens (T : Table) (S : Syms) (exc : List (String × Nat)) (generic : List String)
    (hT : T.all (rowTextOk T exc generic) = true) (is : List Instr)
    (h : ∀ i ∈ is, ∃ row, rowOf T i.cls = some row ∧ kindsOk row.shape i.ops = true) :
    assemble T S exc (is.map (toksOf T)) = .ok is :=
  assemble_print T S exc is (fun i hi => by
    obtain ⟨row, hr, hk⟩ := h i hi
    exact printable_of_rowOk T exc generic hT i row hr hk)

/-- single instruction form of the statement: parsing the printed tokens yields `[i]` -/
theorem parse_print_tokens_one (T : Table) (S : Syms) (exc : List (String × Nat)) (generic : List String)
    (hT : T.all (rowTextOk T exc generic) = true) (i : Instr) (row : Row)
    (hr : rowOf T i.cls = some row) (hk : InRangeOps row.shape i.ops = true) :
    assemble T S exc [printToks row.mn i.ops] = .ok [i] := by
  have := parse_print_tokens T S exc generic hT [i] (fun j hj => by
    simp at hj; subst hj; exact ⟨row, hr, kindsOk_of_inRange _ _ hk⟩)
  simpa [toksOf, hr] using this

/-! Generated obligations: the three flavour tables of /repo -/
theorem vanilla_rows_ok : Gen.vanillaRows.all
    (rowTextOk Gen.vanillaRows Gen.replaceExceptions Gen.genericNames) = true := TextObl.vanilla_rows_ok
theorem nv_rows_ok : Gen.nvRows.all
    (rowTextOk Gen.nvRows Gen.replaceExceptions Gen.genericNames) = true := TextObl.nv_rows_ok
theorem reids_rows_ok : Gen.reidsRows.all
    (rowTextOk Gen.reidsRows Gen.replaceExceptions Gen.genericNames) = true := TextObl.reids_rows_ok

/-! ### Character level -/

/-- `int(str(v)) = v` through `is_number`/`int`: decimal printing and parsing of every
integer (induction on the number of digits), negative ones included -/
theorem int_str_roundtrip (v : Int) : parseConst (showInt v) = some v := parseConst_showInt v

/-- every operand form: `parse_operand(str(o))` is the token of `o` (`Rn`, integers,
`@a`, `@a[Rn]`, `@a[Rn:Rm]`) -/
theorem operand_roundtrip (S : Syms) (hS : symsOk S = true) (o : Operand)
    (hb : banksOk S.banks.length o = true) : parseOperand S (showOperand S o) = .ok (opTok o) :=
  parseOperand_show (sok_of S hS) o hb

/-- **`parse_print`, character level, any table.** If the symbols satisfy the decidable
`symsOk` and every row the decidable `rowTextOk`, then for every list of instructions of
the table with in-range operands (negative integers, entries, slices with register indices
of every bank) the printed text — one `str(instr)` per line — lexes and assembles back to
exactly these instructions. For one instruction: parsing `str(i)` yields `[i]`. -/
theorem parse_print (T : Table) (S : Syms) (generic : List String) (exc : List (String × Nat))
    (hS : symsOk S = true) (hT : T.all (rowTextOk T exc generic) = true) (is : List Instr)
    (h : ∀ i ∈ is, ∃ row, rowOf T i.cls = some row ∧ InRangeOps row.shape i.ops = true) :
    parseText T S generic exc (is.map (showLine T S)) = .ok is :=
  parseText_show T S generic exc hS hT is h

theorem syms_ok : symsOk Gen.syms = true := TextObl.syms_ok

/-- the property for the three flavours of /repo, no side condition -/
theorem vanilla_parse_print (is : List Instr)
    (h : ∀ i ∈ is, ∃ row, rowOf Gen.vanillaRows i.cls = some row ∧ InRangeOps row.shape i.ops = true) :
    parseText Gen.vanillaRows Gen.syms Gen.genericNames Gen.replaceExceptions
      (is.map (showLine Gen.vanillaRows Gen.syms)) = .ok is :=
  parse_print _ _ _ _ syms_ok vanilla_rows_ok is h

theorem nv_parse_print (is : List Instr)
    (h : ∀ i ∈ is, ∃ row, rowOf Gen.nvRows i.cls = some row ∧ InRangeOps row.shape i.ops = true) :
    parseText Gen.nvRows Gen.syms Gen.genericNames Gen.replaceExceptions
      (is.map (showLine Gen.nvRows Gen.syms)) = .ok is :=
  parse_print _ _ _ _ syms_ok nv_rows_ok is h

theorem reids_parse_print (is : List Instr)
    (h : ∀ i ∈ is, ∃ row, rowOf Gen.reidsRows i.cls = some row ∧ InRangeOps row.shape i.ops = true) :
    parseText Gen.reidsRows Gen.syms Gen.genericNames Gen.replaceExceptions
      (is.map (showLine Gen.reidsRows Gen.syms)) = .ok is :=
  parse_print _ _ _ _ syms_ok reids_rows_ok is h

/-! ### text → binary → text -/

theorem inRange_of_encodes (T : Table) : ∀ (is : List Instr) (bs : List Nat),
    encodeInstrs T is = some bs →
    ∀ i ∈ is, ∃ row, rowOf T i.cls = some row ∧ InRangeOps row.shape i.ops = true := by
  intro is
  induction is with
  | nil => intro _ _ i hi; cases hi
  | cons j js ih =>
    intro bs h i hi
    simp only [encodeInstrs] at h
    split at h
    · rename_i b bs' hb hbs'
      rcases List.mem_cons.1 hi with rfl | hm
      · unfold encodeInstr at hb
        split at hb
        · rename_i row hrow
          obtain ⟨body, hbody, _⟩ := encodeRow_some hb
          refine ⟨row, hrow, ?_⟩
          rw [← encodeOps_isSome, hbody]; rfl
        · cases hb
      · exact ih bs' hbs' i hm
    · cases h

/-- **Stability, any table without opcode clash on the instructions used.** Take the text
of a subroutine, parse it, encode it, decode the bytes and print again: the same text
comes out, and it parses to the same instructions again. -/
theorem text_binary_text (T : Table) (S : Syms) (generic : List String) (exc : List (String × Nat))
    (hS : symsOk S = true) (hT : T.all (rowTextOk T exc generic) = true) (s : Sub) (bs : List Nat)
    (henc : encodeSub T s = some bs)
    (hc : ∀ i ∈ s.instrs, ∀ row, rowOf T i.cls = some row →
      ∀ c ∈ opcodeClashes T, c.1 ≠ row.opcode) :
    parseText T S generic exc (s.instrs.map (showLine T S)) = .ok s.instrs ∧
    ∃ s', decodeSub T bs = some s' ∧
      s'.instrs.map (showLine T S) = s.instrs.map (showLine T S) ∧
      parseText T S generic exc (s'.instrs.map (showLine T S)) = .ok s.instrs := by
  have hin : ∀ i ∈ s.instrs, ∃ row, rowOf T i.cls = some row ∧ InRangeOps row.shape i.ops = true := by
    unfold encodeSub at henc
    split at henc
    · split at henc
      · rename_i body hb; exact inRange_of_encodes T _ body hb
      · cases henc
    · cases henc
  have hp := parse_print T S generic exc hS hT s.instrs hin
  exact ⟨hp, s, C01.subroutine_roundtrip T s bs henc hc, rfl, hp⟩

theorem nv_text_binary_text (s : Sub) (bs : List Nat) (henc : encodeSub Gen.nvRows s = some bs) :
    ∃ s', decodeSub Gen.nvRows bs = some s' ∧
      s'.instrs.map (showLine Gen.nvRows Gen.syms) = s.instrs.map (showLine Gen.nvRows Gen.syms) :=
  let ⟨_, s', h1, h2, _⟩ := text_binary_text _ Gen.syms _ _ syms_ok nv_rows_ok s bs henc
    (by intro i _ row _ c hc; rw [C01.nv_unique.1] at hc; cases hc)
  ⟨s', h1, h2⟩

theorem reids_text_binary_text (s : Sub) (bs : List Nat) (henc : encodeSub Gen.reidsRows s = some bs) :
    ∃ s', decodeSub Gen.reidsRows bs = some s' ∧
      s'.instrs.map (showLine Gen.reidsRows Gen.syms) = s.instrs.map (showLine Gen.reidsRows Gen.syms) :=
  let ⟨_, s', h1, h2, _⟩ := text_binary_text _ Gen.syms _ _ syms_ok reids_rows_ok s bs henc
    (by intro i _ row _ c hc; rw [C01.reids_unique.1] at hc; cases hc)
  ⟨s', h1, h2⟩

/-- Vanilla. Full statement: as `nv_text_binary_text` for `Gen.vanillaRows` — false on the
current tree because of the opcode clash F1 of C01 (see the counter-example below; printing
and parsing themselves are unconditional: `vanilla_parse_print`). Proved part: subroutines
avoiding the opcodes of the recorded clashes. -/
theorem vanilla_text_binary_text_partial (s : Sub) (bs : List Nat)
    (henc : encodeSub Gen.vanillaRows s = some bs)
    (hk : ∀ i ∈ s.instrs, ∀ row, rowOf Gen.vanillaRows i.cls = some row →
      ∀ k ∈ Gen.knownOpcodeClashes, k.2.1 ≠ row.opcode) :
    ∃ s', decodeSub Gen.vanillaRows bs = some s' ∧
      s'.instrs.map (showLine Gen.vanillaRows Gen.syms)
        = s.instrs.map (showLine Gen.vanillaRows Gen.syms) :=
  ⟨s, C01.vanilla_roundtrip_partial s bs henc hk, rfl⟩

/-- the counter-example (known finding F1): the text `meas_basis Q1 M2 3 4 5 6` parses,
encodes, and the bytes decode and print as `mov Q1 M2` in the vanilla flavour -/
theorem vanilla_text_binary_text_counterexample :
    let T := Gen.vanillaRows
    (match parseText T Gen.syms Gen.genericNames Gen.replaceExceptions
        ["meas_basis Q1 M2 3 4 5 6".toList] with
      | .ok [i] => ((encodeInstr T i).bind (decodeInstr T)).map
          (fun j => String.ofList (showLine T Gen.syms j))
      | _ => none) = some "mov Q1 M2" := by decide +kernel

/-! ### One lexer for printed lines (C17) and source lines (C03)

What the theorems of this file cover, precisely:
* `parse_print` — whole programs of PRINTED lines (`str(instr)`: mnemonic, registers, integers,
  `@a`, `@a[Rn]`, `@a[Rn:Rm]`), lexed by `parseLine` (split at single spaces) and assembled.
* `source_line_text_roundtrip` (below) — single SOURCE lines `mnemonic op₁ … opₙ` with every
  proto operand form of C03 (`Asm.POperand`: label operands, integer literals as index or slice
  bound, …): `parseLine` reads them back, and the faithful model of `group_by_word`
  (`AsmText.groupByWord`, the tokeniser of C03's model) cuts exactly the same words — so both
  properties rest on one lexer (`tokeniser_bridge`) and one operand parser
  (`Text.parseOperand`; `C03.source_operand_text_roundtrip` is the operand-level instance).
* Not covered by a theorem here (covered by C03's theorems `macros_tokenwise` etc. or by C03's
  differential streams only): label-definition lines `L:`, `instr(args)` argument brackets,
  macro substitution, comments, blank lines, the preamble, templates `{x}`. The model's
  `parseLine` answers `unsupported` on the first three and `parseLines` on comments/preamble;
  the malformed stream of checks/c17.py skips such inputs. -/

/-- on a line without an opening argument bracket, `group_by_word(line, brackets)` is the split
at single spaces of the stripped line that `parseLine` uses -/
theorem tokeniser_bridge (ob cb : Char) (hob : ob ≠ ' ') (line : List Char)
    (h : ob ∉ AsmText.strip line) :
    AsmText.groupByWord ob cb line = some (splitOn ' ' (AsmText.strip line)) :=
  AsmText.groupByWord_eq_splitOn ob cb hob line h

theorem src_syms_ok : srcSymsOk Gen.syms = true := by decide +kernel

/-- printed lines through C03's tokeniser: mnemonic and printed operands, no argument list -/
theorem printed_line_tokenises (T : Table) (i : Instr) (row : Row)
    (hT : T.all (rowTextOk T Gen.replaceExceptions Gen.genericNames) = true)
    (hr : rowOf T i.cls = some row) (hk : InRangeOps row.shape i.ops = true) (cb : Char) :
    AsmText.groupByWord Gen.syms.argOpen cb (showLine T Gen.syms i)
      = some (row.mn.toList :: i.ops.map (showOperand Gen.syms)) ∧
    AsmText.splitOfBracket Gen.syms.argOpen cb row.mn.toList = some (row.mn.toList, []) := by
  have hS := sok_of Gen.syms syms_ok
  have hrow := List.all_eq_true.1 hT row (rowOf_some hr).1
  simp only [rowTextOk, Bool.and_eq_true, beq_iff_eq, Bool.not_eq_true', List.all_eq_true] at hrow
  have hline : showLine T Gen.syms i = showInstr Gen.syms row.mn i.ops := by simp [showLine, hr]
  rw [hline]
  exact printed_line_groupByWord hS (by decide +kernel) cb row.mn
    (fun hnil => by simp [hnil] at hrow) hrow.2 i.ops (banksOk_of_inRange _ hS.nbanks _ _ hk)

/-- **source lines** (shared with C03): for every `GenericInstr` mnemonic and every list of
source operands (`pOpOk`: existing register banks; label operands that are variable names
and not themselves numbers / register names; no templates), `parseLine` reads the line back as
that command and `group_by_word` cuts the same words. -/
theorem source_line_text_roundtrip (mn : String) (hne : mn.toList ≠ [])
    (hmn : ∀ c ∈ mn.toList, mnCharOk c = true) (hg : Gen.genericNames.contains mn = true)
    (ops : List Asm.POperand) (ho : ∀ o ∈ ops, pOpOk Gen.syms o) (cb : Char) :
    parseLine Gen.syms Gen.genericNames (mn.toList ++ showSrcOps Gen.syms ops)
      = .ok ⟨mn, ops.map tokOfP⟩ ∧
    AsmText.groupByWord Gen.syms.argOpen cb (mn.toList ++ showSrcOps Gen.syms ops)
      = some (mn.toList :: ops.map (showPOp Gen.syms)) :=
  parseLine_source (sok_of Gen.syms syms_ok) src_syms_ok _ mn hne hmn hg ops ho cb

-- non-vacuity: `store 7 @0[R1:3]`-like source operands and a label operand satisfy `pOpOk`
example : pOpOk Gen.syms (.slice 0 (.reg ⟨0, 1⟩) (.lit 3)) ∧ pOpOk Gen.syms (.lab "LOOP_EXIT") ∧
    Gen.genericNames.contains "beq" = true := by
  refine ⟨by simp only [pOpOk, valOfRI, valOk]; decide, ?_, by decide +kernel⟩
  simp only [pOpOk]; decide +kernel
example : String.ofList ("beq".toList ++ showSrcOps Gen.syms
    [.reg ⟨0, 0⟩, .lit (-1), .lab "LOOP_EXIT", .entry 2 (.lit 5)]) = "beq R0 -1 LOOP_EXIT @2[5]" := by
  decide +kernel

/-! ### Instructions that are modified after they have been printed

The property speaks about *the text printed for an instruction*: whatever happened to the
object before (printed by a logger, operands re-assigned in place, branch re-targeted by the
transpiler), the text printed now must parse to the instruction as it is now. -/

/-- printing (observing) does not change the instruction -/
theorem observe_id (i : Instr) : applyIUpd i .observe = i := rfl

/-- the printed line is a function of the current class and operand values: two histories that
end in the same instruction print the same text (no memo of an earlier print) -/
theorem print_depends_on_current_values (T : Table) (S : Syms) (i₁ i₂ : Instr) (us₁ us₂ : List IUpd)
    (h : applyIUpds i₁ us₁ = applyIUpds i₂ us₂) :
    showLine T S (applyIUpds i₁ us₁) = showLine T S (applyIUpds i₂ us₂) := by rw [h]

theorem applyIUpds_cls (i : Instr) (us : List IUpd) : (applyIUpds i us).cls = i.cls := by
  induction us generalizing i with
  | nil => rfl
  | cons u us ih =>
    simp only [applyIUpds, List.foldl_cons]
    have := ih (applyIUpd i u)
    simp only [applyIUpds] at this
    rw [this]; cases u <;> rfl

/-- **Sequence form of `parse_print`.** Take any instructions, each with its own history of
prints and in-place operand updates. If the operands they hold *now* are in range, the text
printed now — one line per instruction — parses back to exactly the current instructions. -/
theorem parse_print_after_update (T : Table) (S : Syms) (generic : List String) (exc : List (String × Nat))
    (hS : symsOk S = true) (hT : T.all (rowTextOk T exc generic) = true)
    (hs : List (Instr × List IUpd))
    (h : ∀ p ∈ hs, ∃ row, rowOf T p.1.cls = some row ∧
      InRangeOps row.shape (applyIUpds p.1 p.2).ops = true) :
    parseText T S generic exc (hs.map (fun p => showLine T S (applyIUpds p.1 p.2)))
      = .ok (hs.map (fun p => applyIUpds p.1 p.2)) := by
  have := parse_print T S generic exc hS hT (hs.map (fun p => applyIUpds p.1 p.2)) (by
    intro i hi
    obtain ⟨p, hp, rfl⟩ := List.mem_map.1 hi
    obtain ⟨row, hr, hin⟩ := h p hp
    exact ⟨row, by rw [applyIUpds_cls]; exact hr, hin⟩)
  simpa [List.map_map, Function.comp_def] using this

-- the sequence of seeded change C17_4 in the model: `jmp 3` is printed, re-targeted to -7 and
-- printed again: the text is `jmp -7` and parses to the current instruction
example : String.ofList (showLine Gen.vanillaRows Gen.syms
    (applyIUpds ⟨"core.JmpInstruction", [.imm 3]⟩ [IUpd.observe, IUpd.setOp 0 (.imm (-7)), IUpd.observe]))
    = "jmp -7" := by decide +kernel

/-! ### Flavours beyond the three stock ones

`Flavour.__init__` fills `id_map` / `name_map` with the core classes and then `update`s them
with the flavour-specific list: the LAST class with a mnemonic (opcode) wins. `nameMap` /
`idMap` (`lastBy`) model exactly that for any table, so every theorem above that is stated for
an arbitrary `T` covers user flavours. When a user flavour appends a class that re-uses a
mnemonic, the shadowed class can no longer be written in text; the statement for such tables
is per instruction: -/

/-- any table, including tables in which some rows are shadowed: the instructions whose own
row satisfies `rowTextOk` (its mnemonic resolves to it — it is the last row with that
mnemonic) print and parse back unchanged -/
theorem parse_print_rows (T : Table) (S : Syms) (generic : List String) (exc : List (String × Nat))
    (hS : symsOk S = true) (is : List Instr)
    (h : ∀ i ∈ is, ∃ row, rowOf T i.cls = some row ∧ rowTextOk T exc generic row = true ∧
      InRangeOps row.shape i.ops = true) :
    parseText T S generic exc (is.map (showLine T S)) = .ok is :=
  parseText_show_rows T S generic exc hS is h

/-- a user flavour `NVFlavour + [MyRotX]` where `MyRotX` re-uses mnemonic `rot_x` and opcode 27:
the text `rot_x Q0 1 2` and the opcode 27 both resolve to the appended class (last wins) -/
theorem custom_flavour_last_wins :
    let T := Gen.nvRows ++ [⟨"user.MyRotX", 27, "rot_x", [.reg, .imm8, .imm8]⟩]
    (nameMap T "rot_x").map (·.cls) = some "user.MyRotX" ∧ (idMap T 27).map (·.cls) = some "user.MyRotX" ∧
    rowTextOk T Gen.replaceExceptions Gen.genericNames ⟨"user.MyRotX", 27, "rot_x", [.reg, .imm8, .imm8]⟩ = true ∧
    (match parseText T Gen.syms Gen.genericNames Gen.replaceExceptions ["rot_x Q0 1 2".toList] with
      | .ok is => is == [⟨"user.MyRotX", [.reg ⟨2, 0⟩, .imm 1, .imm 2]⟩]
      | .error _ => false) = true := by decide +kernel

/-! ### Parser histories

In the model `parseText` is a function of the text (and the flavour table) alone, and its result is
a value: editing a parsed instruction (`applyIUpds`) cannot influence a later parse of the same or
of another text, nor another instruction of the same result.  The real parser must behave the same
(no memo of shared mutable operand objects); the parser-history stream of checks/c17.py ties this
to the code. -/

/-- after any in-place edits `us` of an instruction `i` obtained by parsing `ls`, parsing `ls`
again still gives the unedited result -/
theorem parse_unaffected_by_edits (T : Table) (S : Syms) (generic : List String) (exc : List (String × Nat))
    (ls : List (List Char)) (is : List Instr) (k : Nat) (us : List IUpd)
    (h : parseText T S generic exc ls = .ok is) :
    parseText T S generic exc ls = .ok is ∧
    (∀ i, is[k]? = some i → applyIUpds i us ≠ i →
      parseText T S generic exc ls ≠ .ok (is.set k (applyIUpds i us))) := by
  refine ⟨h, fun i hi hne hc => ?_⟩
  rw [h] at hc
  have := Except.ok.inj hc
  have h2 : (is.set k (applyIUpds i us))[k]? = some (applyIUpds i us) := by
    have hk : k < is.length := by
      cases Nat.lt_or_ge k is.length with
      | inl h' => exact h'
      | inr h' => simp [List.getElem?_eq_none h'] at hi
    simp [hk]
  rw [← this, hi] at h2
  exact hne (Option.some.inj h2).symm

/-! Non-vacuity -/

-- a concrete printed line, and its parse
example : String.ofList (showLine Gen.nvRows Gen.syms
    ⟨"core.WaitAllInstruction", [.slice (-2147483648) ⟨0, 1⟩ ⟨1, 15⟩]⟩)
    = "wait_all @-2147483648[R1:C15]" := by decide +kernel
example : (match parseText Gen.nvRows Gen.syms Gen.genericNames Gen.replaceExceptions
    ["wait_all @-2147483648[R1:C15]".toList, "crot_x Q0 Q1 255 0".toList, "set M3 -1".toList] with
    | .ok is => is == [⟨"core.WaitAllInstruction", [.slice (-2147483648) ⟨0, 1⟩ ⟨1, 15⟩]⟩,
           ⟨"nv.ControlledRotXInstruction", [.reg ⟨2, 0⟩, .reg ⟨2, 1⟩, .imm 255, .imm 0]⟩,
           ⟨"core.SetInstruction", [.reg ⟨3, 3⟩, .imm (-1)]⟩]
    | .error _ => false) = true := by decide +kernel
-- the hypothesis of `parse_print` is satisfiable for these instructions
example : ∃ row, rowOf Gen.nvRows "core.WaitAllInstruction" = some row ∧
    InRangeOps row.shape [.slice (-2147483648) ⟨0, 1⟩ ⟨1, 15⟩] = true :=
  ⟨⟨"core.WaitAllInstruction", 35, "wait_all", [.slice]⟩, by decide +kernel, by decide +kernel⟩
-- the exemption table matters: without it a printed immediate would become `set` + register
example : (match assemble Gen.vanillaRows Gen.syms [] [printToks "rot_x" [.reg ⟨2, 0⟩, .imm 3, .imm 4]] with
    | .ok is => is == [⟨"vanilla.RotXInstruction", [.reg ⟨2, 0⟩, .imm 3, .imm 4]⟩]
    | .error _ => false) = false := by decide +kernel

end NQ.C17
