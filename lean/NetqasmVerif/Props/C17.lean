/-
C17 — Printed assembly parses back to the same instruction.

Model: `Model/Text.lean` — the printer (`_pretty_print`, operand `__str__`), the lexer
(`_create_subroutine`, `_parse_operand`, `_parse_value`, `parse_address`) and the
assembler (`_replace_constants`, `_build_subroutine`) of `netqasm/lang/parsing/text.py`.
-/
import NetqasmVerif.Lemmas.Text
import NetqasmVerif.Props.TextObligations
import NetqasmVerif.Props.C01
namespace NQ.C17
open NQ NQ.Text

/-- **Token level, any table.** For every list of instructions whose rows satisfy the
decidable `rowTextOk` (mnemonic ↦ class through `GenericInstr` and the flavour's name map;
every immediate position exempt from constant replacement) and whose operands have the
constructors of their slots — any integer values, negative ones included, entries and
slices with register indices — assembling the printed tokens yields exactly the
instructions: no `set` is inserted, nothing is reordered, every mnemonic finds its class. -/
theorem parse_print_tokens (T : Table) (S : Syms) (exc : List (String × Nat)) (generic : List String)
    (hT : T.all (rowTextOk T exc generic) = true) (is : List Instr)
    (h : ∀ i ∈ is, ∃ row, rowOf T i.cls = some row ∧ kindsOk row.shape i.ops = true) :
    assemble T S exc (is.map (toksOf T)) = .ok is :=
  assemble_print T S exc is (fun i hi => by
    obtain ⟨row, hr, hk⟩ := h i hi
    exact printable_of_rowOk T exc generic hT i row hr hk)

/-- single instruction form of the statement: parsing the printed tokens yields `[i]` -/
theorem parse_print_tokens_one (T : Table) (S : Syms) (exc : List (String × Nat)) (generic : List String)
    (hT : T.all (rowTextOk T exc generic) = true) (i : Instr) (row : Row)
    (hr : rowOf T i.cls = some row) (hk : InRangeOps row.shape i.ops = true) :
    assemble T S exc [printToks row.mn i.ops] = .ok [i] := by
  have := parse_print_tokens T S exc generic hT [i] (fun j hj => by
    simp at hj; subst hj; exact ⟨row, hr, kindsOk_of_inRange _ _ hk⟩)
  simpa [toksOf, hr] using this

/-! Generated obligations: the three flavour tables of /repo -/
theorem vanilla_rows_ok : Gen.vanillaRows.all
    (rowTextOk Gen.vanillaRows Gen.replaceExceptions Gen.genericNames) = true := TextObl.vanilla_rows_ok
theorem nv_rows_ok : Gen.nvRows.all
    (rowTextOk Gen.nvRows Gen.replaceExceptions Gen.genericNames) = true := TextObl.nv_rows_ok
theorem reids_rows_ok : Gen.reidsRows.all
    (rowTextOk Gen.reidsRows Gen.replaceExceptions Gen.genericNames) = true := TextObl.reids_rows_ok

end NQ.C17
