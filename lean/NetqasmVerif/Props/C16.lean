/-
C16 — Operands the format cannot represent are rejected, never silently altered.

The model codec (`Model/Codec.lean`) is the *rejecting* variant: it is the code after
the fix of F2 (range checks in `netqasm/lang/encoding.py`); the correspondence stream
of `checks/c16.py` decides on every run that "the real code raises ⇔ the model returns
`none`" through the text assembler, the SDK and direct construction.
-/
import NetqasmVerif.Lemmas.Table
import NetqasmVerif.Props.C01
import NetqasmVerif.Model.Reject
namespace NQ.C16
open NQ

/-! The ranges of the statement, written out arithmetically (independent of the
boolean predicates the model codec uses). -/

/-- register index above 15 / negative, or a bank that is not one of R, C, Q, M -/
def BadReg (r : Reg) : Prop := r.idx < 0 ∨ 15 < r.idx ∨ 3 < r.bank

/-- outside the signed 32-bit range -/
def BadI32 (v : Int) : Prop := v < -2147483648 ∨ 2147483647 < v

/-- `BadOp k o`: operand `o` cannot be held by a slot of kind `k`. -/
def BadOp : FieldKind → Operand → Prop
  | .reg, .reg r => BadReg r
  | .imm8, .imm v => v < 0 ∨ 255 < v
  | .int32, .imm v => BadI32 v
  | .addr, .addr a => BadI32 a
  | .entry, .entry a i => BadI32 a ∨ BadReg i
  | .slice, .slice a s e => BadI32 a ∨ BadReg s ∨ BadReg e
  | _, _ => True   -- an operand of the wrong kind

theorem okReg_false_of_bad (r : Reg) (h : BadReg r) : okReg r = false := by
  obtain ⟨b, i⟩ := r
  simp only [BadReg] at h
  cases hr : okReg ⟨b, i⟩
  · rfl
  · simp [okReg] at hr; omega

theorem inI32_false_of_bad (v : Int) (h : BadI32 v) : inI32 v = false := by
  simp only [BadI32] at h
  cases hr : inI32 v
  · rfl
  · simp [inI32] at hr; omega

theorem inRangeOp_false_of_bad (k : FieldKind) (o : Operand) (h : BadOp k o) :
    InRangeOp k o = false := by
  cases k <;> cases o <;> simp only [BadOp] at h <;> simp only [InRangeOp]
  · exact okReg_false_of_bad _ h
  · cases hr : inU8 _
    · rfl
    · simp [inU8] at hr; omega
  · exact inI32_false_of_bad _ h
  · exact inI32_false_of_bad _ h
  · rcases h with h | h
    · simp [inI32_false_of_bad _ h]
    · simp [okReg_false_of_bad _ h]
  · rcases h with h | h | h
    · simp [inI32_false_of_bad _ h]
    · simp [okReg_false_of_bad _ h]
    · simp [okReg_false_of_bad _ h]

/-- the converse: whatever the model rejects *is* bad in the arithmetic sense, so the
model rejects nothing it could represent (the two formulations coincide). -/
theorem bad_of_inRangeOp_false (k : FieldKind) (o : Operand) (h : InRangeOp k o = false) :
    BadOp k o := by
  cases k <;> cases o <;> simp only [BadOp] <;> try trivial
  all_goals
    simp [InRangeOp, okReg, inU8, inI32] at h
    try simp only [BadReg, BadI32]
    omega

theorem inRangeOps_false_of_bad :
    ∀ (ks : List FieldKind) (os : List Operand) (j : Nat) (k : FieldKind) (o : Operand),
      ks[j]? = some k → os[j]? = some o → BadOp k o → InRangeOps ks os = false
  | [], _, j, _, _, hk, _, _ => by simp at hk
  | _ :: _, [], j, _, _, _, ho, _ => by simp at ho
  | k' :: ks, o' :: os, 0, k, o, hk, ho, hb => by
      simp at hk ho; subst hk ho
      simp [InRangeOps, inRangeOp_false_of_bad _ _ hb]
  | k' :: ks, o' :: os, j + 1, k, o, hk, ho, hb => by
      simp at hk ho
      simp [InRangeOps, inRangeOps_false_of_bad ks os j k o hk ho hb]

theorem encodeOps_none_of_false (ks : List FieldKind) (os : List Operand)
    (h : InRangeOps ks os = false) : encodeOps ks os = none := by
  have := encodeOps_isSome ks os
  rw [h] at this
  cases hh : encodeOps ks os
  · rfl
  · simp [hh] at this

/-- **Rejection, instruction level.** For every instruction class (row) of any table
and every operand list in which *some* position `j` holds an operand that its slot
cannot represent — register index ∉ 0..15 or bank ∉ 0..3, 8-bit immediate ∉ 0..255,
integer/address ∉ int32, or an operand of the wrong kind — encoding raises. No bound on
how far outside the value is. -/
theorem encode_rejects (row : Row) (ops : List Operand) (j : Nat) (k : FieldKind) (o : Operand)
    (hk : row.shape[j]? = some k) (ho : ops[j]? = some o) (hbad : BadOp k o) :
    encodeRow row ops = none := by
  unfold encodeRow
  rw [encodeOps_none_of_false _ _ (inRangeOps_false_of_bad _ _ j k o hk ho hbad)]

/-- a wrong number of operands is rejected as well -/
theorem encode_rejects_arity (row : Row) (ops : List Operand) (h : ops.length ≠ row.shape.length) :
    encodeRow row ops = none := by
  unfold encodeRow
  have : InRangeOps row.shape ops = false := by
    generalize row.shape = ks at h
    induction ks generalizing ops with
    | nil => cases ops <;> simp [InRangeOps] at h ⊢
    | cons k ks ih =>
      cases ops with
      | nil => simp [InRangeOps]
      | cons o os =>
        simp at h
        simp [InRangeOps, ih os h]
  rw [encodeOps_none_of_false _ _ this]

theorem encodeInstr_rejects (T : Table) (i : Instr) (row : Row) (hrow : rowOf T i.cls = some row)
    (j : Nat) (k : FieldKind) (o : Operand)
    (hk : row.shape[j]? = some k) (ho : i.ops[j]? = some o) (hbad : BadOp k o) :
    encodeInstr T i = none := by
  unfold encodeInstr
  rw [hrow]
  exact encode_rejects row i.ops j k o hk ho hbad

theorem encodeInstrs_none_of_mem (T : Table) (is : List Instr) (i : Instr) (hi : i ∈ is)
    (hn : encodeInstr T i = none) : encodeInstrs T is = none := by
  induction is with
  | nil => cases hi
  | cons i' is ih =>
    simp only [encodeInstrs]
    rcases List.mem_cons.1 hi with rfl | hm
    · rw [hn]
    · rw [ih hm]; cases encodeInstr T i' <;> rfl

/-- **Rejection, subroutine level.** A subroutine of any length that contains one
unencodable instruction anywhere, an app id above 65535 or a version byte above 255
has no bytes at all. -/
theorem encodeSub_rejects (T : Table) (s : Sub)
    (h : (∃ i ∈ s.instrs, encodeInstr T i = none) ∨ 65535 < s.app ∨ 255 < s.v0 ∨ 255 < s.v1) :
    encodeSub T s = none := by
  unfold encodeSub
  split
  · rename_i hr
    rcases h with ⟨i, hi, hn⟩ | h | h | h
    · rw [encodeInstrs_none_of_mem T _ i hi hn]
    all_goals omega
  · rfl

/-- **Never silently altered.** Over any table without opcode clash for the class of
`i`: if encoding produces bytes at all, then whatever these bytes decode to is `i`
itself. With `encode_rejects`: an instruction with an unrepresentable operand produces
no bytes, an instruction that produces bytes is reproduced exactly. -/
theorem encoded_never_decodes_differently (T : Table) (i i' : Instr) (bs : List Nat)
    (h : encodeInstr T i = some bs)
    (hc : ∀ row, rowOf T i.cls = some row → ∀ c ∈ opcodeClashes T, c.1 ≠ row.opcode)
    (hd : decodeInstr T bs = some i') : i' = i := by
  rw [C01.instr_roundtrip T i bs h hc] at hd
  exact (Option.some.inj hd).symm

theorem sub_never_decodes_differently (T : Table) (s s' : Sub) (bs : List Nat)
    (h : encodeSub T s = some bs)
    (hc : ∀ i ∈ s.instrs, ∀ row, rowOf T i.cls = some row →
      ∀ c ∈ opcodeClashes T, c.1 ≠ row.opcode)
    (hd : decodeSub T bs = some s') : s' = s := by
  rw [C01.subroutine_roundtrip T s bs h hc] at hd
  exact (Option.some.inj hd).symm

/-- NV flavour, unconditional -/
theorem nv_never_differs (s s' : Sub) (bs : List Nat) (h : encodeSub Gen.nvRows s = some bs)
    (hd : decodeSub Gen.nvRows bs = some s') : s' = s := by
  rw [C01.nv_roundtrip s bs h] at hd; exact (Option.some.inj hd).symm

/-- REIDS flavour, unconditional -/
theorem reids_never_differs (s s' : Sub) (bs : List Nat) (h : encodeSub Gen.reidsRows s = some bs)
    (hd : decodeSub Gen.reidsRows bs = some s') : s' = s := by
  rw [C01.reids_roundtrip s bs h] at hd; exact (Option.some.inj hd).symm

/-- Vanilla flavour. Full statement: `∀ s s' bs, encodeSub Gen.vanillaRows s = some bs →
decodeSub Gen.vanillaRows bs = some s' → s' = s` — false only through the opcode clash
F1 of C01 (`C01.vanilla_counterexample`, an *in-range* `meas_basis`), which is not an
out-of-range operand: rejection (`encode_rejects`) holds for vanilla without any side
condition. Proved part: subroutines avoiding the opcodes of the recorded clashes. -/
theorem vanilla_never_differs_partial (s s' : Sub) (bs : List Nat)
    (h : encodeSub Gen.vanillaRows s = some bs)
    (hk : ∀ i ∈ s.instrs, ∀ row, rowOf Gen.vanillaRows i.cls = some row →
      ∀ k ∈ Gen.knownOpcodeClashes, k.2.1 ≠ row.opcode)
    (hd : decodeSub Gen.vanillaRows bs = some s') : s' = s := by
  rw [C01.vanilla_roundtrip_partial s bs h hk] at hd; exact (Option.some.inj hd).symm

/-! Non-vacuity and the witnesses of F2 on the (now rejecting) model. -/

-- the F2 witnesses are rejected: `set R16 5`, `set R1 2147483648`, `rot_x Q0 300 4`, app id 70000
example : encodeInstr Gen.vanillaRows ⟨"core.SetInstruction", [.reg ⟨0, 16⟩, .imm 5]⟩ = none := by
  decide +kernel
example : encodeInstr Gen.vanillaRows ⟨"core.SetInstruction", [.reg ⟨0, 1⟩, .imm 2147483648]⟩ = none := by
  decide +kernel
example : encodeInstr Gen.vanillaRows
    ⟨"vanilla.RotXInstruction", [.reg ⟨2, 0⟩, .imm 300, .imm 4]⟩ = none := by decide +kernel
example : encodeSub Gen.vanillaRows ⟨0, 0, 70000, []⟩ = none := by decide +kernel
-- hypotheses of `encode_rejects` are satisfiable (slot 1 of `set` is an int32, 2^31 is bad)
example : (⟨"core.SetInstruction", 4, "set", [.reg, .int32]⟩ : Row).shape[1]? = some .int32
    ∧ BadOp .int32 (.imm 2147483648) := ⟨rfl, Or.inr (by decide)⟩
-- just inside the range encodes (so `encoded_never_decodes_differently` is not vacuous)
example : (encodeInstr Gen.nvRows ⟨"nv.RotXInstruction", [.reg ⟨2, 15⟩, .imm 255, .imm 0]⟩).isSome
    = true := by decide +kernel
example : (encodeSub Gen.vanillaRows ⟨255, 255, 65535,
    [⟨"core.SetInstruction", [.reg ⟨0, 15⟩, .imm 2147483647]⟩]⟩).isSome = true := by decide +kernel

/-! The SDK route: rotation numerators / denominators given to `rot_X/Y/Z`, with the
hardware-mode normalisation `n·2^(4−d)`, and the metadata as Python integers. -/

/-- Whatever `n`, `d` the SDK accepts: if the (normalised) numerator or the denominator
does not fit a byte, flushing raises — for every rotation class whose row has the shape
`reg imm8 imm8`, in any table. Covers `rot_X(n=300, d=4)` and, in hardware mode,
`rot_X(n=16, d=0)` (16·2⁴ = 256). -/
theorem sdk_rotation_rejects (T : Table) (hw : Bool) (cls : String) (q n d : Int) (row : Row)
    (hrow : rowOf T cls = some row) (hshape : row.shape = [.reg, .imm8, .imm8])
    (hbig : if hw then 255 < n * ((2 ^ (4 - d).toNat : Nat) : Int) else (255 < n ∨ 255 < d)) :
    encodeOptInstr T (sdkRot hw cls q n d) = none := by
  unfold sdkRot
  split
  · rfl
  · cases hw
    · simp only [Bool.false_eq_true, if_false] at hbig ⊢
      simp only [encodeOptInstr]
      rcases hbig with h | h
      · exact encodeInstr_rejects T _ row hrow 1 .imm8 (.imm n) (by rw [hshape]; rfl) rfl (Or.inr h)
      · exact encodeInstr_rejects T _ row hrow 2 .imm8 (.imm d) (by rw [hshape]; rfl) rfl (Or.inr h)
    · simp only [if_true] at hbig ⊢
      split
      · simp only [encodeOptInstr]
        exact encodeInstr_rejects T _ row hrow 1 .imm8 _ (by rw [hshape]; rfl) rfl (Or.inr hbig)
      · rfl

/-- app id / version numbers as arbitrary Python integers: anything outside
0..65535 / 0..255 is rejected -/
theorem encodeSubZ_rejects (T : Table) (v0 v1 app : Int) (is : List Instr)
    (h : app < 0 ∨ 65535 < app ∨ v0 < 0 ∨ 255 < v0 ∨ v1 < 0 ∨ 255 < v1) :
    encodeSubZ T v0 v1 app is = none := by
  unfold encodeSubZ
  split
  · rfl
  · apply encodeSub_rejects
    right
    simp only
    omega

-- the rows the SDK theorem is about exist with that shape
example : rowOf Gen.vanillaRows "vanilla.RotXInstruction" =
    some ⟨"vanilla.RotXInstruction", 27, "rot_x", [.reg, .imm8, .imm8]⟩ := by decide +kernel
-- hardware mode: n = 16, d = 0 normalises to 256 and is rejected; n = 15 encodes
example : encodeOptInstr Gen.nvRows (sdkRot true "nv.RotXInstruction" 0 16 0) = none := by
  decide +kernel
example : (encodeOptInstr Gen.nvRows (sdkRot true "nv.RotXInstruction" 0 15 0)).isSome = true := by
  decide +kernel

/-- measurement bases given to `measure(basis_rotations=(x1, y, x2))`: a rotation outside a
byte makes flushing raise (any table whose `meas_basis` row has the shape reg reg imm8×4) -/
theorem sdk_meas_basis_rejects (T : Table) (q m x1 y x2 : Int) (row : Row)
    (hrow : rowOf T "core.MeasBasisInstruction" = some row)
    (hshape : row.shape = [.reg, .reg, .imm8, .imm8, .imm8, .imm8])
    (hbad : (x1 < 0 ∨ 255 < x1) ∨ (y < 0 ∨ 255 < y) ∨ (x2 < 0 ∨ 255 < x2)) :
    encodeInstr T (sdkMeasBasis q m x1 y x2) = none := by
  rcases hbad with h | h | h
  · exact encodeInstr_rejects T _ row hrow 2 .imm8 (.imm x1) (by rw [hshape]; rfl) rfl h
  · exact encodeInstr_rejects T _ row hrow 3 .imm8 (.imm y) (by rw [hshape]; rfl) rfl h
  · exact encodeInstr_rejects T _ row hrow 4 .imm8 (.imm x2) (by rw [hshape]; rfl) rfl h

/-- breakpoint action / role values outside a byte are rejected -/
theorem sdk_breakpoint_rejects (T : Table) (a r : Int) (row : Row)
    (hrow : rowOf T "core.BreakpointInstruction" = some row) (hshape : row.shape = [.imm8, .imm8])
    (hbad : (a < 0 ∨ 255 < a) ∨ (r < 0 ∨ 255 < r)) :
    encodeInstr T (sdkBreakpoint a r) = none := by
  rcases hbad with h | h
  · exact encodeInstr_rejects T _ row hrow 0 .imm8 (.imm a) (by rw [hshape]; rfl) rfl h
  · exact encodeInstr_rejects T _ row hrow 1 .imm8 (.imm r) (by rw [hshape]; rfl) rfl h

example : rowOf Gen.nvRows "core.MeasBasisInstruction" =
    some ⟨"core.MeasBasisInstruction", 41, "meas_basis", [.reg, .reg, .imm8, .imm8, .imm8, .imm8]⟩ := by
  decide +kernel
example : rowOf Gen.vanillaRows "core.BreakpointInstruction" =
    some ⟨"core.BreakpointInstruction", 100, "breakpoint", [.imm8, .imm8]⟩ := by decide +kernel

/-! ### An instruction that was serialised once and is then modified in place -/

/-- Encoding is a function of the current operand values: whatever an instruction held (and
however often it was serialised) before, once slot `k` is assigned, in place, an operand it
cannot represent, encoding raises. -/
theorem encode_rejects_after_update (row : Row) (ops : List Operand) (k : Nat) (kind : FieldKind)
    (o : Operand) (hk : row.shape[k]? = some kind) (hlen : k < ops.length) (hbad : BadOp kind o) :
    encodeRow row (ops.set k o) = none :=
  encode_rejects row (ops.set k o) k kind o hk (by simp [hlen]) hbad

/-- the same for the metadata of a subroutine object: `sub.app_id = 70000` after `bytes(sub)` -/
theorem encodeSub_rejects_after_update (T : Table) (s : Sub) (app : Nat) (h : 65535 < app) :
    encodeSub T { s with app := app } = none :=
  encodeSub_rejects T _ (Or.inr (Or.inl h))

example : encodeRow ⟨"core.SetInstruction", 4, "set", [.reg, .int32]⟩
    (([.reg ⟨0, 1⟩, .imm 5] : List Operand).set 1 (.imm 2147483648)) = none := by decide +kernel

end NQ.C16
