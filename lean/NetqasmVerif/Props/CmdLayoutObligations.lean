/-
Kernel-decided obligations about the command-struct layouts generated from the ctypes
descriptors of /repo (`Gen/CmdLayouts.lean`).
-/
import NetqasmVerif.Model.CmdPack
import NetqasmVerif.Gen.CmdLayouts
import NetqasmVerif.Gen.InstrTable
namespace NQ.CmdObl
open NQ NQ.Cmd

def allRows : Table := Gen.vanillaRows ++ Gen.nvRows ++ Gen.reidsRows

/-- every instruction class: the struct it really uses has, leaf for leaf (bit range, signedness,
feeding operand component), the canonical sequential layout of the class's shape, 7 bytes -/
theorem cmd_layouts_canonical : Gen.cmdLayouts.all (fun L =>
    match rowOf allRows L.cls with
    | some row => isCanonical L row
    | none => false) = true := by decide +kernel

/-- every class of every flavour has a generated layout -/
theorem cmd_layouts_cover : allRows.all (fun r => Gen.cmdLayouts.any (fun L => L.cls == r.cls)) = true := by
  decide +kernel

end NQ.CmdObl
