/-
C05 — SDK control flow and classical data flow compile to equivalent subroutines.

FULL STATEMENT (`emit_correct`, not proved as a whole — see the list below):
  for every host program `H : List Top` over the constructs of `Model/Sdk.lean` (nested arbitrarily,
  flushes anywhere), every initial array contents and every measurement-outcome sequence, running the
  proto-subroutines `(Sdk.run H).subs` flush by flush under `ProtoExec` (`Lemmas/SdkSem.lean`: labels
  are no-ops, a branch to `L` continues after `L`, literals evaluate to themselves) gives the same
  gate trace, the same measurement placements, the same final arrays/registers and the same
  shared-memory view as the direct evaluation of `H`; and after each flush a handle reads shared memory
  at its (address, index) / register, which equals the controller value (`future_value_sound`).
  The step from proto-commands to assembled instructions is C03's theorem (`assemble_simulates`):
  the composition is stated as depending on it, it is not re-proved here.

WHAT IS PROVED (each for ALL operand values, ALL states, ARBITRARY bodies, any position in a subroutine):
  * `branch_taken_iff`      the negated branch falls into the body iff the condition holds (six conditions)
  * `if_skeleton`, `if_skeleton_skip`
                            the emitted `if` shape runs the body when the condition holds and is a no-op otherwise
  * `loop_skeleton`         the emitted counted-loop shape runs the body for i = start, start+step, … (k times)
                            until the index reaches stop; `loop_skeleton_zero` for start = stop
  * `loop_until_skeleton_max/_exit/_continue`, `break_at_most`
                            loop_until: exit at max_iterations; exit after an iteration iff value <= bound
                            (the F5 fix); otherwise cleanup, index + 1, next iteration
  * `add_future_correct`, `add_regfuture_correct`   add with and without modulus
  * `future_indexed_load`   `a[b[j]]`
  * `seq_correct`           sequencing of code segments
  * `future_value_sound`    `ret_arr` / `ret_reg` publish the controller value; a flush returns every array
                            and register created since the last flush (`flush_returns_all`)
  * `emit_correct_partial`  composition steps on the MODEL'S emitted code: the code `buildLoop` emits
                            (wherever it is placed, labels resolved) runs the body exactly for the index
                            sequence; the code `buildCondition` emits for register/literal operands runs the
                            body iff the condition holds
  * `f5_fixed`, `f5_witness_old`   evaluated witnesses: outcomes 1,1,0 -> 3 iterations (old shape: 10)

WHAT IS ONLY PARTIAL / NOT PROVED (source of truth for MANIFEST "partial"):
  * the induction over the whole `Host` AST that glues the steps above into `emit_correct`
    (needs: `HostSem`, the handle -> register relation, label freshness from the counters, and
    C14's `temps_disjoint` lifted to "a temporary is not read after its release");
  * `if`/`loop_until` with a Future operand (one extra `load` into a fresh temporary before the branch) is
    covered by `seq_correct` + `if_skeleton` but not packaged;
  * closed form of the array contents after the initialisation code (store list / all-equal loop):
    the loop is an instance of `loop_skeleton`, the closed form is not proved;
  * foreach/enumerate are `buildLoop 0 len 1` in the model (so `loop_skeleton` applies) — not packaged;
  * host-side findings F41 (handle objects cache their first value; registers are returned only by the
    creating subroutine) and F42 (registers of `new_register()` are clobbered by a later subroutine's
    scratch registers) are outside the label-level model; they are open known findings of the check.
-/
import NetqasmVerif.Lemmas.SdkSem
import NetqasmVerif.Lemmas.Sdk
set_option linter.unusedSimpArgs false
namespace NQ.C05
open NQ.Sdk

/-- the negated branch of an `if` falls through into the body iff the condition holds -/
theorem branch_taken_iff (p : List PCmd) (s : St) (n t : Nat) (c : Cond) (oa ob : POp) (l : Lbl)
    (va vb : Int) (ha : opVal s oa = some va) (hb : c.unary = false → opVal s ob = some vb)
    (hl : findLabel p l = some t) :
    exec p s n (negBranch c) (branchOps c oa ob l)
      = some (s, if condHolds c va vb then n + 1 else t + 1) :=
  Sdk.branch_taken_iff p s n t c oa ob l va vb ha hb hl

/-- **if_skeleton**: condition holds ⇒ the `if` code does what its body does -/
theorem if_skeleton {p : List PCmd} {n lb : Nat} {c : Cond} {oa ob : POp} {l : Lbl}
    (I : IfAt p n lb c oa ob l) (s s' : St) (va vb : Int)
    (ha : opVal s oa = some va) (hb : c.unary = false → opVal s ob = some vb)
    (hc : condHolds c va vb) (hbody : Runs p (n + 1) lb s s') : Runs p n (lb + 2) s s' :=
  if_runs I s s' va vb ha hb hc hbody

/-- condition fails ⇒ the `if` code changes nothing -/
theorem if_skeleton_skip {p : List PCmd} {n lb : Nat} {c : Cond} {oa ob : POp} {l : Lbl}
    (I : IfAt p n lb c oa ob l) (s : St) (va vb : Int)
    (ha : opVal s oa = some va) (hb : c.unary = false → opVal s ob = some vb)
    (hc : ¬ condHolds c va vb) : Runs p n (lb + 2) s s :=
  if_skips I s va vb ha hb hc

/-- **loop_skeleton**: the emitted loop runs the body for i = start, start+stp, … exactly `k` times,
`k` being the number of steps after which the index reaches `stop`; the body is arbitrary code that
preserves the loop register (`body i` = its effect when the index is `i`). -/
theorem loop_skeleton {p : List PCmd} {n lb : Nat} {r : Reg} {start stop stp : Int} {le lx : Lbl}
    (L : LoopAt p n lb r start stop stp le lx) (body : Int → St → St)
    (hbody : ∀ i s, s.regs r = some i → Runs p (n + 3) lb s (body i s) ∧ (body i s).regs r = some i)
    (k : Nat) (s : St) (hk : ReachesIn stp stop k start) :
    Runs p n (lb + 6) s (iterFrom body r stp k start (s.setReg r start)) := by
  unfold Runs
  have s0 : step p (s, n) = some (s.setReg r start, n + 1) := by
    rw [step_instr s L.h0]; simp [exec]
  have s1 : step p (s.setReg r start, n + 1) = some (s.setReg r start, n + 1 + 1) := step_label _ L.h1
  have e : n + (lb + 6) = n + 6 + lb := by omega
  rw [e]
  exact Steps.next s0 (Steps.next s1 (loop_from_head L body hbody k start _ (by simp) hk))

/-- start = stop: the body never runs, only the loop register is initialised -/
theorem loop_skeleton_zero {p : List PCmd} {n lb : Nat} {r : Reg} {start stp : Int} {le lx : Lbl}
    (L : LoopAt p n lb r start start stp le lx) (body : Int → St → St)
    (hbody : ∀ i s, s.regs r = some i → Runs p (n + 3) lb s (body i s) ∧ (body i s).regs r = some i)
    (s : St) : Runs p n (lb + 6) s (s.setReg r start) :=
  loop_skeleton L body hbody 0 s rfl

theorem break_at_most (v ev : Int) : brTaken2 .blt v (ev + 1) = some (decide (v ≤ ev)) :=
  Sdk.break_at_most v ev

/-- **loop_until_skeleton**: at the head with the iteration counter at `max_iterations`: exit -/
theorem loop_until_skeleton_max {p : List PCmd} {n lb lk lc : Nat} {r : Reg} {N : Int} {o : POp}
    {ev : Int} {le lx : Lbl} (U : UntilAt p n lb lk lc r N o ev le lx) (s : St)
    (hr : s.regs r = some N) : Steps p (s, n + 2) (s, n + 7 + lb + lk + lc) := until_max U s hr

/-- after an iteration whose exit value is at most the bound: exit (no cleanup, counter unchanged) -/
theorem loop_until_skeleton_exit {p : List PCmd} {n lb lk lc : Nat} {r : Reg} {N : Int} {o : POp}
    {ev : Int} {le lx : Lbl} (U : UntilAt p n lb lk lc r N o ev le lx) (s s1 s2 : St) (j v : Int)
    (hr : s.regs r = some j) (hj : j ≠ N)
    (hbody : Runs p (n + 3) lb s s1) (hload : Runs p (n + 3 + lb) lk s1 s2)
    (hv : opVal s2 o = some v) (hle : v ≤ ev) :
    Steps p (s, n + 2) (s2, n + 7 + lb + lk + lc) := until_exit U s s1 s2 j v hr hj hbody hload hv hle

/-- otherwise: cleanup, counter + 1, back to the head -/
theorem loop_until_skeleton_continue {p : List PCmd} {n lb lk lc : Nat} {r : Reg} {N : Int} {o : POp}
    {ev : Int} {le lx : Lbl} (U : UntilAt p n lb lk lc r N o ev le lx) (s s1 s2 s3 : St) (j v : Int)
    (hr : s.regs r = some j) (hj : j ≠ N)
    (hbody : Runs p (n + 3) lb s s1) (hload : Runs p (n + 3 + lb) lk s1 s2)
    (hv : opVal s2 o = some v) (hgt : ¬ v ≤ ev)
    (hclean : Runs p (n + 4 + lb + lk) lc s2 s3) (hr3 : s3.regs r = some j) :
    Steps p (s, n + 2) (s3.setReg r (j + 1), n + 2) :=
  until_continue U s s1 s2 s3 j v hr hj hbody hload hv hgt hclean hr3

/-- `Future.add(other, mod)`: the entry becomes `v + w` (mod `m` when given, `m ≥ 1`) -/
theorem add_future_correct {p : List PCmd} {n : Nat} (s : St) (t : Reg) (a i : Nat) (o : POp)
    (md : Option Int) (l : List (Option Int)) (v w : Int)
    (h0 : p[n]? = some (.instr .load [.reg t, .entryL a i]))
    (h1 : p[n + 1]? = some (addInstr t o md))
    (h2 : p[n + 2]? = some (.instr .store [.reg t, .entryL a i]))
    (ha : s.arrs a = some l) (hv : l[i]? = some (some v))
    (ho : opVal (s.setReg t v) o = some w) (hm : ∀ m, md = some m → 1 ≤ m) :
    ∃ s', Runs p n 3 s s' ∧ s'.arrs a = some (l.set i (some (addRes v w md))) ∧
      (∀ a', a' ≠ a → s'.arrs a' = s.arrs a') ∧ (∀ x, x ≠ t → s'.regs x = s.regs x) ∧ s'.trace = s.trace := by
  refine ⟨_, addF_runs s t a i o md l v w h0 h1 h2 ha hv ho hm, by simp, ?_, ?_, rfl⟩
  · intro a' h; simp [St.setArr, St.setReg, h]
  · intro x h; simp [St.setArr, St.setReg, h]

/-- `RegFuture.add(other, mod)` -/
theorem add_regfuture_correct {p : List PCmd} {n : Nat} (s : St) (r : Reg) (o : POp) (md : Option Int)
    (v w : Int) (h : p[n]? = some (addInstr r o md))
    (hr : s.regs r = some v) (ho : opVal s o = some w) (hm : ∀ m, md = some m → 1 ≤ m) :
    Runs p n 1 s (s.setReg r (addRes v w md)) := addR_runs s r o md v w h hr ho hm

theorem addRes_mod_range (v w m : Int) (hm : 1 ≤ m) : 0 ≤ addRes v w (some m) ∧ addRes v w (some m) < m := by
  simp only [addRes]
  exact ⟨Int.emod_nonneg _ (by omega), Int.emod_lt_of_pos _ (by omega)⟩

/-- future-indexed Future -/
theorem future_indexed_load {p : List PCmd} {n : Nat} (s : St) (t r : Reg) (a b j : Nat)
    (lb la : List (Option Int)) (k v : Int)
    (h0 : p[n]? = some (.instr .load [.reg t, .entryL b j]))
    (h1 : p[n + 1]? = some (.instr .load [.reg r, .entryR a t]))
    (hb : s.arrs b = some lb) (hk : lb[j]? = some (some k)) (hk0 : 0 ≤ k)
    (ha : s.arrs a = some la) (hv : la[k.toNat]? = some (some v)) :
    Runs p n 2 s ((s.setReg t k).setReg r v) :=
  future_indexed_load_runs s t r a b j lb la k v h0 h1 hb hk hk0 ha hv

theorem seq_correct {p : List PCmd} {n l1 l2 : Nat} {s s1 s2 : St}
    (h1 : Runs p n l1 s s1) (h2 : Runs p (n + l1) l2 s1 s2) : Runs p n (l1 + l2) s s2 := runs_seq h1 h2

/-- **future_value_sound** (controller side): after `ret_arr @a` / `ret_reg r` the shared memory holds
the controller's value at the handle's location … -/
theorem future_value_sound {p : List PCmd} {n : Nat} (s : St) :
    (∀ a l, p[n]? = some (.instr .retArr [.addr a]) → s.arrs a = some l →
      ∃ s', step p (s, n) = some (s', n + 1) ∧ s'.shmArrs a = s'.arrs a ∧ s'.arrs = s.arrs ∧ s'.regs = s.regs) ∧
    (∀ r v, p[n]? = some (.instr .retReg [.reg r]) → s.regs r = some v →
      ∃ s', step p (s, n) = some (s', n + 1) ∧ s'.shmRegs r = s'.regs r ∧ s'.arrs = s.arrs ∧ s'.regs = s.regs) :=
  ⟨fun a l h ha => ret_arr_publishes s a l h ha, fun r v h hr => ret_reg_publishes s r v h hr⟩

theorem buildLoop_rret (m : Mem) (s e d : Int) (r : Reg) (body : List PCmd) :
    (buildLoop m s e d r body).1.regsToReturn = m.regsToReturn := by
  unfold buildLoop; split <;> rfl

theorem initArray_rret {m m' : Mem} {pend out : List PCmd} {d : ArrDecl}
    (h : initArray m pend d = .ok (m', out)) : m'.regsToReturn = m.regsToReturn := by
  unfold initArray at h
  simp only at h
  split at h
  · cases h; rfl
  · split at h
    · split at h
      · cases h
      · split at h
        · cases h
        · rename_i m1 h1
          split at h
          · cases h
          · rename_i m3 h3
            cases h
            rw [(release_spec h3).2.2.2.1, buildLoop_rret, (activate_spec h1).2.2.2.1]
    · cases h; rfl

theorem initArrays_rret : ∀ (ds : List ArrDecl) (m m' : Mem) (pend out : List PCmd),
    initArrays m pend ds = .ok (m', out) → m'.regsToReturn = m.regsToReturn
  | [], m, m', pend, out, h => by simp [initArrays] at h; rw [← h.1]
  | d :: ds, m, m', pend, out, h => by
    simp only [initArrays] at h
    split at h
    · cases h
    · rename_i m1 p1 h1
      rw [initArrays_rret ds _ _ _ _ h, initArray_rret h1]

/-- … and the subroutine of a flush returns every register created since the last one
(`ret_arr` for the arrays likewise: `m1.arraysToReturn.map retArr` in `Sdk.flush`) -/
theorem flush_returns_all (m m' : Mem) (pend cmds : List PCmd) (h : flush m pend = .ok (m', some cmds)) :
    ∀ r ∈ m.regsToReturn, PCmd.instr .retReg [.reg r] ∈ cmds := by
  unfold flush at h
  split at h
  · cases h
  · rename_i m1 ini h1
    simp only at h
    split at h
    · cases h
    · cases h
      intro r hr
      have e := initArrays_rret _ _ _ _ _ h1
      simp only [List.mem_append, List.mem_map]
      right
      exact ⟨r, by rw [e]; exact hr, rfl⟩

/-! ### composition steps on the model's emitted code -/

/-- **emit_correct_partial.** (1) the code `_build_cmds_loop` (model: `buildLoop`) emits around ANY
non-empty body, placed anywhere in a subroutine whose labels resolve to it, runs the body for the
index sequence start, start+stp, … until stop; (2) the code `_build_cmds_condition` (model:
`buildCondition`) emits for operands that need no load runs the body iff the condition holds. -/
theorem emit_correct_partial :
    (∀ (m : Mem) (start stop stp : Int) (r : Reg) (B pre post : List PCmd), B ≠ [] →
      let code := (buildLoop m start stop stp r B).2
      let p := pre ++ code ++ post
      findLabel p (loopLabels m).1 = some (pre.length + 1) →
      findLabel p (loopLabels m).2 = some (pre.length + 5 + B.length) →
      ∀ (body : Int → St → St),
      (∀ i s, s.regs r = some i → Runs p (pre.length + 3) B.length s (body i s) ∧ (body i s).regs r = some i) →
      ∀ (k : Nat) (s : St), ReachesIn stp stop k start →
        Runs p pre.length (B.length + 6) s (iterFrom body r stp k start (s.setReg r start)))
    ∧
    (∀ (m : Mem) (c : Cond) (a b : Val) (oa ob : POp) (B pre post : List PCmd), B ≠ [] →
      condOperand (newLabel m 0).1 a = .ok ((newLabel m 0).1, [], oa, none) →
      condOperand (newLabel m 0).1 b = .ok ((newLabel m 0).1, [], ob, none) →
      ∃ m' code, buildCondition m c a b B = .ok (m', code) ∧
        let p := pre ++ code ++ post
        (findLabel p (newLabel m 0).2 = some (pre.length + 1 + B.length) →
          ∀ (s s' : St) (va vb : Int), opVal s oa = some va → (c.unary = false → opVal s ob = some vb) →
            (condHolds c va vb → Runs p (pre.length + 1) B.length s s' → Runs p pre.length (B.length + 2) s s') ∧
            (¬ condHolds c va vb → Runs p pre.length (B.length + 2) s s))) := by
  constructor
  · intro m start stop stp r B pre post hB code p hle hlx body hbody k s hk
    have hshape := buildLoop_shape m start stop stp r B hB
    have L := loopAt_of_layout pre post B r start stop stp (loopLabels m).1 (loopLabels m).2
      (by rw [← hshape]; exact hle) (by rw [← hshape]; exact hlx)
    rw [← hshape] at L
    exact loop_skeleton L body hbody k s hk
  · intro m c a b oa ob B pre post hB ha hb
    refine ⟨_, _, buildCondition_shape m c a b oa ob B hB ha hb, ?_⟩
    intro p hl s s' va vb hva hvb
    have I := ifAt_of_layout pre post B c oa ob (newLabel m 0).2 hl
    exact ⟨fun hc hr => if_skeleton I s s' va vb hva hvb hc hr, fun hc => if_skeleton_skip I s va vb hva hvb hc⟩

/-! ### F5: evaluated witnesses -/

def st0 (outs : List Int) : St :=
  { regs := fun _ => none, arrs := fun _ => none, shmRegs := fun _ => none, shmArrs := fun _ => none,
    trace := [], outcomes := outs }

/-- `with conn.loop_until(10) as loop: m = Qubit(conn).measure(); loop.set_exit_condition(ValueAtMostConstraint(m, 0))` -/
def f5Prog : List Top :=
  [.op (.loopUntil 10 (.qop [] .newFut) (.fut (.lit 0 0)) 0 .skip), .flush]

def firstSub (p : List Top) : List PCmd :=
  match (Sdk.run p).subs with
  | some cs :: _ => cs
  | _ => []

def countMeas (t : List Ev) : Nat :=
  (t.filter (fun e => match e with | .meas _ => true | _ => false)).length

/-- the shape emitted before the `fix:` commit: strict `blt value bound` -/
def oldBreak : PCmd → PCmd
  | .instr .blt [o, .lit v, l] => .instr .blt [o, .lit (v - 1), l]
  | c => c

/-- fixed code, outcomes 1,1,0: three iterations, the program ends past its last command -/
theorem f5_fixed :
    countMeas (runFuel (firstSub f5Prog) 1000 (st0 [1, 1, 0], 0)).1.trace = 3
    ∧ (runFuel (firstSub f5Prog) 1000 (st0 [1, 1, 0], 0)).2 = (firstSub f5Prog).length := by
  decide +kernel

/-- the old exit test on the same program and outcomes: all 10 iterations (F5) -/
theorem f5_witness_old :
    countMeas (runFuel ((firstSub f5Prog).map oldBreak) 1000 (st0 [1, 1, 0], 0)).1.trace = 10 := by
  decide +kernel

/-- non-vacuity of `loop_skeleton`'s index hypothesis: 0,2,4 reaches 6 in three steps; 0,2,4,… never reaches 5 -/
example : ReachesIn 2 6 3 0 := by simp [ReachesIn]
example : ¬ ReachesIn 2 5 3 0 := by simp [ReachesIn]

end NQ.C05
