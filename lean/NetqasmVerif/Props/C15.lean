/-
C15 — Host/controller messages survive serialisation.

Model: `Model/Msg.lean` (ctypes structs as bit-range layouts; type-byte dispatch;
SubroutineMessage; ReturnArrayMessage with OptionalInt entries). The model is of the
code *after* the fix of F18 (`OptionalInt.value` is a property over the renamed field
`_value`; before the fix the ctypes field shadowed the method and `None` came back as 0).
Tables, layouts and probes are generated from the live ctypes descriptors
(`Gen/MsgLayouts.lean`), their obligations decided in `Props/MsgObligations.lean`.
-/
import NetqasmVerif.Lemmas.MsgRoundtrip
import NetqasmVerif.Props.MsgObligations
import NetqasmVerif.Props.C01
namespace NQ.C15
open NQ NQ.Msg

/-- **One struct.** Any layout whose leaf fields are disjoint and inside `sizeof`
(`WFStruct`), any field values within the declared widths (signed or unsigned, bit-fields
included), any trailing bytes: reading back what was written gives the same values. -/
theorem struct_roundtrip (L : SLayout) (vs : List Int) (rest : List Nat)
    (hwf : WFStruct L = true) (hin : allInWidth L.fields vs = true) :
    unpackStruct L (packStruct L vs ++ rest) = some vs := Msg.struct_roundtrip L vs rest hwf hin

/-- **Fixed messages, generic.** Over any tables satisfying the decidable `WFTables`
(every `WFLayout`: fields disjoint, inside the size, type byte first; class names unique;
dispatch consistent), for either dispatch table `d`, every message class `M` reachable
through `d` and all field values within their declared widths:
`deserialize (serialize m) = m`, same class, same values. -/
theorem fixed_msg_roundtrip (G : Tables) (hG : WFTables G = true) (d : List (Nat × String))
    (hd : dispatchOk G d = true) (M : MLayout) (hM : M ∈ G.layouts)
    (hdisp : (M.ty, M.lay.cls) ∈ d) (vs : List Int)
    (hin : allInWidth M.lay.fields ((M.ty : Int) :: vs) = true) :
    ∃ bs, serialize G (.fixed M.lay.cls ((M.ty : Int) :: vs)) = some bs ∧
      deserializeWith G d bs = .ok (.fixed M.lay.cls ((M.ty : Int) :: vs)) :=
  fixed_roundtrip G (wf_of G hG) d hd M hM hdisp vs hin

/-- dispatch on the type byte is injective: two type bytes leading to the same class are
equal (and a type byte leads to at most one class, `lookup` being a function) -/
theorem dispatch_injective (G : Tables) (d : List (Nat × String)) (h : dispatchOk G d = true)
    (t t' : Nat) (cls : String) (h1 : lookup d t = some cls) (h2 : lookup d t' = some cls) :
    t = t' := Msg.dispatch_injective h h1 h2

/-- **The messages of /repo, host → controller** (register application, open EPR socket,
stop application, signal): every class in `MESSAGE_CLASSES`, all in-width field values. -/
theorem host_msg_roundtrip (M : MLayout) (hM : M ∈ Gen.msgTables.layouts)
    (hdisp : (M.ty, M.lay.cls) ∈ Gen.msgTables.hostDispatch) (vs : List Int)
    (hin : allInWidth M.lay.fields ((M.ty : Int) :: vs) = true) :
    ∃ bs, serialize Gen.msgTables (.fixed M.lay.cls ((M.ty : Int) :: vs)) = some bs ∧
      deserializeHost Gen.msgTables bs = .ok (.fixed M.lay.cls ((M.ty : Int) :: vs)) :=
  fixed_msg_roundtrip _ MsgObl.tables_wf _ (by
    have := MsgObl.dispatch_ok; simp only [Bool.and_eq_true] at this; exact this.1) M hM hdisp vs hin

/-- **controller → host** (done, error, returned register) -/
theorem return_msg_roundtrip (M : MLayout) (hM : M ∈ Gen.msgTables.layouts)
    (hdisp : (M.ty, M.lay.cls) ∈ Gen.msgTables.returnDispatch) (vs : List Int)
    (hin : allInWidth M.lay.fields ((M.ty : Int) :: vs) = true) :
    ∃ bs, serialize Gen.msgTables (.fixed M.lay.cls ((M.ty : Int) :: vs)) = some bs ∧
      deserializeReturn Gen.msgTables bs = .ok (.fixed M.lay.cls ((M.ty : Int) :: vs)) :=
  fixed_msg_roundtrip _ MsgObl.tables_wf _ (by
    have := MsgObl.dispatch_ok; simp only [Bool.and_eq_true] at this; exact this.2) M hM hdisp vs hin

/-- every fixed-layout class of the tables is reachable through exactly one of the two
dispatch tables (so the two theorems above cover every ctypes message) -/
theorem every_fixed_class_dispatched : Gen.msgTables.layouts.all (fun M =>
    (Gen.msgTables.hostDispatch.contains (M.ty, M.lay.cls)
      != Gen.msgTables.returnDispatch.contains (M.ty, M.lay.cls))) = true := by decide +kernel

/-- **SubroutineMessage**: type byte ++ subroutine bytes; with C01 the carried bytes
decode (with the flavour of the sender) to the subroutine that was sent. -/
theorem subroutine_msg_roundtrip (T : Table) (s : Sub) (bs : List Nat)
    (h : encodeSub T s = some bs)
    (hc : ∀ i ∈ s.instrs, ∀ row, rowOf T i.cls = some row →
      ∀ c ∈ opcodeClashes T, c.1 ≠ row.opcode) :
    ∃ raw, serialize Gen.msgTables (.subroutine bs) = some raw ∧
      deserializeHost Gen.msgTables raw = .ok (.subroutine bs) ∧ decodeSub T bs = some s := by
  obtain ⟨raw, h1, h2⟩ := Msg.subroutine_roundtrip Gen.msgTables (wf_of _ MsgObl.tables_wf) bs
  exact ⟨raw, h1, h2, C01.subroutine_roundtrip T s bs h hc⟩

/-- **ReturnArrayMessage, generic**: arrays of any length (that the length field can
hold) with any pattern of undefined entries; `none ↦ (nullTag, 0)`, `some v ↦ (intTag, v)`
and back. Induction over the value list. -/
theorem array_msg_roundtrip_generic (G : Tables) (hG : WFTables G = true) (fa fl fv : SField)
    (hfa : G.retArrHeader.fields[0]? = some fa) (hfl : G.retArrHeader.fields[1]? = some fl)
    (hfv : G.optionalInt.fields[1]? = some fv)
    (addr : Int) (vs : List (Option Int))
    (ha : inWidth fa addr = true) (hl : inWidth fl (vs.length : Int) = true)
    (hin : ∀ x, some x ∈ vs → inWidth fv x = true) :
    ∃ bs, serialize G (.retArr addr vs) = some bs ∧
      deserializeReturn G bs = .ok (.retArr addr vs) :=
  array_roundtrip G (wf_of G hG) fa fl fv hfa hfl hfv addr vs ha hl hin

theorem inWidth_i32 (name : String) (start : Nat) (v : Int)
    (h : -2147483648 ≤ v ∧ v < 2147483648) : inWidth ⟨name, start, 32, true⟩ v = true := by
  unfold inWidth
  norm_num
  omega

/-- **ReturnArrayMessage of /repo**: address and defined entries any 32-bit integers,
any number of entries below 2³¹ (the width of the `length` field), any pattern of
undefined entries. Undefined entries come back undefined. -/
theorem array_msg_roundtrip (addr : Int) (vs : List (Option Int))
    (ha : -2147483648 ≤ addr ∧ addr < 2147483648) (hl : vs.length < 2147483648)
    (hin : ∀ x, some x ∈ vs → -2147483648 ≤ x ∧ x < 2147483648) :
    ∃ bs, serialize Gen.msgTables (.retArr addr vs) = some bs ∧
      deserializeReturn Gen.msgTables bs = .ok (.retArr addr vs) := by
  have hA : Gen.msgTables.retArrHeader.fields[0]? = some ⟨"address.address", 0, 32, true⟩ := by
    decide +kernel
  have hL : Gen.msgTables.retArrHeader.fields[1]? = some ⟨"length", 32, 32, true⟩ := by
    decide +kernel
  have hV : Gen.msgTables.optionalInt.fields[1]?
      = some ⟨(Gen.msgTables.optionalInt.fields[1]!).name, 32, 32, true⟩ := by decide +kernel
  exact array_msg_roundtrip_generic _ MsgObl.tables_wf _ _ _ hA hL hV addr vs
    (inWidth_i32 _ _ _ ha) (inWidth_i32 _ _ _ ⟨by omega, by omega⟩)
    (fun x hx => inWidth_i32 _ _ _ (hin x hx))

/-- malformed input: an unknown type byte is an error, never a message -/
theorem unknown_type_rejected (G : Tables) (d : List (Nat × String)) (t : Nat) (rest : List Nat)
    (h : lookup d t = none) : deserializeWith G d (t :: rest) = .error .value := by
  simp [deserializeWith, h]

/-- malformed input: a buffer shorter than the struct is an error -/
theorem short_buffer_rejected (L : SLayout) (bs : List Nat) (h : bs.length < L.size) :
    unpackStruct L bs = none := by simp [unpackStruct, h]

/-! Generated obligations (re-exported for the audit) -/
theorem layouts_wf : Gen.msgTables.layouts.all WFLayout = true := MsgObl.layouts_wf
theorem tables_wf : WFTables Gen.msgTables = true := MsgObl.tables_wf
/-- the model reproduces every real walking-one / flipped-bit probe of every message class -/
theorem probes_match : Gen.msgEncProbes.all MsgObl.encProbeOk = true
    ∧ Gen.msgDecProbes.all MsgObl.decProbeOk = true
    ∧ Gen.structEncProbes.all (fun p => MsgObl.encProbeOk p && MsgObl.decProbeOk (p.1, p.2.2, p.2.1)) = true :=
  ⟨MsgObl.enc_probes_match, MsgObl.dec_probes_match, MsgObl.struct_probes_match⟩

/-! Non-vacuity, and the witness of F18 on the fixed model -/

-- F18's witness now round-trips: undefined entries stay undefined
example : (serialize Gen.msgTables (.retArr 5 [some 1, none, some 0, none, some (-5)])).map
    (deserializeReturn Gen.msgTables) = some (.ok (.retArr 5 [some 1, none, some 0, none, some (-5)])) := by
  decide +kernel
-- hypotheses of `host_msg_roundtrip` are satisfiable: OpenEPRSocketMessage with boundary values
example : ∃ M ∈ Gen.msgTables.layouts, (M.ty, M.lay.cls) ∈ Gen.msgTables.hostDispatch ∧
    M.lay.cls = "OpenEPRSocketMessage" ∧
    allInWidth M.lay.fields ((M.ty : Int) :: [4294967295, -2147483648, 2147483647, -1, 255]) = true :=
  ⟨Gen.msgTables.layouts[1]!, by decide +kernel, by decide +kernel, by decide +kernel, by decide +kernel⟩
-- and of `return_msg_roundtrip`: ReturnRegMessage (bit-fields) M15 = -7
example : ∃ M ∈ Gen.msgTables.layouts, (M.ty, M.lay.cls) ∈ Gen.msgTables.returnDispatch ∧
    M.lay.cls = "ReturnRegMessage" ∧
    allInWidth M.lay.fields ((M.ty : Int) :: [3, 15, 0, -7]) = true :=
  ⟨Gen.msgTables.layouts[6]!, by decide +kernel, by decide +kernel, by decide +kernel, by decide +kernel⟩
-- a value outside its width is NOT claimed (and indeed ctypes wraps it)
example : inWidth ⟨"max_qubits", 64, 8, false⟩ 300 = false := by decide

/-! ### Messages that are modified between serialisations

The property speaks about a message and *its own bytes*: whatever was done to the object
before (serialised once for the header length, fields assigned, values edited in place), the
bytes produced now must describe the field values it has now. -/

/-- observing a message (`bytes`, `len`) does not change it -/
theorem observe_id (m : Msg) : applyUpd m .observe = m := by cases m <;> rfl

/-- `serialize` is a function of the current field values: two histories that end in the
same field values produce the same bytes (no hidden state, no cache) -/
theorem serialize_depends_on_current_values (G : Tables) (m₁ m₂ : Msg) (us₁ us₂ : List Upd)
    (h : applyUpds m₁ us₁ = applyUpds m₂ us₂) :
    serialize G (applyUpds m₁ us₁) = serialize G (applyUpds m₂ us₂) := by rw [h]

theorem applyUpds_retArr (a : Int) (vs : List (Option Int)) (us : List Upd) :
    ∃ a' vs', applyUpds (.retArr a vs) us = .retArr a' vs' := by
  induction us generalizing a vs with
  | nil => exact ⟨a, vs, rfl⟩
  | cons u us ih =>
    simp only [applyUpds, List.foldl_cons]
    cases u <;> simp only [applyUpd] <;> exact ih _ _

theorem applyUpds_fixed (cls : String) (vals : List Int) (us : List Upd) :
    ∃ vals', applyUpds (.fixed cls vals) us = .fixed cls vals' := by
  induction us generalizing vals with
  | nil => exact ⟨vals, rfl⟩
  | cons u us ih =>
    simp only [applyUpds, List.foldl_cons]
    cases u <;> simp only [applyUpd] <;> exact ih _

/-- **Sequence form, returned arrays.** Start from any array message, apply any sequence of
observations (`bytes`/`len`), assignments of `address` / `values` and in-place edits of the
values list (item assignment, append, pop, insert, delete): the bytes produced afterwards
deserialise to the message as it is *now* — provided the current values are representable. -/
theorem roundtrip_after_update (a : Int) (vs : List (Option Int)) (us : List Upd)
    (a' : Int) (vs' : List (Option Int)) (hcur : applyUpds (.retArr a vs) us = .retArr a' vs')
    (ha : -2147483648 ≤ a' ∧ a' < 2147483648) (hl : vs'.length < 2147483648)
    (hin : ∀ x, some x ∈ vs' → -2147483648 ≤ x ∧ x < 2147483648) :
    ∃ bs, serialize Gen.msgTables (applyUpds (.retArr a vs) us) = some bs ∧
      deserializeReturn Gen.msgTables bs = .ok (.retArr a' vs') := by
  rw [hcur]; exact array_msg_roundtrip a' vs' ha hl hin

/-- **Sequence form, ctypes messages** (either direction `d`): after any sequence of
observations and field assignments, if the current leaf values are `ty :: vs'` within
their widths, the bytes deserialise to exactly these values. -/
theorem fixed_roundtrip_after_update (d : List (Nat × String))
    (hd : dispatchOk Gen.msgTables d = true) (M : MLayout) (hM : M ∈ Gen.msgTables.layouts)
    (hdisp : (M.ty, M.lay.cls) ∈ d) (vals : List Int) (us : List Upd) (vs' : List Int)
    (hcur : applyUpds (.fixed M.lay.cls vals) us = .fixed M.lay.cls ((M.ty : Int) :: vs'))
    (hin : allInWidth M.lay.fields ((M.ty : Int) :: vs') = true) :
    ∃ bs, serialize Gen.msgTables (applyUpds (.fixed M.lay.cls vals) us) = some bs ∧
      deserializeWith Gen.msgTables d bs = .ok (.fixed M.lay.cls ((M.ty : Int) :: vs')) := by
  rw [hcur]; exact fixed_msg_roundtrip _ MsgObl.tables_wf d hd M hM hdisp vs' hin

-- the sequence of seeded change C15_1 in the model: three undefined entries, `len(m)`, two
-- in-place assignments and an append; the bytes describe the current values
example : applyUpds (.retArr 7 [none, none, none])
      [Upd.observe, Upd.setItem 0 (some 1), Upd.setItem 2 (some 0), Upd.append none]
      = .retArr 7 [some 1, none, some 0, none] ∧
    (serialize Gen.msgTables (applyUpds (.retArr 7 [none, none, none])
      [Upd.observe, Upd.setItem 0 (some 1), Upd.setItem 2 (some 0), Upd.append none])).map
        (deserializeReturn Gen.msgTables)
      = some (.ok (.retArr 7 [some 1, none, some 0, none])) := by decide +kernel

/-! ### Decoded messages that are modified by their holder

In the model a decoded message is a value: it shares nothing with the decoder or with other
decoded messages, so editing it (`applyUpds`) cannot influence what any bytes decode to. The
real decoder must behave the same (no shared default list, no memoised result object); the
decode-side history stream of checks/c15.py ties this to the code. -/

/-- decoding is a function of the bytes alone: after any edits `us` of an earlier result `m` of
decoding `bs`, the same bytes still decode to `m` (not to the edited message), and any other
bytes decode to what they decode to -/
theorem decode_unaffected_by_edits (G : Tables) (d : List (Nat × String)) (bs bs' : List Nat) (m : Msg)
    (us : List Upd) (h : deserializeWith G d bs = .ok m) :
    deserializeWith G d bs = .ok m ∧
    (∀ r, deserializeWith G d bs' = r → deserializeWith G d bs' = r) ∧
    (applyUpds m us ≠ m → deserializeWith G d bs ≠ .ok (applyUpds m us)) := by
  refine ⟨h, fun _ hr => hr, fun hne hc => ?_⟩
  rw [h] at hc
  exact hne (Except.ok.inj hc).symm

-- the situation of seeded change C15_7 in the model: an empty array is decoded, the holder appends
-- to the result, the same bytes are decoded again: still the empty array
example : (serialize Gen.msgTables (.retArr 7 [])).map (deserializeReturn Gen.msgTables)
      = some (.ok (.retArr 7 [])) ∧
    applyUpds (.retArr 7 []) [Upd.append (some 0)] = .retArr 7 [some 0] := by decide +kernel

/-! ### The declared widths are pinned

"All field values in their declared widths" refers to the pinned formats of `Model/MsgSpec.lean`
(transcribed once from the pinned tree). The live layouts are kernel-decided to equal them, so the
round-trip theorems above hold for the pinned widths; a field that /repo silently narrows (e.g. a
32-bit `app_id` re-declared with a 16-bit type) breaks `msg_layouts_pinned`, and the oracle drives
the boundary values of the pinned widths (65536, 2^32 − 1, …) through the real code. -/

theorem msg_layouts_pinned : Gen.msgTables.layouts = MsgSpec.tables.layouts
    ∧ Gen.msgTables.hostDispatch = MsgSpec.tables.hostDispatch
    ∧ Gen.msgTables.returnDispatch = MsgSpec.tables.returnDispatch
    ∧ Gen.msgTables.retArrHeader = MsgSpec.tables.retArrHeader
    ∧ Gen.msgTables.optionalInt = MsgSpec.tables.optionalInt := by
  have h := MsgObl.msg_layouts_pinned
  simp only [Bool.and_eq_true, beq_iff_eq] at h
  exact ⟨h.1.1.1.1.1.1.1.1.1.1, h.1.1.1.1.1.1.1.1.1.2, h.1.1.1.1.1.1.1.1.2, h.1.1.1.2, h.1.1.2⟩

/-- the round trip stated over the PINNED host formats: every pinned class, all values within the
pinned widths (in particular `app_id` up to 2^32 − 1) -/
theorem pinned_host_msg_roundtrip (M : MLayout) (hM : M ∈ MsgSpec.tables.layouts)
    (hdisp : (M.ty, M.lay.cls) ∈ MsgSpec.tables.hostDispatch) (vs : List Int)
    (hin : allInWidth M.lay.fields ((M.ty : Int) :: vs) = true) :
    ∃ bs, serialize Gen.msgTables (.fixed M.lay.cls ((M.ty : Int) :: vs)) = some bs ∧
      deserializeHost Gen.msgTables bs = .ok (.fixed M.lay.cls ((M.ty : Int) :: vs)) := by
  obtain ⟨h1, h2, _⟩ := msg_layouts_pinned
  exact host_msg_roundtrip M (h1 ▸ hM) (h2 ▸ hdisp) vs hin

example : allInWidth [⟨"type", 0, 8, false⟩, ⟨"app_id", 32, 32, false⟩] [3, 4294967295] = true := by decide

end NQ.C15
