/-
C05 ∘ C03 ∘ C04, second part: the chain of `Props/C05Chain.lean` with its static hypotheses derived from
the builder model, `QSafe` proved for the builder's one-qubit vocabulary, and the flushes chained on ONE
executor state.

* `emit_correct_end_to_end'` — `emit_correct_end_to_end` with `NameInj`, `RegsInRange`, `LabelTargets`
  discharged (`Lemmas/SdkEmitted.lean`: they hold for every subroutine `Sdk.run` emits) and `QSafe`
  replaced by "the virtual qubit 0 is free in a non-empty unit module" (`Bridge.UnitOK`,
  `Lemmas/SdkQSafe.lean`).
* `scratch_dead_across_flushes` — the missing link between two flushes.  After flush k the executor agrees
  with ProtoExec outside the scratch registers of flush k.  The invariant that `emit_correct` carries from
  flush to flush (`Sdk.SegInv`) only reads the registers of LIVE handles, which are ACTIVE in the memory
  manager (this is `balanced` / `temps_disjoint_code` inside `SegInv`); active registers are passed to the
  assembler as `reserved_registers` (fix of F42) and a reserved register is never a scratch register
  (C03 `IsScratch` excludes `currentRegisters ++ reserved`).  Hence the ProtoExec state may be REPLACED by
  the one that carries the executor's registers exactly — the invariant still holds, and the next flush
  starts from exact agreement.
* `program_on_exec` — all assembled subroutines, run in order by `Exec.run` on one controller state, halt,
  and the final application state has the trace, outcome oracle, arrays and handle registers of `HostSem`.

* `program_on_exec_views` — … and after EVERY flush the registers it returns hold `HostSem`'s values in the
  shared memory of the application (what a `RegFuture` reads right after the flush).

Hypotheses that remain, all named:
* `AsmAll` — the input: each subroutine assembles (`Asm.assemble … = .ok A`, with `reserved` = the active
  registers of the memory manager at that flush, `reservedOf`; builder.py `subrt_compile_subroutine`) and
  the assembled instructions read as executor instructions `X` (`hX` of the first part: true whenever the
  mnemonics are the builder's; instance `nonvacuous_chain`).
* the initial controller state: application `a` is registered, its view agrees with the empty ProtoExec
  state (`Bridge.Rel (St.init outs) t0`) and its unit module is non-empty with virtual qubit 0 free
  (`Bridge.UnitOK t0.mem false`).  This replaces `QSafe`.
* as in the first part, the shared-memory ARRAY view (F25) is not part of `Bridge.Rel`.
-/
import NetqasmVerif.Props.C05Chain
import NetqasmVerif.Lemmas.SdkQSafe
set_option linter.unusedVariables false
namespace NQ.C05
open NQ

/-! ### one flush, hypotheses discharged -/

/-- **One flush, end to end, for a subroutine of the builder** (`Sdk.CodeOK`: what `Lemmas/SdkEmitted.lean`
proves of every emitted subroutine): from an executor state that carries the ProtoExec state exactly and
has the virtual qubit 0 free, `Exec.run` on the assembled subroutine halts in a state that agrees with the
final ProtoExec state up to the scratch registers of this flush, with the virtual qubit 0 free again. -/
theorem flush_on_exec (a : Nat) (sub : List Sdk.PCmd) (hc : Sdk.CodeOK sub) (reserved : List Reg)
    (A : List Instr) (hA : Asm.assemble Gen.vanillaRows Gen.excTable Gen.numScratch (Bridge.tr sub) reserved = .ok A)
    (X : List Exec.Instr) (hX : A.map (Asm.embed Gen.vanillaRows) = X.map Asm.ofExecQ)
    {s s' : Sdk.St} (hrun : Sdk.Runs sub 0 sub.length s s')
    (t : Asm.State Asm.XMem) (hrel : Bridge.Rel s t) (hu : Bridge.UnitOK t.mem false)
    (S : Exec.State) (hS : S.apps a = some (Asm.conc t).ap) (hloc : S.loc (Asm.conc t).ap = Asm.conc t) :
    ∃ fuel t', (Exec.run false a X fuel S 0).s = S.put a (Asm.conc t') ∧
      (Exec.run false a X fuel S 0).out = .halted ∧ (Exec.run false a X fuel S 0).pc ≥ X.length ∧
      RelUpTo sub reserved s' t' ∧ Bridge.UnitOK t'.mem false := by
  have hN := Sdk.nameInj_of_allOK hc.all
  have hR := Sdk.regsInRange_of_allOK hc.all
  have hwf := Sdk.labelTargets_of_allOK a hc.all
  have hsafe := Bridge.qsafe_of_closed a hc.closed hc.all hu
  have hag : Asm.AgreeOutsideScratch Gen.numScratch (Bridge.tr sub) t t reserved := ⟨rfl, fun _ _ => rfl⟩
  -- C05 → source level of C03
  have hrun' : Sdk.Steps sub (s, 0) (s', sub.length) := by simpa [Sdk.Runs] using hrun
  obtain ⟨u', hsrc, hrel'⟩ := Bridge.bridge_run a hN hR hrun' t hrel hsafe
  have hu' : Bridge.UnitOK u'.mem false := Bridge.unit_free_after a hc.closed hc.all hu hsrc
  -- C03: source → assembled
  have hP2 := Asm.assemble_embed C03.tableOk_vanilla hA
  obtain ⟨t', hasm, hag'⟩ := Asm.sim_run (Asm.setOk_qMachine a) (Asm.excCovers_qMachine a) hwf hP2 hsrc t hag
  simp only at hasm
  have hhalt : Asm.step (Asm.qMachine a) (Bridge.tr sub) u' sub.length = .halt :=
    Asm.step_halt_of_ge (by simp [Bridge.tr])
  have hend := Asm.step_halt_inv (Asm.sim_halt (mc := Asm.qMachine a) (t := t') hP2 hhalt)
  -- C03 → C04
  rw [hX] at hasm hend
  have h0 : Asm.tpos Gen.excTable (Bridge.tr sub) 0 = 0 := by simp [Asm.tpos]
  rw [h0] at hasm
  have hx : Asm.XSteps a X (Asm.conc t, (0 : Int))
      (Asm.conc t', ((Asm.tpos Gen.excTable (Bridge.tr sub) sub.length : Nat) : Int)) :=
    Asm.xsteps_of_steps_q a X hasm
  obtain ⟨fuel, h1, h2, h3, _⟩ := Exec.run_of_xsteps hx S hS hloc
  simp only at h1 h2 h3
  have hge : ((Asm.tpos Gen.excTable (Bridge.tr sub) sub.length : Nat) : Int) ≥ (X.length : Int) := by
    have : X.length ≤ Asm.tpos Gen.excTable (Bridge.tr sub) sub.length := by simpa using hend
    exact_mod_cast this
  refine ⟨fuel, t', h1, ?_, ?_, ⟨u', hrel', hag'⟩, ?_⟩
  · rw [h3]; simp [Exec.restOut, hge]
  · rw [h2]; exact hge
  · exact hu'.congr (by rw [hag'.1]) (by rw [hag'.1])

/-- the per-flush guarantee of `emit_correct_end_to_end'`: no hypothesis on the subroutine is left -/
def FlushOnExec' (a : Nat) (sub : List Sdk.PCmd) (s s' : Sdk.St) : Prop :=
  ∀ (reserved : List Reg) (A : List Instr),
    Asm.assemble Gen.vanillaRows Gen.excTable Gen.numScratch (Bridge.tr sub) reserved = .ok A →
    ∀ (X : List Exec.Instr), A.map (Asm.embed Gen.vanillaRows) = X.map Asm.ofExecQ →
    ∀ (t : Asm.State Asm.XMem), Bridge.Rel s t → Bridge.UnitOK t.mem false →
    ∀ (S : Exec.State), S.apps a = some (Asm.conc t).ap → S.loc (Asm.conc t).ap = Asm.conc t →
    ∃ fuel t', (Exec.run false a X fuel S 0).s = S.put a (Asm.conc t') ∧
      (Exec.run false a X fuel S 0).out = .halted ∧ (Exec.run false a X fuel S 0).pc ≥ X.length ∧
      RelUpTo sub reserved s' t' ∧ Bridge.UnitOK t'.mem false

/-- `Q` holds of every flush of a `RunSubs` chain whose subroutine satisfies `C` -/
theorem allFlushes_of_runSubs' {C : List Sdk.PCmd → Prop} {Q : List Sdk.PCmd → Sdk.St → Sdk.St → Prop}
    (hQ : ∀ sub s s', C sub → Sdk.Runs sub 0 sub.length s s' → Q sub s s') :
    ∀ (subs : List (Option (List Sdk.PCmd))) (ts : Sdk.St) (mids : List Sdk.St) (tsEnd : Sdk.St),
      (∀ sub, some sub ∈ subs → C sub) → Sdk.RunSubs subs ts mids tsEnd → AllFlushes Q subs ts mids := by
  intro subs
  induction subs with
  | nil => intro ts mids tsEnd _ _; trivial
  | cons o rest ih =>
    intro ts mids tsEnd hC h
    cases o with
    | none =>
      obtain ⟨ms, rfl, hr⟩ := h
      exact ih ts ms tsEnd (fun s hs => hC s (by simp [hs])) hr
    | some sub =>
      obtain ⟨ts1, ms, hrun, rfl, hr⟩ := h
      exact ⟨hQ sub ts ts1 (hC sub (by simp)) hrun, ih ts1 ms tsEnd (fun s hs => hC s (by simp [hs])) hr⟩

/-- **`emit_correct_end_to_end'`.**  `emit_correct_end_to_end` with the static hypotheses on the emitted
subroutines derived from the builder model and `QSafe` proved: for every host program accepted by the
builder on which `HostSem` is defined, the conclusion of `emit_correct`, AND every flush, assembled (with
any reserved set) and run by `Exec.run` from a controller state that carries the ProtoExec state before
the flush and has the virtual qubit 0 free, halts in a state that agrees with the ProtoExec state after
the flush up to scratch registers, the virtual qubit 0 free again. -/
theorem emit_correct_end_to_end' (a : Nat) (segs : List (List Sdk.Host))
    (hwf : ∀ ops ∈ segs, ∀ op ∈ ops, Sdk.TopOK op)
    (hbuild : (Sdk.run (Sdk.flat segs)).err = none) (fuel : Nat) (outs : List Int) (hsEnd : Sdk.HSt)
    (hhost : (Sdk.hrun fuel outs (Sdk.flat segs)).final = some hsEnd) :
    ∃ mids tsEnd, Sdk.RunSubs (Sdk.run (Sdk.flat segs)).subs (Sdk.St.init outs) mids tsEnd ∧
      tsEnd.trace = hsEnd.trace ∧ tsEnd.outcomes = hsEnd.outcomes ∧ tsEnd.arrs = hsEnd.arrs ∧
      (∀ h v, hsEnd.hregs h = some v →
        ∃ r b, (Sdk.run (Sdk.flat segs)).mem.handles[h]? = some (r, b) ∧ tsEnd.regs r = some v) ∧
      Sdk.ViewsOK fuel Sdk.Mem.init 0 0 (Sdk.HSt.init outs) segs mids ∧
      AllFlushes (FlushOnExec' a) (Sdk.run (Sdk.flat segs)).subs (Sdk.St.init outs) mids := by
  obtain ⟨mids, tsEnd, hrs, h1, h2, h3, h4, h5⟩ := emit_correct segs hwf hbuild fuel outs hsEnd hhost
  refine ⟨mids, tsEnd, hrs, h1, h2, h3, h4, h5, ?_⟩
  refine allFlushes_of_runSubs' (C := Sdk.CodeOK) ?_ _ _ _ _ (Sdk.run_ok (Sdk.flat segs)) hrs
  intro sub s s' hc hrun reserved A hA X hX t hrel hu S hS hloc
  exact flush_on_exec a sub hc reserved A hA X hX hrun t hrel hu S hS hloc

/-- `emit_correct_end_to_end'` under a name without a prime (the audit of `check.py` reads theorem names
from `#print axioms` output, where a trailing prime is ambiguous) -/
theorem emit_correct_end_to_end_closed (a : Nat) (segs : List (List Sdk.Host))
    (hwf : ∀ ops ∈ segs, ∀ op ∈ ops, Sdk.TopOK op)
    (hbuild : (Sdk.run (Sdk.flat segs)).err = none) (fuel : Nat) (outs : List Int) (hsEnd : Sdk.HSt)
    (hhost : (Sdk.hrun fuel outs (Sdk.flat segs)).final = some hsEnd) :
    ∃ mids tsEnd, Sdk.RunSubs (Sdk.run (Sdk.flat segs)).subs (Sdk.St.init outs) mids tsEnd ∧
      tsEnd.trace = hsEnd.trace ∧ tsEnd.outcomes = hsEnd.outcomes ∧ tsEnd.arrs = hsEnd.arrs ∧
      (∀ h v, hsEnd.hregs h = some v →
        ∃ r b, (Sdk.run (Sdk.flat segs)).mem.handles[h]? = some (r, b) ∧ tsEnd.regs r = some v) ∧
      Sdk.ViewsOK fuel Sdk.Mem.init 0 0 (Sdk.HSt.init outs) segs mids ∧
      AllFlushes (FlushOnExec' a) (Sdk.run (Sdk.flat segs)).subs (Sdk.St.init outs) mids :=
  emit_correct_end_to_end' a segs hwf hbuild fuel outs hsEnd hhost

/-! ### between two flushes -/

/-- the registers the builder passes to the assembler as `reserved_registers`: the active R registers of
the memory manager (`subrt_compile_subroutine`: `reserved_registers=self._mem_mgr.get_active_registers()`) -/
def reservedOf (m : Sdk.Mem) : List Reg := (Sdk.trueIdx m.active).map (fun i => Bridge.cvReg (Sdk.R i))

theorem mem_reservedOf {m : Sdk.Mem} {i : Nat} (h : m.active.getD i false = true) :
    Bridge.cvReg (Sdk.R i) ∈ reservedOf m := by
  refine List.mem_map.2 ⟨i, ?_, rfl⟩
  simp only [Sdk.trueIdx, List.mem_filter, List.mem_range]
  exact ⟨Sdk.getD_false_true_lt h, h⟩

/-- a register that holds a live handle is not a scratch register of a subroutine assembled with the active
registers reserved (C03: scratch registers are unnamed AND unreserved `R i`) -/
theorem prot_not_scratch {act mu : List Bool} {r : Sdk.Reg} {n : Nat} {cur reserved : List Reg}
    (hp : Sdk.Prot act mu r) (hres : ∀ i, act.getD i false = true → Bridge.cvReg (Sdk.R i) ∈ reserved) :
    ¬ Asm.IsScratch n (cur ++ reserved) (Bridge.cvReg r) := by
  rintro ⟨i, _, he, hnot⟩
  rcases hp with ⟨hb, ha⟩ | ⟨hb, _⟩
  · apply hnot
    have : r = Sdk.R r.idx := by cases r; simp_all [Sdk.R]
    rw [this]
    exact List.mem_append_right _ (hres _ ha)
  · have := congrArg Reg.bank he
    simp [Bridge.cvReg, Asm.scratchReg, hb] at this

/-- **`scratch_dead_across_flushes`.**  If the invariant between flushes holds of the ProtoExec state
`ts` and the executor state `t'` agrees with `ts` up to the scratch registers of a subroutine that was
assembled with the active registers reserved, then the ProtoExec state `ts'` that carries the
executor's registers EXACTLY also satisfies the invariant (and is `ts` on arrays, trace, outcomes and
shared memory): what the scratch registers hold is dead at the next flush. -/
theorem scratch_dead_across_flushes {m : Sdk.Mem} {hs : Sdk.HSt} {ts : Sdk.St} (hinv : Sdk.SegInv m hs ts)
    {sub : List Sdk.PCmd} {reserved : List Reg} {t' : Asm.State Asm.XMem}
    (hres : ∀ i, m.active.getD i false = true → Bridge.cvReg (Sdk.R i) ∈ reserved)
    (h : RelUpTo sub reserved ts t') :
    ∃ ts', Sdk.SegInv m hs ts' ∧ Bridge.Rel ts' t' ∧ ts'.arrs = ts.arrs ∧ ts'.trace = ts.trace ∧
      ts'.outcomes = ts.outcomes ∧ ts'.shmRegs = ts.shmRegs ∧ ts'.shmArrs = ts.shmArrs := by
  obtain ⟨u', hrel, hmem, hregs⟩ := h
  refine ⟨{ ts with regs := fun r => t'.regs (Bridge.cvReg r) }, ?_, ?_, rfl, rfl, rfl, rfl, rfl⟩
  · refine ⟨?_, hinv.lbl, hinv.aret, hinv.rret⟩
    have R0 := hinv.rel
    refine ⟨R0.arrs, R0.trace, R0.outs, ?_, R0.inj, R0.lens, R0.mh⟩
    intro hh v hv
    obtain ⟨r, b, e1, e2, e3⟩ := R0.regs hh v hv
    refine ⟨r, b, e1, ?_, e3⟩
    show t'.regs (Bridge.cvReg r) = some v
    rw [← hregs _ (prot_not_scratch e3 hres), ← hrel.regs r]
    exact e2
  · exact ⟨fun r => rfl, fun n => by rw [← hmem]; exact hrel.arrs n,
      fun x => by rw [← hmem]; exact hrel.shmRegs x, by rw [← hmem]; exact hrel.outs,
      by rw [← hmem]; exact hrel.trace⟩

/-! ### all flushes on one executor state -/

/-- the assembled subroutines of a segmented program: flush by flush, the subroutine of the builder
(`Sdk.flush`), assembled with the active registers reserved, read as executor instructions -/
def AsmAll : Sdk.Mem → List (List Sdk.Host) → List (Option (List Exec.Instr)) → Prop
  | _, [], Xs => Xs = []
  | m, ops :: rest, Xs =>
    match Sdk.emitOps m ops with
    | .error _ => False
    | .ok (m1, pend) =>
      match Sdk.flush m1 pend with
      | .error _ => False
      | .ok (m2, none) => ∃ Xr, Xs = none :: Xr ∧ AsmAll m2 rest Xr
      | .ok (m2, some sub) =>
        ∃ A X Xr, Xs = some X :: Xr ∧
          Asm.assemble Gen.vanillaRows Gen.excTable Gen.numScratch (Bridge.tr sub) (reservedOf m2) = .ok A ∧
          A.map (Asm.embed Gen.vanillaRows) = X.map Asm.ofExecQ ∧ AsmAll m2 rest Xr

/-- `Exec.run` on the subroutines in order, each from the controller state the previous one left; every
one halts past its last instruction -/
def ExecAll (a : Nat) : List (Option (List Exec.Instr)) → Exec.State → Exec.State → Prop
  | [], S, S' => S' = S
  | none :: r, S, S' => ExecAll a r S S'
  | some X :: r, S, S' =>
    ∃ fuel, (Exec.run false a X fuel S 0).out = .halted ∧ (Exec.run false a X fuel S 0).pc ≥ X.length ∧
      ExecAll a r (Exec.run false a X fuel S 0).s S'

/-- the induction over the flush segments: `segs_sim` (C05) with the executor carried along -/
theorem segs_on_exec (a : Nat) : ∀ (segs : List (List Sdk.Host)) (fuel : Nat) (m m' : Sdk.Mem)
    (subs : List (Option (List Sdk.PCmd))) (hs hsEnd : Sdk.HSt) (views : List Sdk.HSt) (ts : Sdk.St)
    (Xs : List (Option (List Exec.Instr))) (t : Asm.State Asm.XMem) (S : Exec.State),
    (∀ ops ∈ segs, ∀ op ∈ ops, Sdk.TopOK op) → Sdk.compileSegs m segs = .ok (m', subs) →
    Sdk.hrunSegs fuel m.handles.length m.arrLens.length hs segs = some (hsEnd, views) →
    Sdk.SegInv m hs ts → Sdk.MemOK m → AsmAll m segs Xs → Bridge.Rel ts t → Bridge.UnitOK t.mem false →
    S.apps a = some (Asm.conc t).ap → S.loc (Asm.conc t).ap = Asm.conc t →
    ∃ tsE tE SE, ExecAll a Xs S SE ∧ Sdk.SegInv m' hsEnd tsE ∧ Bridge.Rel tsE tE ∧ Bridge.UnitOK tE.mem false ∧
      SE.apps a = some (Asm.conc tE).ap ∧ SE.loc (Asm.conc tE).ap = Asm.conc tE
  | [], fuel, m, m', subs, hs, hsEnd, views, ts, Xs, t, S, _, hc, hh, hinv, _, hX, hrel, hu, hS, hloc => by
    simp [Sdk.compileSegs] at hc; obtain ⟨rfl, rfl⟩ := hc
    simp [Sdk.hrunSegs] at hh; obtain ⟨rfl, _⟩ := hh
    simp only [AsmAll] at hX; subst hX
    exact ⟨ts, t, S, rfl, hinv, hrel, hu, hS, hloc⟩
  | ops :: rest, fuel, m, m', subs, hs, hsEnd, views, ts, Xs, t, S, hwf, hc, hh, hinv, hok, hX, hrel, hu, hS, hloc => by
    simp only [Sdk.compileSegs] at hc
    split at hc
    · cases hc
    · rename_i m1 pend he
      split at hc
      · cases hc
      · rename_i m2 sub hf
        split at hc
        · cases hc
        · rename_i m3 subs' hc'
          cases hc
          simp only [Sdk.hrunSegs] at hh
          split at hh
          · cases hh
          · rename_i s1 nh1 na1 hseg
            split at hh
            · cases hh
            · rename_i s2 views' hrest
              cases hh
              have htop : ∀ op ∈ ops, Sdk.TopOK op := hwf ops (by simp)
              obtain ⟨ok1, cpend⟩ := Sdk.emitOps_ok ops _ _ _ hok he
              obtain ⟨ok2, csub⟩ := Sdk.flush_ok ok1 cpend hf
              simp only [AsmAll, he, hf] at hX
              cases sub with
              | none =>
                obtain ⟨Xr, rfl, hXr⟩ := hX
                obtain ⟨hinv2, en, ea⟩ := Sdk.segment_sim_none hinv htop he hf hseg
                rw [en, ea] at hrest
                exact segs_on_exec a rest fuel m2 _ subs' _ hsEnd views' ts Xr t S
                  (fun o ho => hwf o (by simp [ho])) hc' hrest hinv2 ok2 hXr hrel hu hS hloc
              | some sb =>
                obtain ⟨A, X, Xr, rfl, hA, hXe, hXr⟩ := hX
                obtain ⟨ts1, hr1, hinv2, en, ea, _⟩ := Sdk.segment_sim hinv htop he hf hseg
                rw [en, ea] at hrest
                -- this flush on the executor
                obtain ⟨fl, t1, e1, e2, e3, hup, hu1⟩ :=
                  flush_on_exec a sb (csub sb rfl) (reservedOf m2) A hA X hXe hr1 t hrel hu S hS hloc
                -- the scratch registers of this flush are dead: exact agreement again
                obtain ⟨ts1', hinv2', hrel1, _⟩ :=
                  scratch_dead_across_flushes hinv2 (fun i hi => mem_reservedOf hi) hup
                obtain ⟨tsE, tE, SE, hex, r1, r2, r3, r4, r5⟩ :=
                  segs_on_exec a rest fuel m2 _ subs' _ hsEnd views' ts1' Xr t1 (S.put a (Asm.conc t1))
                    (fun o ho => hwf o (by simp [ho])) hc' hrest hinv2' ok2 hXr hrel1 hu1
                    (Exec.put_apps_self S a _) (Exec.loc_put S a _)
                refine ⟨tsE, tE, SE, ⟨fl, e2, e3, ?_⟩, r1, r2, r3, r4, r5⟩
                rw [e1]; exact hex

/-- **`program_on_exec`.**  For every host program accepted by the builder (`hbuild`) on which `HostSem`
is defined (`hhost`): the assembled subroutines of its flushes (`AsmAll`), run IN ORDER by `Exec.run` on
ONE controller state — started where application `a` is registered with an empty state (`Bridge.Rel` with
the initial ProtoExec state) and a unit module whose virtual qubit 0 is free — all halt, and in the final
state application `a` has the quantum-hook trace, the outcome oracle, the arrays and, for every live
handle, the register value of `HostSem`.  No hypothesis on the subroutines, on intermediate states or on
the quantum instructions is left (see the header for what `AsmAll` and the initial state stand for). -/
theorem program_on_exec (a : Nat) (segs : List (List Sdk.Host))
    (hwf : ∀ ops ∈ segs, ∀ op ∈ ops, Sdk.TopOK op)
    (hbuild : (Sdk.run (Sdk.flat segs)).err = none) (fuel : Nat) (outs : List Int) (hsEnd : Sdk.HSt)
    (hhost : (Sdk.hrun fuel outs (Sdk.flat segs)).final = some hsEnd)
    (Xs : List (Option (List Exec.Instr))) (hX : AsmAll Sdk.Mem.init segs Xs)
    (t0 : Asm.State Asm.XMem) (hrel0 : Bridge.Rel (Sdk.St.init outs) t0) (hu0 : Bridge.UnitOK t0.mem false)
    (S0 : Exec.State) (hS0 : S0.apps a = some (Asm.conc t0).ap) (hloc0 : S0.loc (Asm.conc t0).ap = Asm.conc t0) :
    ∃ tE SE, ExecAll a Xs S0 SE ∧ SE.apps a = some (Asm.conc tE).ap ∧ SE.loc (Asm.conc tE).ap = Asm.conc tE ∧
      tE.mem.trace.map (·.name) = hsEnd.trace.filterMap Bridge.evName ∧
      tE.mem.oracle = hsEnd.outcomes ∧
      (∀ n : Nat, tE.mem.arrays (n : Int) = hsEnd.arrs n) ∧
      (∀ h v, hsEnd.hregs h = some v →
        ∃ r b, (Sdk.run (Sdk.flat segs)).mem.handles[h]? = some (r, b) ∧ tE.regs (Bridge.cvReg r) = some v) ∧
      Bridge.UnitOK tE.mem false := by
  obtain ⟨m', subs, hc, hsubs, hmem⟩ := Sdk.run_segs segs Sdk.Mem.init 0 ⟨[], [], none, Sdk.Mem.init⟩ hbuild
  have hmem' : (Sdk.run (Sdk.flat segs)).mem = m' := hmem
  have hseg : (Sdk.hrunSegs fuel 0 0 (Sdk.HSt.init outs) segs).map (·.1) = some hsEnd := by
    rw [← Sdk.hrunProg_segs fuel segs ((Sdk.flat segs).length + 1) 0 0 (Sdk.HSt.init outs) []
      (Nat.lt_succ_of_le (Sdk.flat_length_ge segs))]
    exact hhost
  cases hrs : Sdk.hrunSegs fuel 0 0 (Sdk.HSt.init outs) segs with
  | none => rw [hrs] at hseg; cases hseg
  | some r =>
    obtain ⟨hsE, views⟩ := r
    rw [hrs] at hseg
    simp at hseg; subst hseg
    obtain ⟨tsE, tE, SE, hex, hinvE, hrelE, huE, hSE, hlocE⟩ :=
      segs_on_exec a segs fuel Sdk.Mem.init m' subs (Sdk.HSt.init outs) hsE views (Sdk.St.init outs) Xs t0 S0
        hwf hc hrs (Sdk.segInv_init outs) Sdk.memOK_init hX hrel0 hu0 hS0 hloc0
    refine ⟨tE, SE, hex, hSE, hlocE, ?_, ?_, ?_, ?_, huE⟩
    · rw [← hrelE.trace, hinvE.rel.trace]
    · rw [← hrelE.outs, hinvE.rel.outs]
    · intro n; rw [← hrelE.arrs n, hinvE.rel.arrs]
    · intro h v hv
      obtain ⟨r, b, e1, e2, _⟩ := hinvE.rel.regs h v hv
      exact ⟨r, b, by rw [hmem']; exact e1, by rw [← hrelE.regs r]; exact e2⟩

/-! ### what the host reads after each flush, on the executor -/

/-- the registers returned by a flush, in the shared memory of application `a` after the flush, hold
`HostSem`'s values of their handles (the executor-level reading of `ViewOK.regs` / `future_value_sound_flush`) -/
def RegViewX (a : Nat) (m1 : Sdk.Mem) (s1 : Sdk.HSt) (S1 : Exec.State) : Prop :=
  ∀ r ∈ m1.regsToReturn, ∃ (h : Nat) (b : Bool) (v : Int) (x : Exec.XReg) (ap : Exec.App),
    m1.handles[h]? = some (r, b) ∧ s1.hregs h = some v ∧ Asm.toX? (Bridge.cvReg r) = some x ∧
    S1.apps a = some ap ∧ ap.shmRegs x = some v

/-- `RegViewX` at every flush that sends a subroutine (`mids`: the controller states after the flushes) -/
def ViewsX (a fuel : Nat) : Sdk.Mem → Nat → Nat → Sdk.HSt → List (List Sdk.Host) → List Exec.State → Prop
  | _, _, _, _, [], _ => True
  | m, nh, na, s, ops :: rest, mids =>
    match Sdk.emitOps m ops, Sdk.runSegment fuel nh na ops s, mids with
    | .ok (m1, pend), some (s1, nh1, na1), S1 :: Ss =>
      match Sdk.flush m1 pend with
      | .ok (m2, some _) =>
        RegViewX a m1 s1 S1 ∧ ViewsX a fuel m2 nh1 na1 (Sdk.clearAll s1 (Sdk.segMHandles nh ops)) rest Ss
      | .ok (m2, none) => ViewsX a fuel m2 nh1 na1 (Sdk.clearAll s1 (Sdk.segMHandles nh ops)) rest Ss
      | .error _ => True
    | _, _, _ => True

/-- `ExecAll` with the controller states after each flush -/
def ExecAllM (a : Nat) : List (Option (List Exec.Instr)) → Exec.State → List Exec.State → Exec.State → Prop
  | [], S, mids, S' => mids = [] ∧ S' = S
  | none :: r, S, mids, S' => ∃ ms, mids = S :: ms ∧ ExecAllM a r S ms S'
  | some X :: r, S, mids, S' =>
    ∃ fuel ms, (Exec.run false a X fuel S 0).out = .halted ∧ (Exec.run false a X fuel S 0).pc ≥ X.length ∧
      mids = (Exec.run false a X fuel S 0).s :: ms ∧ ExecAllM a r (Exec.run false a X fuel S 0).s ms S'

theorem ExecAllM.toExecAll (a : Nat) : ∀ (Xs : List (Option (List Exec.Instr))) (S : Exec.State)
    (mids : List Exec.State) (S' : Exec.State), ExecAllM a Xs S mids S' → ExecAll a Xs S S'
  | [], S, mids, S', h => h.2
  | none :: r, S, mids, S', ⟨ms, _, h⟩ => ExecAllM.toExecAll a r S ms S' h
  | some X :: r, S, mids, S', ⟨fuel, ms, h1, h2, _, h⟩ => ⟨fuel, h1, h2, ExecAllM.toExecAll a r _ ms S' h⟩

theorem toX_cvReg {r : Sdk.Reg} (h : Sdk.regOK r = true) :
    ∃ x : Exec.XReg, Asm.toX? (Bridge.cvReg r) = some x ∧ (⟨x.bank.val, x.idx.val⟩ : Sdk.Reg) = r := by
  simp only [Sdk.regOK, Bool.and_eq_true, decide_eq_true_eq] at h
  obtain ⟨hb, hi⟩ := h
  refine ⟨⟨⟨r.bank, hb⟩, ⟨r.idx, hi⟩⟩, ?_, by cases r; rfl⟩
  have h2 : (0 : Int) ≤ (r.idx : Int) ∧ (r.idx : Int) < 16 := by omega
  simp [Asm.toX?, Bridge.cvReg, hb, h2]

/-- `segs_on_exec` with the host views of the returned registers at every flush -/
theorem segs_on_exec_views (a : Nat) : ∀ (segs : List (List Sdk.Host)) (fuel : Nat) (m m' : Sdk.Mem)
    (subs : List (Option (List Sdk.PCmd))) (hs hsEnd : Sdk.HSt) (views : List Sdk.HSt) (ts : Sdk.St)
    (Xs : List (Option (List Exec.Instr))) (t : Asm.State Asm.XMem) (S : Exec.State),
    (∀ ops ∈ segs, ∀ op ∈ ops, Sdk.TopOK op) → Sdk.compileSegs m segs = .ok (m', subs) →
    Sdk.hrunSegs fuel m.handles.length m.arrLens.length hs segs = some (hsEnd, views) →
    Sdk.SegInv m hs ts → Sdk.MemOK m → AsmAll m segs Xs → Bridge.Rel ts t → Bridge.UnitOK t.mem false →
    S.apps a = some (Asm.conc t).ap → S.loc (Asm.conc t).ap = Asm.conc t →
    ∃ Smids SE, ExecAllM a Xs S Smids SE ∧ ViewsX a fuel m m.handles.length m.arrLens.length hs segs Smids
  | [], fuel, m, m', subs, hs, hsEnd, views, ts, Xs, t, S, _, hc, hh, hinv, _, hX, hrel, hu, hS, hloc => by
    simp only [AsmAll] at hX; subst hX
    exact ⟨[], S, ⟨rfl, rfl⟩, trivial⟩
  | ops :: rest, fuel, m, m', subs, hs, hsEnd, views, ts, Xs, t, S, hwf, hc, hh, hinv, hok, hX, hrel, hu, hS, hloc => by
    simp only [Sdk.compileSegs] at hc
    split at hc
    · cases hc
    · rename_i m1 pend he
      split at hc
      · cases hc
      · rename_i m2 sub hf
        split at hc
        · cases hc
        · rename_i m3 subs' hc'
          cases hc
          simp only [Sdk.hrunSegs] at hh
          split at hh
          · cases hh
          · rename_i s1 nh1 na1 hseg
            split at hh
            · cases hh
            · rename_i s2 views' hrest
              cases hh
              have htop : ∀ op ∈ ops, Sdk.TopOK op := hwf ops (by simp)
              obtain ⟨ok1, cpend⟩ := Sdk.emitOps_ok ops _ _ _ hok he
              obtain ⟨ok2, csub⟩ := Sdk.flush_ok ok1 cpend hf
              simp only [AsmAll, he, hf] at hX
              cases sub with
              | none =>
                obtain ⟨Xr, rfl, hXr⟩ := hX
                obtain ⟨hinv2, en, ea⟩ := Sdk.segment_sim_none hinv htop he hf hseg
                rw [en, ea] at hrest
                obtain ⟨Ss, SE, hex, hv⟩ := segs_on_exec_views a rest fuel m2 _ subs' _ hsEnd views' ts Xr t S
                  (fun o ho => hwf o (by simp [ho])) hc' hrest hinv2 ok2 hXr hrel hu hS hloc
                refine ⟨S :: Ss, SE, ⟨Ss, rfl, hex⟩, ?_⟩
                simp only [ViewsX, he, hseg, hf]
                rw [en, ea]; exact hv
              | some sb =>
                obtain ⟨A, X, Xr, rfl, hA, hXe, hXr⟩ := hX
                obtain ⟨ts1, hr1, hinv2, en, ea, hview⟩ := Sdk.segment_sim hinv htop he hf hseg
                rw [en, ea] at hrest
                obtain ⟨fl, t1, e1, e2, e3, hup, hu1⟩ :=
                  flush_on_exec a sb (csub sb rfl) (reservedOf m2) A hA X hXe hr1 t hrel hu S hS hloc
                obtain ⟨ts1', hinv2', hrel1, _, _, _, hshm, _⟩ :=
                  scratch_dead_across_flushes hinv2 (fun i hi => mem_reservedOf hi) hup
                obtain ⟨Ss, SE, hex, hv⟩ :=
                  segs_on_exec_views a rest fuel m2 _ subs' _ hsEnd views' ts1' Xr t1 (S.put a (Asm.conc t1))
                    (fun o ho => hwf o (by simp [ho])) hc' hrest hinv2' ok2 hXr hrel1 hu1
                    (Exec.put_apps_self S a _) (Exec.loc_put S a _)
                refine ⟨(S.put a (Asm.conc t1)) :: Ss, SE, ⟨fl, Ss, e2, e3, by rw [e1], by rw [e1]; exact hex⟩, ?_⟩
                simp only [ViewsX, he, hseg, hf]
                rw [en, ea]
                refine ⟨?_, hv⟩
                intro r hr
                obtain ⟨h0, b, v, g1, g2, g3⟩ := hview.regs r hr
                obtain ⟨x, hx, hxr⟩ := toX_cvReg (ok1.rret r hr)
                refine ⟨h0, b, v, x, (Asm.conc t1).ap, g1, g2, hx, Exec.put_apps_self S a _, ?_⟩
                show t1.mem.shmRegs x = some v
                rw [← hrel1.shmRegs x, hxr, hshm]
                exact g3

/-- **`program_on_exec_views`.**  Under the hypotheses of `program_on_exec`: the subroutines run in order
on one controller state (`ExecAllM`, `Smids` = the states after the flushes), and after EVERY flush that sends
a subroutine the registers it returns hold, in the shared memory of application `a`, `HostSem`'s values of
their handles (`ViewsX`) — what the host reads through a `RegFuture` right after the flush. -/
theorem program_on_exec_views (a : Nat) (segs : List (List Sdk.Host))
    (hwf : ∀ ops ∈ segs, ∀ op ∈ ops, Sdk.TopOK op)
    (hbuild : (Sdk.run (Sdk.flat segs)).err = none) (fuel : Nat) (outs : List Int) (hsEnd : Sdk.HSt)
    (hhost : (Sdk.hrun fuel outs (Sdk.flat segs)).final = some hsEnd)
    (Xs : List (Option (List Exec.Instr))) (hX : AsmAll Sdk.Mem.init segs Xs)
    (t0 : Asm.State Asm.XMem) (hrel0 : Bridge.Rel (Sdk.St.init outs) t0) (hu0 : Bridge.UnitOK t0.mem false)
    (S0 : Exec.State) (hS0 : S0.apps a = some (Asm.conc t0).ap) (hloc0 : S0.loc (Asm.conc t0).ap = Asm.conc t0) :
    ∃ Smids SE, ExecAllM a Xs S0 Smids SE ∧ ViewsX a fuel Sdk.Mem.init 0 0 (Sdk.HSt.init outs) segs Smids := by
  obtain ⟨m', subs, hc, _, _⟩ := Sdk.run_segs segs Sdk.Mem.init 0 ⟨[], [], none, Sdk.Mem.init⟩ hbuild
  have hseg : (Sdk.hrunSegs fuel 0 0 (Sdk.HSt.init outs) segs).map (·.1) = some hsEnd := by
    rw [← Sdk.hrunProg_segs fuel segs ((Sdk.flat segs).length + 1) 0 0 (Sdk.HSt.init outs) []
      (Nat.lt_succ_of_le (Sdk.flat_length_ge segs))]
    exact hhost
  cases hrs : Sdk.hrunSegs fuel 0 0 (Sdk.HSt.init outs) segs with
  | none => rw [hrs] at hseg; cases hseg
  | some r =>
    obtain ⟨hsE, views⟩ := r
    exact segs_on_exec_views a segs fuel Sdk.Mem.init m' subs (Sdk.HSt.init outs) hsE views (Sdk.St.init outs)
      Xs t0 S0 hwf hc hrs (Sdk.segInv_init outs) Sdk.memOK_init hX hrel0 hu0 hS0 hloc0

/-! ### non-vacuity: the hypotheses of `program_on_exec` hold for C05's demo program

`toExecQ?` reads an assembled command as an executor instruction; it is only a way to COMPUTE a candidate
`X` — `asmAll?` checks `A.map embed = X.map ofExecQ` itself, so nothing depends on `toExecQ?` being right. -/

def toExecQ? : Asm.PCmd → Option Exec.Instr
  | .instr mn [] ops =>
    if mn = "set" then (match ops with | [.reg r, .lit v] => (Asm.toX? r).map (.set · v) | _ => none)
    else if mn = "load" then
      (match ops with
       | [.reg r, .entry ad (.reg i)] => (Asm.toX? r).bind fun x => (Asm.toX? i).map fun y => .load x ad y
       | _ => none)
    else if mn = "store" then
      (match ops with
       | [.reg r, .entry ad (.reg i)] => (Asm.toX? r).bind fun x => (Asm.toX? i).map fun y => .store x ad y
       | _ => none)
    else if mn = "array" then (match ops with | [.reg r, .addr ad] => (Asm.toX? r).map (.array · ad) | _ => none)
    else if mn = "add" then
      (match ops with
       | [.reg d, .reg x, .reg y] =>
         (Asm.toX? d).bind fun d' => (Asm.toX? x).bind fun x' => (Asm.toX? y).map fun y' => .add d' x' y'
       | _ => none)
    else if mn = "addm" then
      (match ops with
       | [.reg d, .reg x, .reg y, .reg md] =>
         (Asm.toX? d).bind fun d' => (Asm.toX? x).bind fun x' => (Asm.toX? y).bind fun y' =>
           (Asm.toX? md).map fun m' => .addm d' x' y' m'
       | _ => none)
    else if mn = "jmp" then (match ops with | [.lit tg] => some (.jmp tg) | _ => none)
    else if mn = "bez" then (match ops with | [.reg r, .lit tg] => (Asm.toX? r).map (.bez · tg) | _ => none)
    else if mn = "bnz" then (match ops with | [.reg r, .lit tg] => (Asm.toX? r).map (.bnz · tg) | _ => none)
    else if mn = "beq" then
      (match ops with
       | [.reg x, .reg y, .lit tg] => (Asm.toX? x).bind fun x' => (Asm.toX? y).map fun y' => .beq x' y' tg
       | _ => none)
    else if mn = "bne" then
      (match ops with
       | [.reg x, .reg y, .lit tg] => (Asm.toX? x).bind fun x' => (Asm.toX? y).map fun y' => .bne x' y' tg
       | _ => none)
    else if mn = "blt" then
      (match ops with
       | [.reg x, .reg y, .lit tg] => (Asm.toX? x).bind fun x' => (Asm.toX? y).map fun y' => .blt x' y' tg
       | _ => none)
    else if mn = "bge" then
      (match ops with
       | [.reg x, .reg y, .lit tg] => (Asm.toX? x).bind fun x' => (Asm.toX? y).map fun y' => .bge x' y' tg
       | _ => none)
    else if mn = "ret_reg" then (match ops with | [.reg r] => (Asm.toX? r).map .retReg | _ => none)
    else if mn = "ret_arr" then (match ops with | [.addr ad] => some (.retArr ad) | _ => none)
    else if mn = "qalloc" then (match ops with | [.reg r] => (Asm.toX? r).map .qalloc | _ => none)
    else if mn = "qfree" then (match ops with | [.reg r] => (Asm.toX? r).map .qfree | _ => none)
    else if mn = "meas" then
      (match ops with
       | [.reg q, .reg c] => (Asm.toX? q).bind fun q' => (Asm.toX? c).map fun c' => .meas q' c'
       | _ => none)
    else if mn ∈ Asm.q1Names then (match ops with | [.reg r] => (Asm.toX? r).map (.q1 mn ·) | _ => none)
    else none
  | _ => none

/-- a computed witness of `AsmAll` (each equation of `AsmAll` is CHECKED) -/
def asmAll? : Sdk.Mem → List (List Sdk.Host) → Option (List (Option (List Exec.Instr)))
  | _, [] => some []
  | m, ops :: rest =>
    match Sdk.emitOps m ops with
    | .error _ => none
    | .ok (m1, pend) =>
      match Sdk.flush m1 pend with
      | .error _ => none
      | .ok (m2, none) => (asmAll? m2 rest).map (none :: ·)
      | .ok (m2, some sub) =>
        match Asm.assemble Gen.vanillaRows Gen.excTable Gen.numScratch (Bridge.tr sub) (reservedOf m2) with
        | .error _ => none
        | .ok A =>
          match (A.map (Asm.embed Gen.vanillaRows)).mapM toExecQ? with
          | none => none
          | some X =>
            if A.map (Asm.embed Gen.vanillaRows) = X.map Asm.ofExecQ then (asmAll? m2 rest).map (some X :: ·)
            else none

theorem asmAll?_sound : ∀ (segs : List (List Sdk.Host)) (m : Sdk.Mem) (Xs : List (Option (List Exec.Instr))),
    asmAll? m segs = some Xs → AsmAll m segs Xs
  | [], m, Xs, h => by simp [asmAll?] at h; simp [AsmAll, h]
  | ops :: rest, m, Xs, h => by
    simp only [asmAll?] at h
    simp only [AsmAll]
    split at h
    · cases h
    · rename_i m1 pend he

      split at h
      · cases h
      · rename_i m2 hf
        simp only [Option.map_eq_some_iff] at h
        obtain ⟨Xr, hr, rfl⟩ := h
        exact ⟨Xr, rfl, asmAll?_sound rest m2 Xr hr⟩
      · rename_i m2 sub hf
        split at h
        · cases h
        · rename_i A hA
          split at h
          · cases h
          · rename_i X hX
            split at h
            · rename_i heq
              simp only [Option.map_eq_some_iff] at h
              obtain ⟨Xr, hr, rfl⟩ := h
              exact ⟨A, X, Xr, rfl, hA, heq, asmAll?_sound rest m2 Xr hr⟩
            · cases h

/-- the empty application state with a one-qubit unit module, and a controller that holds it -/
def demoT0 (outs : List Int) : Asm.State Asm.XMem :=
  ⟨fun _ => none, ⟨fun _ => none, fun _ => none, fun _ => none, [none], [], outs, []⟩⟩

def demoS0 (a : Nat) (outs : List Int) : Exec.State :=
  { apps := fun k => if k = a then some (Asm.conc (demoT0 outs)).ap else none, used := [], reserved := [],
    registry := [], oracle := outs, trace := [] }

/-- **non-vacuity of `program_on_exec`**: for C05's demo program (nested loop / if / add / measurements,
two flushes; `demo_hyps`: the builder accepts it and `HostSem` is defined) every flush assembles and
reads as executor instructions, and the initial states exist -/
theorem nonvacuous_program_on_exec (a : Nat) (outs : List Int) :
    (∃ Xs, AsmAll Sdk.Mem.init demoSegs Xs) ∧
    Bridge.Rel (Sdk.St.init outs) (demoT0 outs) ∧ Bridge.UnitOK (demoT0 outs).mem false ∧
    (demoS0 a outs).apps a = some (Asm.conc (demoT0 outs)).ap ∧
    (demoS0 a outs).loc (Asm.conc (demoT0 outs)).ap = Asm.conc (demoT0 outs) := by
  refine ⟨?_, ⟨fun _ => rfl, fun _ => rfl, fun _ => rfl, rfl, rfl⟩,
    ⟨by simp [demoT0], fun _ => rfl, fun e => by cases e⟩, by simp [demoS0], rfl⟩
  have h : (asmAll? Sdk.Mem.init demoSegs).isSome = true := by decide +kernel
  cases hx : asmAll? Sdk.Mem.init demoSegs with
  | none => rw [hx] at h; cases h
  | some Xs => exact ⟨Xs, asmAll?_sound _ _ _ hx⟩

end NQ.C05

