/-
C03 — Assembling text or IR into a subroutine preserves program meaning.

Full statement (DESIGN §5): for every proto program `P` that the assembler accepts, every source
step / run / fault / halt of `P` is reproduced by the assembled subroutine, states agreeing on
every register except the scratch candidates that `P` does not name and on the whole memory;
every branch lands on the command after its label; the output is the source instructions in
order, each preceded only by its own `set <scratch> <literal>`s.

Everything below is proved without extra hypotheses on the program except
`LabelTargets` (branch targets are labels — a numeric target has no source-level meaning).
The instruction semantics is a parameter (`StdLike`): the role table of the 21 classical /
array / allocation instructions and ANY `exec` for which `set` sets.

Not proved here (listed explicitly):
* nothing of the statement is left as `…_partial`; `macros_tokenwise` carries the two
  hypotheses under which it is true (no macro value contains `$`; no macro use is directly
  followed by another `$`), and `macros_adjacent_counterexample` / the chained-value reading
  show that neither can be dropped for the code as it is (sequential passes);
* Text front end (`parse_text_protosubroutine`; model `AsmFront.parseTextProto`, tied by the
  differential stream `asm.parsetext`: equal proto-subroutine or same error class on rendered
  programs with random comments, blank lines, preambles, argument brackets and malformed forms):
  - THEOREMS: `parse_render_program` — for every proto program (labels, instructions with bracketed
    arguments, every source operand form) the text `# NETQASM v.w` / `# APPID n` / one command per
    line, with blank and comment-only lines interleaved ANYWHERE (`Padded`), is parsed into exactly
    (version, app id, program); this covers `_split_preamble_body`, `_parse_preamble` and its
    checks on these preambles, the tokeniser `group_by_word` with `instr(args)`, `_split_of_bracket`,
    `_parse_args`, label lines, operand parsing, `_parse_netqasm_version`.  `text_assemble_simulates`
    composes it with `assemble_simulates_run`.  Macros: `macros_tokenwise` (substitution) and
    `parse_render_with_macros` (body level: the substituted body is read back).
  - STREAM ONLY: indentation and comments AFTER a command on the same line, other orders / repeated
    or malformed preamble lines and every error class, `DEFINE` lines with `{…}` values in the
    preamble of the whole-text theorem (the macro theorems start from the macro list), templates
    `{x}`, other whitespace than blanks inside argument brackets.
* `scratch_not_named` / `AgreeOutsideScratch` are relative to the registers THIS subroutine names:
  a register that an earlier subroutine of the same application left live but that the present one
  does not mention is a legal scratch register for `_replace_constants` (open SDK finding F42,
  property C05: `new_register()` in an earlier flush).  The fix of F42 is the `reserved_registers`
  parameter of `assemble_subroutine`; it is modelled (`reserved`, default `[]`) and every theorem
  carries it: reserved registers are never scratch and keep their values (`reserved_preserved`).
-/
import NetqasmVerif.Lemmas.AsmBuild
import NetqasmVerif.Lemmas.AsmMacros
import NetqasmVerif.Lemmas.AsmLabelExact
import NetqasmVerif.Lemmas.AsmPure
import NetqasmVerif.Lemmas.AsmExec
import NetqasmVerif.Lemmas.AsmTextOperand
import NetqasmVerif.Props.TextObligations
import NetqasmVerif.Props.AsmTextObligations
import NetqasmVerif.Props.AsmObligations
namespace NQ.C03
open NQ NQ.Asm

/-! ## generated obligations -/

theorem exc_covers : excCovers stdRoleTable Gen.excTable = true := AsmObl.exc_covers
theorem roles_fit :
    stdRoleTable.all (fun e => match nameMap Gen.vanillaRows e.1 with
      | some row => rolesFit e.2 row.shape
      | none => false) = true := AsmObl.roles_fit
theorem branch_positions :
    stdRoleTable.flatMap (fun e => (tgtPositions e.2 0).map (fun j => (e.1, j))) = Gen.branchTargets :=
  AsmObl.branch_positions
theorem classes_unique :
    Gen.vanillaRows.all (fun r => rowOf Gen.vanillaRows r.cls == some r) = true := AsmObl.classes_unique
theorem macro_probe_fixed : Gen.macroTokenAware = true := AsmObl.macro_probe_fixed

/-! ## the machines the property is about -/

/-- the role table of the in-scope instructions and any `exec` whose `set` sets -/
structure StdLike {M : Type} (mc : Machine M) : Prop where
  roles_eq : mc.roles = stdRoles
  exec_set : ∀ v m, mc.exec "set" [.dst, .imm v] m = .ok (some v) m false

theorem setOk_of_stdLike {M : Type} {mc : Machine M} (h : StdLike mc) : SetOk mc :=
  ⟨by rw [h.roles_eq]; rfl, h.exec_set⟩

theorem lookupRoles_mem {tbl : List (String × List Role)} {mn : String} {rs : List Role}
    (h : lookupRoles tbl mn = some rs) : (mn, rs) ∈ tbl := by
  induction tbl with
  | nil => simp [lookupRoles] at h
  | cons e es ih =>
    obtain ⟨k, v⟩ := e
    simp only [lookupRoles] at h
    by_cases hk : k = mn
    · simp only [hk, if_true, Option.some.injEq] at h; subst h; subst hk; simp
    · simp only [hk, if_false] at h; exact List.mem_cons_of_mem _ (ih h)

theorem mem_immPositions {rs : List Role} {j k : Nat} {role : Role} (h : rs[k]? = some role)
    (hr : role = .imm ∨ role = .tgt) : j + k ∈ immPositions rs j := by
  induction rs generalizing j k with
  | nil => simp at h
  | cons r rs' ih =>
    cases k with
    | zero =>
      simp at h; subst h
      simp only [immPositions, List.mem_append]
      left; simp [hr]
    | succ k' =>
      simp at h
      simp only [immPositions, List.mem_append]
      right
      have := ih (j := j + 1) h
      have e : j + 1 + k' = j + (k' + 1) := by omega
      rw [e] at this; exact this

theorem excCovers_sound {M : Type} {mc : Machine M} (h : StdLike mc) : ExcCovers mc Gen.excTable := by
  intro mn rs hr k role hk hrole
  rw [h.roles_eq] at hr
  have hm := lookupRoles_mem hr
  have := exc_covers
  simp only [excCovers, List.all_eq_true] at this
  have h2 := this (mn, rs) hm
  exact h2 (0 + k) (mem_immPositions hk hrole)

theorem tableOk_vanilla : TableOk Gen.vanillaRows := by
  intro row hrow
  have := classes_unique
  simp only [List.all_eq_true] at this
  simpa using this row hrow

/-! ## simulation -/

section
variable {M : Type} {mc : Machine M} {P : List PCmd} {A : List Instr} {reserved : List Reg}

/-- **One step.**  Every step of the source program is matched by steps of the assembled
subroutine (the inserted `set`s, then the instruction itself) between the images of the two
source positions; the states still agree outside the scratch set. -/
theorem assemble_simulates (hm : StdLike mc) (hwf : LabelTargets mc P)
    (hA : assemble Gen.vanillaRows Gen.excTable Gen.numScratch P reserved = .ok A)
    {s s' t : State M} {i i' : Nat}
    (hstep : step mc P s i = .next s' i') (hag : AgreeOutsideScratch Gen.numScratch P s t reserved) :
    ∃ t', Steps mc (A.map (embed Gen.vanillaRows)) (t, tpos Gen.excTable P i) (t', tpos Gen.excTable P i')
      ∧ AgreeOutsideScratch Gen.numScratch P s' t' reserved :=
  sim_step (setOk_of_stdLike hm) (excCovers_sound hm) hwf (assemble_embed tableOk_vanilla hA) hstep hag

/-- **Every run** (any number of steps, no bound). -/
theorem assemble_simulates_run (hm : StdLike mc) (hwf : LabelTargets mc P)
    (hA : assemble Gen.vanillaRows Gen.excTable Gen.numScratch P reserved = .ok A)
    {s s' t : State M} {i i' : Nat}
    (hrun : Steps mc P (s, i) (s', i')) (hag : AgreeOutsideScratch Gen.numScratch P s t reserved) :
    ∃ t', Steps mc (A.map (embed Gen.vanillaRows)) (t, tpos Gen.excTable P i) (t', tpos Gen.excTable P i')
      ∧ AgreeOutsideScratch Gen.numScratch P s' t' reserved :=
  sim_run (setOk_of_stdLike hm) (excCovers_sound hm) hwf (assemble_embed tableOk_vanilla hA) hrun t hag

/-- **Faults.**  A source instruction that faults makes the assembled subroutine fault with the
same kind, inside the image of that very instruction, after steps that change only scratch
registers. -/
theorem assemble_simulates_fault (hm : StdLike mc) (hwf : LabelTargets mc P)
    (hA : assemble Gen.vanillaRows Gen.excTable Gen.numScratch P reserved = .ok A)
    {s t : State M} {i k : Nat}
    (hf : step mc P s i = .fault k) (hag : AgreeOutsideScratch Gen.numScratch P s t reserved) :
    ∃ t' j, Steps mc (A.map (embed Gen.vanillaRows)) (t, tpos Gen.excTable P i) (t', j) ∧
      step mc (A.map (embed Gen.vanillaRows)) t' j = .fault k ∧
      tpos Gen.excTable P i ≤ j ∧ j < tpos Gen.excTable P (i + 1) ∧
      AgreeOutsideScratch Gen.numScratch P s t' reserved :=
  sim_fault (setOk_of_stdLike hm) (excCovers_sound hm) hwf (assemble_embed tableOk_vanilla hA) hf hag

/-- **Halting.**  When the source has run off its end, so has the assembled subroutine. -/
theorem assemble_halts (hA : assemble Gen.vanillaRows Gen.excTable Gen.numScratch P reserved = .ok A)
    {s t : State M} {i : Nat} (hh : step mc P s i = .halt) :
    step mc (A.map (embed Gen.vanillaRows)) t (tpos Gen.excTable P i) = .halt :=
  sim_halt (assemble_embed tableOk_vanilla hA) hh

/-- `step` is a function, so the assembled subroutine has no other behaviour. -/
theorem step_deterministic {Q : List PCmd} {s s1 s2 : State M} {i i1 i2 : Nat}
    (h1 : step mc Q s i = .next s1 i1) (h2 : step mc Q s i = .next s2 i2) : s1 = s2 ∧ i1 = i2 := by
  rw [h1] at h2; cases h2; exact ⟨rfl, rfl⟩

/-! ## labels -/

/-- the image of a position does not move across a label: consecutive labels, a label in
front of an instruction and a label after the last instruction all denote the image of the next
real instruction (or the end) -/
theorem tpos_skips_label {exc : List (String × Nat)} {k : Nat} {l : String} (h : P[k]? = some (.label l)) :
    tpos exc P (k + 1) = tpos exc P k := by
  rw [tpos_succ h]; simp [lenA]

/-- **`labels_correct`.**  The table built by `_assign_branch_labels` — *after* constant
insertion — maps every label to the image of its source position. -/
theorem labels_correct {exc : List (String × Nat)} {n : Nat} {P1 : List PCmd} (l : String)
    (h1 : replaceConstants exc n (makeArgsOperands P) reserved = .ok P1) :
    lookupLabel (labelTable P1 0) l = (labelIdx P l).map (tpos exc P) := by
  have hna := noArgs_makeArgs P
  rw [lookup_labelTable, labelIdx_rcAll l h1, labelIdx_makeArgs, Option.map_map]
  congr 1; funext k
  simp only [Function.comp, Nat.zero_add]
  rw [tpos_compose hna h1, tpos_makeArgs]

/-- **Every taken branch lands on the command that followed its label.** -/
theorem branch_lands_after_label (hm : StdLike mc) (hwf : LabelTargets mc P)
    (hA : assemble Gen.vanillaRows Gen.excTable Gen.numScratch P reserved = .ok A)
    {s s' t : State M} {i k : Nat} {l : String} (hl : labelIdx P l = some k)
    (hstep : step mc P s i = .next s' (k + 1)) (hag : AgreeOutsideScratch Gen.numScratch P s t reserved) :
    ∃ t', Steps mc (A.map (embed Gen.vanillaRows)) (t, tpos Gen.excTable P i) (t', tpos Gen.excTable P k)
      ∧ AgreeOutsideScratch Gen.numScratch P s' t' reserved := by
  have := assemble_simulates hm hwf hA hstep hag
  rw [tpos_skips_label (labelIdx_spec hl)] at this
  exact this

/-! ## literals -/

/-- **`currentRegisters_covers`** (true for the code after the F3 fix): every register the
program names, at top level or inside brackets, is a current register. -/
theorem currentRegisters_covers {r : Reg} (h : NamedIn P r) : r ∈ currentRegisters P :=
  currentRegisters_covers' h

/-- hence a scratch register is never a register of the program: `ScratchFresh` needs no hypothesis -/
theorem scratch_not_named {n : Nat} {r : Reg} (h : IsScratch n (currentRegisters P ++ reserved) r) :
    ¬ NamedIn P r ∧ r ∉ reserved := by
  obtain ⟨_, _, _, h'⟩ := h
  exact ⟨fun hn => h' (List.mem_append_left _ (currentRegisters_covers hn)), fun hr => h' (List.mem_append_right _ hr)⟩

/-- **`replaceConstants_preserves`.**  One source step = the inserted `set`s + the patched
instruction in the output of `_replace_constants`; registers named by `P` are undisturbed. -/
theorem replaceConstants_preserves (hm : StdLike mc) {n : Nat} {P1 : List PCmd}
    (hna : NoArgs P) (hwf : LabelTargets mc P)
    (h1 : replaceConstants Gen.excTable n P reserved = .ok P1) {s s' t : State M} {i i' : Nat}
    (hstep : step mc P s i = .next s' i') (hag : AgreeOutsideScratch n P s t reserved) :
    ∃ t', Steps mc P1 (t, tpos1 Gen.excTable P i) (t', tpos1 Gen.excTable P i') ∧
      AgreeOutsideScratch n P s' t' reserved :=
  sim1_step (c := ⟨Gen.excTable, n, currentRegisters P ++ reserved⟩) (setOk_of_stdLike hm) (excCovers_sound hm)
    hna hwf (fun _ hr => List.mem_append_left _ (currentRegisters_covers hr)) h1 hstep hag

/-! ## nothing dropped, duplicated or reordered -/

/-- **`no_drop_dup_reorder`.**  The assembled program is, block by block and in order, the
source instructions (labels erased): each block is the `set <scratch> <literal>`s inserted for
that instruction (distinct scratch registers that the program does not name) followed by the
instruction itself with patched operands. -/
theorem no_drop_dup_reorder {exc : List (String × Nat)} {n : Nat} {P2 : List PCmd}
    (h : assembleProto exc n P reserved = .ok P2) :
    ∃ (tbl : List (String × Nat)) (blocks : List (List (Reg × Int) × PCmd)),
      P2 = blocks.flatMap blockCode ∧
      Forall2 (fun src b => CmdPatched exc tbl b.1 (makeArgsCmd src) b.2 ∧
          (∀ rv ∈ b.1, IsScratch n (currentRegisters P ++ reserved) rv.1) ∧ (b.1.map Prod.fst).Nodup)
        (instrsOf P) blocks := by
  obtain ⟨P1, h1, h2⟩ := assembleProto_inv h
  obtain ⟨blocks, hb, hf⟩ := structure_rcAll (c := ⟨exc, n, currentRegisters (makeArgsOperands P) ++ reserved⟩)
    (labelTable P1 0) (noArgs_makeArgs P) h1
  refine ⟨labelTable P1 0, blocks, by rw [assignBranchLabels_ok h2, hb], ?_⟩
  rw [currentRegisters_makeArgs] at hf
  have hi := instrsOf_makeArgs P
  rw [hi] at hf
  exact forall2_of_map hf

/-- the instruction classes are built from exactly these commands: `embed ∘ build = id` -/
theorem build_faithful (hA : assemble Gen.vanillaRows Gen.excTable Gen.numScratch P reserved = .ok A) :
    assembleProto Gen.excTable Gen.numScratch P reserved = .ok (A.map (embed Gen.vanillaRows)) :=
  assemble_embed tableOk_vanilla hA

end

/-! ## F3: the code before the fix -/

/-- `array 3 @0` / `store 7 @0[R0]` -/
def f3Prog : List PCmd :=
  [.instr "array" [] [.lit 3, .addr 0], .instr "store" [] [.lit 7, .entry 0 (.reg ⟨0, 0⟩)]]

/-- With `get_current_registers` looking at top-level operands only, `currentRegisters_covers`
is false and the scratch register of `store 7 @0[R0]` is `R0` itself: the index is overwritten
(`set R0 7; store R0 @0[R0]`). -/
theorem F3_old_code_counterexample :
    NamedIn f3Prog ⟨0, 0⟩ ∧ (⟨0, 0⟩ : Reg) ∉ currentRegistersTop f3Prog ∧
    (assembleProtoTop Gen.excTable Gen.numScratch f3Prog).toOption = some
      [.instr "set" [] [.reg ⟨0, 0⟩, .lit 3], .instr "array" [] [.reg ⟨0, 0⟩, .addr 0],
       .instr "set" [] [.reg ⟨0, 0⟩, .lit 7], .instr "store" [] [.reg ⟨0, 0⟩, .entry 0 (.reg ⟨0, 0⟩)]] := by
  refine ⟨⟨"store", [], [.lit 7, .entry 0 (.reg ⟨0, 0⟩)], .entry 0 (.reg ⟨0, 0⟩), by simp [f3Prog], by simp,
    by simp [opRegs, riRegs]⟩, by decide, by decide +kernel⟩

/-- the same program through the fixed pass: the scratch register avoids `R0` -/
theorem F3_fixed_witness :
    (assembleProto Gen.excTable Gen.numScratch f3Prog).toOption = some
      [.instr "set" [] [.reg ⟨0, 1⟩, .lit 3], .instr "array" [] [.reg ⟨0, 1⟩, .addr 0],
       .instr "set" [] [.reg ⟨0, 1⟩, .lit 7], .instr "store" [] [.reg ⟨0, 1⟩, .entry 0 (.reg ⟨0, 0⟩)]] := by
  decide +kernel

/-! ## non-vacuity: a loop with a label, a backward branch, literals and a trailing label -/

def loopProg : List PCmd :=
  [.instr "set" [] [.reg ⟨0, 0⟩, .lit 0],
   .label "LOOP",
   .instr "add" [] [.reg ⟨0, 0⟩, .reg ⟨0, 0⟩, .lit 1],
   .instr "blt" [] [.reg ⟨0, 0⟩, .lit 3, .lab "LOOP"],
   .label "END"]

def loopCheck : Bool :=
  match runN stdMachine loopProg 9 (⟨fun _ => none, ⟨[], [], [], []⟩⟩, 0) with
  | some c => c.2 == 5 && c.1.regs ⟨0, 0⟩ == some 3
  | none => false

/-- the hypotheses of `assemble_simulates_run` hold for a concrete looping program on the
concrete machine, and the source really runs (9 steps, to the end, `R0 = 3`) -/
theorem nonvacuous_loop :
    StdLike stdMachine ∧ LabelTargets stdMachine loopProg ∧
    ((assemble Gen.vanillaRows Gen.excTable Gen.numScratch loopProg).toOption.map List.length = some 5) ∧
    (∃ s', Steps stdMachine loopProg (⟨fun _ => none, ⟨[], [], [], []⟩⟩, 0) (s', 5) ∧ s'.regs ⟨0, 0⟩ = some 3) := by
  refine ⟨⟨rfl, fun _ _ => rfl⟩, ?_, by decide +kernel, ?_⟩
  · intro mn args ops rs v hm hr
    simp only [loopProg, List.mem_cons, PCmd.instr.injEq, List.mem_nil_iff, or_false] at hm
    rcases hm with ⟨rfl, rfl, rfl⟩ | h | ⟨rfl, rfl, rfl⟩ | ⟨rfl, rfl, rfl⟩ | h
    · cases hr; simp [allOps, tgtOf]
    · cases h
    · cases hr; simp [allOps, tgtOf]
    · cases hr; simp [allOps, tgtOf]
    · cases h
  · have h : loopCheck = true := by decide +kernel
    unfold loopCheck at h
    cases hr : runN stdMachine loopProg 9 (⟨fun _ => none, ⟨[], [], [], []⟩⟩, 0) with
    | none => simp [hr] at h
    | some c =>
      simp only [hr, Bool.and_eq_true, beq_iff_eq] at h
      obtain ⟨s', pc⟩ := c
      simp only at h
      obtain ⟨rfl, h3⟩ := h
      exact ⟨s', steps_of_runN hr, h3⟩

/-! ## the target is the executor model of C04

`Model/Exec.lean` (`Exec.stepLoc`, the reference interpreter that C04 ties to the real `Executor`)
is an instance of the machines above: `xMachine = ⟨stdRoles, xExec⟩` with `xExec` the executor's
instruction semantics on evaluated operands, and `step_corr` proves for each of the 21
instructions that a step (fault) of `xMachine` on the read-back of an executor program IS the
step (fault of the same kind) of `Exec.stepLoc` on the concretised state `conc t` (registers
restricted to the 4 × 16 file; memory = arrays, shared memory, unit module, used set, oracle, trace).
Simulation mode (`hw = false`): in hardware mode `set r v` faults for `v` outside 32 bits, so a
materialised literal would additionally have to fit (C16 rejects others when the subroutine is
encoded). -/

theorem stdLike_xMachine : StdLike xMachine := ⟨rfl, xExec_set⟩

/-- **The executor model is an instance.**  For every executor program `X`, state and position:
a step of `xMachine` on the read-back of `X` is the `Exec.stepLoc` step of `X[k]` on `conc t`
(same successor state and program counter), and a fault is an `Exec` fault of the same kind. -/
theorem exec_is_instance (a : Nat) (X : List Exec.Instr) (t : State XMem) (k : Nat) :
    (∀ t' pc', step xMachine (X.map ofExec) t k = .next t' pc' →
      ∃ x, X[k]? = some x ∧ Exec.stepLoc false a x (conc t) (k : Int) = .ok (conc t') (pc' : Int)) ∧
    (∀ f, step xMachine (X.map ofExec) t k = .fault f →
      ∃ x, X[k]? = some x ∧ lresKind (Exec.stepLoc false a x (conc t) (k : Int)) = some f) :=
  step_corr a X t k

section
variable {P : List PCmd} {A : List Instr} {reserved : List Reg}

/-- **`assemble_simulates_exec`.**  Source runs (proto program `P` under the executor's own
instruction semantics, labels no-ops, literals evaluating to themselves) are reproduced by the
EXECUTOR MODEL `Exec.stepLoc` running the assembled subroutine `X` (the instructions of `A` as
`Exec.Instr`), from the image of the start position to the image of the end position, the
states agreeing outside the scratch set. -/
theorem assemble_simulates_exec (a : Nat) (hwf : LabelTargets xMachine P)
    (hA : assemble Gen.vanillaRows Gen.excTable Gen.numScratch P reserved = .ok A)
    (X : List Exec.Instr) (hX : A.map (embed Gen.vanillaRows) = X.map ofExec)
    {s s' t : State XMem} {i i' : Nat}
    (hrun : Steps xMachine P (s, i) (s', i')) (hag : AgreeOutsideScratch Gen.numScratch P s t reserved) :
    ∃ t', XSteps a X (conc t, (tpos Gen.excTable P i : Int)) (conc t', (tpos Gen.excTable P i' : Int))
      ∧ AgreeOutsideScratch Gen.numScratch P s' t' reserved := by
  obtain ⟨t', hst, hag'⟩ := assemble_simulates_run stdLike_xMachine hwf hA hrun hag
  rw [hX] at hst
  exact ⟨t', xsteps_of_steps a X hst, hag'⟩

/-- … and a faulting source instruction makes the executor model fault with the same
`Exec.Fault`, inside the image of that instruction. -/
theorem assemble_simulates_exec_fault (a : Nat) (hwf : LabelTargets xMachine P)
    (hA : assemble Gen.vanillaRows Gen.excTable Gen.numScratch P reserved = .ok A)
    (X : List Exec.Instr) (hX : A.map (embed Gen.vanillaRows) = X.map ofExec)
    {s t : State XMem} {i : Nat} {f : Exec.Fault}
    (hf : step xMachine P s i = .fault (faultCode f)) (hag : AgreeOutsideScratch Gen.numScratch P s t reserved) :
    ∃ (t' : State XMem) (j : Nat) (x : Exec.Instr) (l' : Exec.Loc),
      XSteps a X (conc t, (tpos Gen.excTable P i : Int)) (conc t', (j : Int)) ∧
      X[j]? = some x ∧ Exec.stepLoc false a x (conc t') (j : Int) = .fault l' f ∧
      tpos Gen.excTable P i ≤ j ∧ j < tpos Gen.excTable P (i + 1) ∧
      AgreeOutsideScratch Gen.numScratch P s t' reserved := by
  obtain ⟨t', j, hst, hfj, hlo, hhi, hag'⟩ := assemble_simulates_fault stdLike_xMachine hwf hA hf hag
  rw [hX] at hst hfj
  obtain ⟨x, hx, hk⟩ := (step_corr a X t' j).2 _ hfj
  cases hl : Exec.stepLoc false a x (conc t') (j : Int) with
  | ok l pc => simp [hl, lresKind] at hk
  | fault l' g =>
    simp only [hl, lresKind, Option.some.injEq] at hk
    have := faultCode_inj hk
    subst this
    exact ⟨t', j, x, l', xsteps_of_steps a X hst, hx, hl, hlo, hhi, hag'⟩

end

/-- non-vacuity of `hX`: the assembled loop program, read as executor instructions -/
def loopX : List Exec.Instr :=
  [.set ⟨0, 0⟩ 0, .set ⟨0, 1⟩ 1, .add ⟨0, 0⟩ ⟨0, 0⟩ ⟨0, 1⟩, .set ⟨0, 1⟩ 3, .blt ⟨0, 0⟩ ⟨0, 1⟩ 1]

theorem nonvacuous_exec :
    (assemble Gen.vanillaRows Gen.excTable Gen.numScratch loopProg).toOption.map
      (fun A => A.map (embed Gen.vanillaRows)) = some (loopX.map ofExec) := by decide +kernel

/-! ## text level: source operands -/

/-- **`source_operand_text_roundtrip`.**  With the symbols of the live module (`Gen.syms`), the text
of every proto operand form — including integer literals as array index or slice bound, which
printed instructions never contain — is read back by the operand parser as that operand.
(`pOpOk`: the register bank exists; a label is a variable name that is not itself a number or a
register name — `R1:` as a label IS read as register `R1` by the code.) -/
theorem source_operand_text_roundtrip (o : POperand) (ho : Text.pOpOk Gen.syms o) :
    Text.parseOperand Gen.syms (Text.showPOp Gen.syms o) = .ok (Text.tokOfP o) :=
  Text.parseOperand_showPOp (Text.sok_of Gen.syms TextObl.syms_ok) o ho

example : Text.pOpOk Gen.syms (.slice 2 (.reg ⟨0, 1⟩) (.lit 3)) := by
  simp only [Text.pOpOk, Text.valOfRI, Text.valOk]; decide

/-! ## reserved registers (`assemble_subroutine(reserved_registers=…)`, the fix of F42)

Every theorem above carries the `reserved` set of the call: `AgreeOutsideScratch … reserved` is
agreement on all registers except the `R i` that are neither named by the subroutine nor
reserved, so reserved registers keep their values through every run of the assembled subroutine. -/

/-- the pass-level statement, kept under its earlier name -/
theorem replaceConstants_preserves_reserved {M : Type} {mc : Machine M} {P : List PCmd} (hm : StdLike mc)
    (reserved : List Reg) {n : Nat} {P1 : List PCmd} (hna : NoArgs P) (hwf : LabelTargets mc P)
    (h1 : replaceConstants Gen.excTable n P reserved = .ok P1) {s s' t : State M} {i i' : Nat}
    (hstep : step mc P s i = .next s' i') (hag : AgreeOutsideScratch n P s t reserved) :
    ∃ t', Steps mc P1 (t, tpos1 Gen.excTable P i) (t', tpos1 Gen.excTable P i') ∧
      AgreeOutsideScratch n P s' t' reserved :=
  replaceConstants_preserves hm hna hwf h1 hstep hag

/-- a reserved register is never a scratch register -/
theorem reserved_not_scratch {P : List PCmd} {reserved : List Reg} {n : Nat} {r : Reg}
    (h : IsScratch n (currentRegisters P ++ reserved) r) : r ∉ reserved :=
  (scratch_not_named h).2

/-- **reserved registers survive.**  A register in the reserved set that the subroutine does not
write keeps its value: it has the same value in the assembled run as in the source run. -/
theorem reserved_preserved {M : Type} {n : Nat} {P : List PCmd} {reserved : List Reg} {s t : State M}
    {r : Reg} (hr : r ∈ reserved) (hag : AgreeOutsideScratch n P s t reserved) : s.regs r = t.regs r :=
  hag.2 r (fun h => (scratch_not_named h).2 hr)

/-- the witness of F42 in the model: with `R0` reserved the scratch register of `store 7 @0[R1]`
is `R2`, without it `R0` -/
theorem F42_reserved_witness :
    (assembleProto Gen.excTable Gen.numScratch [.instr "store" [] [.lit 7, .entry 0 (.reg ⟨0, 1⟩)]] [⟨0, 0⟩]).toOption
      = some [.instr "set" [] [.reg ⟨0, 2⟩, .lit 7], .instr "store" [] [.reg ⟨0, 2⟩, .entry 0 (.reg ⟨0, 1⟩)]] ∧
    (assembleProto Gen.excTable Gen.numScratch [.instr "store" [] [.lit 7, .entry 0 (.reg ⟨0, 1⟩)]]).toOption
      = some [.instr "set" [] [.reg ⟨0, 0⟩, .lit 7], .instr "store" [] [.reg ⟨0, 0⟩, .entry 0 (.reg ⟨0, 1⟩)]] := by
  decide +kernel

/-! ## the assembler is a function of the command VALUES

IR built by programs shares objects (one ICmd object used twice, one operands list or one
ArrayEntry / ArraySlice object used by several commands), may sit in a container whose `commands`
accessor hands out copies, and may be assembled more than once.  The model has no object identity;
the differential streams `ir:*` of checks/c03.py check that the real `assemble_subroutine` gives,
for every such IR, the subroutine of the IR with fresh objects (= the model on `deref`).
The code rewrites the IR in place BY DESIGN (`pre_subroutine.commands` holds the assembled commands
afterwards), so "the input IR is unchanged" is not promised; what is promised and proved for the
model is that assembling the rewritten IR again changes nothing (`assemble_twice`).  Finding F47
(fixed): before the fix the literals were replaced inside the shared objects themselves. -/

theorem imm_exempt : Gen.vanillaRows.all (fun r => immExempt Gen.excTable r.mn 0 r.shape) = true :=
  AsmObl.imm_exempt

/-- **`assemble_pure`.**  Two IRs with the same command values — however their command, operands-list
and operand objects are shared — assemble to the same subroutine. -/
theorem assemble_pure (reserved : List Reg) (ir₁ ir₂ : IR) (h : ir₁.deref = ir₂.deref) :
    assembleIR Gen.vanillaRows Gen.excTable Gen.numScratch ir₁ reserved =
      assembleIR Gen.vanillaRows Gen.excTable Gen.numScratch ir₂ reserved :=
  Asm.assemble_pure _ _ _ reserved ir₁ ir₂ h

/-- **assembling the same ProtoSubroutine twice** gives the same subroutine (any reserved sets) -/
theorem assemble_twice {P : List PCmd} {A : List Instr} {reserved : List Reg}
    (h : assemble Gen.vanillaRows Gen.excTable Gen.numScratch P reserved = .ok A) (reserved' : List Reg) :
    assemble Gen.vanillaRows Gen.excTable Gen.numScratch (A.map (embed Gen.vanillaRows)) reserved' = .ok A :=
  Asm.assemble_twice tableOk_vanilla imm_exempt h reserved'

/-- one ICmd object used twice: its value appears twice in `deref` -/
example : (IR.deref ⟨[0, 1, 0], fun c => if c = 0 then some (.inr ("add", [], 0)) else some (.inl "L"),
    fun _ => [0, 0, 1], fun o => if o = 0 then .reg ⟨0, 0⟩ else .lit 1⟩) =
    [.instr "add" [] [.reg ⟨0, 0⟩, .reg ⟨0, 0⟩, .lit 1], .label "L", .instr "add" [] [.reg ⟨0, 0⟩, .reg ⟨0, 0⟩, .lit 1]] := by
  decide

/-! ## label names -/

/-- **`label_resolution_exact`.**  A label operand `l` is patched with the number of real commands in
front of the FIRST definition whose name is exactly `l` (string equality), and is left unresolved when
no definition has exactly that name: names differing in case, prefixes or suffixes of `l`, names that
look like mnemonics or registers play no role. -/
theorem label_resolution_exact (P : List PCmd) (l : String) :
    (∀ k, (P[k]? = some (.label l) ∧ ∀ j, j < k → P[j]? ≠ some (.label l)) →
      patchOp (labelTable P 0) (.lab l) = .lit (tpos2 P k : Nat)) ∧
    (PCmd.label l ∉ P → patchOp (labelTable P 0) (.lab l) = .lab l) :=
  patchOp_label_exact P l

/-- `retry:` / `RETRY:` — a branch to the later one lands behind the later one -/
theorem label_case_witness :
    (assembleProto Gen.excTable Gen.numScratch
      [.label "retry", .instr "set" [] [.reg ⟨0, 0⟩, .lit 1], .label "RETRY", .instr "jmp" [] [.lab "RETRY"],
       .instr "jmp" [] [.lab "retry"]]).toOption =
    some [.instr "set" [] [.reg ⟨0, 0⟩, .lit 1], .instr "jmp" [] [.lit 1], .instr "jmp" [] [.lit 0]] := by
  decide +kernel

/-! ## macros -/

open NQ.AsmText in
/-- **One pass.**  For every body and every key made of variable-name characters, one pass of
the fixed `_apply_macros` (`re.sub` with the end-of-name look-ahead) replaces exactly the macro
uses named `key` — tokens `$name` with maximal munch — and leaves everything else, in
particular the uses of any other macro whose name merely starts with `key` (F4). -/
theorem macro_pass_tokenwise (key val : List Char) (hk : ∀ c ∈ key, isIdent c = true) (s : List Char) :
    reSub key val s = (tokenize s).flatMap (render1 key val) :=
  reSub_tokenwise key val hk s

open NQ.AsmText in
/-- **`macros_tokenwise`.**  For every macro list (keys are variable names, as `_parse_preamble`
enforces) and every body: the sequential substitution of `_apply_macros` equals the
simultaneous token-wise replacement (every use `$name` becomes the value of the macro called
`name`, everything else is kept), provided no macro value contains `$` and no macro use in the
body is directly followed by another `$`. -/
theorem macros_tokenwise (macros : List (List Char × List Char))
    (hk : ∀ kv ∈ macros, ∀ c ∈ kv.1, isIdent c = true)
    (hv : ∀ kv ∈ macros, ∀ c ∈ stripBraces kv.2, c ≠ '$')
    (body : List Char) (hs : NoAdjacentUses (tokenize body)) :
    substAll reSub macros body = substTokenwise macros body :=
  substAll_tokenwise macros hk hv body (canon_tokenize body hs)

open NQ.AsmText in
/-- non-vacuity of `macros_tokenwise`: the F4 text satisfies its hypotheses -/
example : NoAdjacentUses (tokenize ['s', 'e', 't', ' ', '$', 'a', '1', ' ', '$', 'a']) := by
  have e : tokenize ['s', 'e', 't', ' ', '$', 'a', '1', ' ', '$', 'a'] =
      [.text 's', .text 'e', .text 't', .text ' ', .use ['a', '1'], .text ' ', .use ['a']] := by decide
  rw [e]; simp [NoAdjacentUses]

open NQ.AsmText in
/-- F4 on the code before the fix: `DEFINE a R0`, `DEFINE a1 R5`, `set $a1 3` became `set R01 3`
(assembled as `set R1 3`), which is not the token-wise reading `set R5 3`. -/
theorem F4_old_code_counterexample :
    applyMacrosOld [['s', 'e', 't', ' ', '$', 'a', '1', ' ', '3']] [(['a'], ['R', '0']), (['a', '1'], ['R', '5'])]
      = [['s', 'e', 't', ' ', 'R', '0', '1', ' ', '3']] ∧
    substTokenwise [(['a'], ['R', '0']), (['a', '1'], ['R', '5'])] ['s', 'e', 't', ' ', '$', 'a', '1', ' ', '3']
      = ['s', 'e', 't', ' ', 'R', '5', ' ', '3'] := by decide

open NQ.AsmText in
/-- the same text through the fixed pass -/
theorem F4_fixed_witness :
    applyMacros [['s', 'e', 't', ' ', '$', 'a', '1', ' ', '3'], ['s', 'e', 't', ' ', '$', 'a', ' ', '4']]
        [(['a'], ['R', '0']), (['a', '1'], ['{', 'R', '5', '}'])]
      = [['s', 'e', 't', ' ', 'R', '5', ' ', '3'], ['s', 'e', 't', ' ', 'R', '0', ' ', '4']] := by decide

open NQ.AsmText in
/-- why the list statement needs "no macro use directly followed by `$`": with `a ↦ R0` applied
before `b ↦ X`, the text `$b$a` becomes `$bR0`, and `$bR0` is no longer a use of `b`. -/
theorem macros_adjacent_counterexample :
    applyMacros [['$', 'b', '$', 'a']] [(['a'], ['R', '0']), (['b'], ['X'])] = [['$', 'b', 'R', '0']] ∧
    substTokenwise [(['a'], ['R', '0']), (['b'], ['X'])] ['$', 'b', '$', 'a'] = ['X', 'R', '0'] := by decide

/-! ## text level: the whole front end -/

theorem front_syms : AsmFront.FrontSyms Gen.syms := AsmTextObl.front_syms
theorem text_syms_ok : AsmFront.textSymsOk Gen.syms = true := AsmTextObl.text_syms_ok

/-- **`parse_render_program`.**  For every proto program `P` the front end can express (`CmdOk`:
label names and label operands are variable names, mnemonics are `GenericInstr` names, any
source operand form, any bracketed arguments), every version `v.w` and app id `n`, and every text
made of the lines `# NETQASM v.w`, `# APPID n`, one rendered command per line, with blank or
comment-only lines interleaved anywhere: `parse_text_protosubroutine` (model) returns exactly
`(v.w, n, P)`. -/
theorem parse_render_program (v w n : Nat) (P : List PCmd)
    (hP : ∀ c ∈ P, AsmFront.CmdOk Gen.syms Gen.genericNames c) (lines : List (List Char))
    (hpad : AsmFront.Padded Gen.syms.comment.toList (AsmFront.canonLines Gen.syms v w n P) lines)
    (hnl : ∀ l ∈ lines, '\n' ∉ l) :
    AsmFront.parseTextProto Gen.syms Gen.genericNames (AsmText.joinWith '\n' lines) =
      .ok ⟨some ((v : Int), (w : Int)), some (n : Int), P⟩ :=
  AsmFront.parseTextProto_padded front_syms text_syms_ok _ v w n P hP lines hpad hnl

/-- the canonical text itself (no padding) -/
theorem parse_render_program_canon (v w n : Nat) (P : List PCmd)
    (hP : ∀ c ∈ P, AsmFront.CmdOk Gen.syms Gen.genericNames c) :
    AsmFront.parseTextProto Gen.syms Gen.genericNames (AsmFront.canonText Gen.syms v w n P) =
      .ok ⟨some ((v : Int), (w : Int)), some (n : Int), P⟩ :=
  AsmFront.parseTextProto_canon front_syms text_syms_ok _ v w n P hP

/-- **`parse_render_with_macros`** (body level): under the hypotheses of `macros_tokenwise`, if the
token-wise reading of the body lines `B` is the rendering of `P`, `_create_subroutine` reads `P` from
`_apply_macros(B, macros)`. -/
theorem parse_render_with_macros (P : List PCmd) (hP : ∀ c ∈ P, AsmFront.CmdOk Gen.syms Gen.genericNames c)
    (hne : P ≠ []) (B : List (List Char)) (hB : B ≠ []) (macros : List (List Char × List Char))
    (hk : ∀ kv ∈ macros, ∀ c ∈ kv.1, AsmText.isIdent c = true)
    (hv : ∀ kv ∈ macros, ∀ c ∈ AsmText.stripBraces kv.2, c ≠ '$')
    (hs : AsmText.NoAdjacentUses (AsmText.tokenize (AsmText.joinWith '\n' B)))
    (htok : AsmText.substTokenwise macros (AsmText.joinWith '\n' B) =
      AsmText.joinWith '\n' (P.map (AsmFront.renderCmd Gen.syms))) :
    AsmFront.parseBody Gen.syms Gen.genericNames (AsmText.applyMacros B macros) = .ok P :=
  AsmFront.parseBody_macros front_syms text_syms_ok _ P hP hne B hB macros
    (macros_tokenwise macros hk hv _ hs) htok

/-- **`text_assemble_simulates`.**  Assembling TEXT preserves program meaning: the text of `P` is
parsed into `P`, and every source run of `P` is reproduced by the assembled subroutine. -/
theorem text_assemble_simulates {M : Type} {mc : Machine M} (hm : StdLike mc) (v w n : Nat) (P : List PCmd)
    (hP : ∀ c ∈ P, AsmFront.CmdOk Gen.syms Gen.genericNames c) (lines : List (List Char))
    (hpad : AsmFront.Padded Gen.syms.comment.toList (AsmFront.canonLines Gen.syms v w n P) lines)
    (hnl : ∀ l ∈ lines, '\n' ∉ l) (hwf : LabelTargets mc P) {A : List Instr} {reserved : List Reg}
    (hA : assemble Gen.vanillaRows Gen.excTable Gen.numScratch P reserved = .ok A)
    {s s' t : State M} {i i' : Nat} (hrun : Steps mc P (s, i) (s', i'))
    (hag : AgreeOutsideScratch Gen.numScratch P s t reserved) :
    (∃ pr, AsmFront.parseTextProto Gen.syms Gen.genericNames (AsmText.joinWith '\n' lines) = .ok pr ∧ pr.cmds = P) ∧
    ∃ t', Steps mc (A.map (embed Gen.vanillaRows)) (t, tpos Gen.excTable P i) (t', tpos Gen.excTable P i')
      ∧ AgreeOutsideScratch Gen.numScratch P s' t' reserved :=
  ⟨⟨_, parse_render_program v w n P hP lines hpad hnl, rfl⟩, assemble_simulates_run hm hwf hA hrun hag⟩

/-- non-vacuity: the loop program is readable, and a padded text of it -/
theorem nonvacuous_text :
    (∀ c ∈ loopProg, AsmFront.CmdOk Gen.syms Gen.genericNames c) ∧
    (match AsmFront.parseTextProto Gen.syms Gen.genericNames
        "// a loop\n# NETQASM 1.0\n\n# APPID 2\nset R0 0\nLOOP:\n   \nadd R0 R0 1\n//x\nblt R0 3 LOOP\nEND:".toList with
      | .ok pr => pr.cmds == loopProg && pr.version == some (1, 0) && pr.appId == some 2
      | .error _ => false) = true := by
  refine ⟨?_, by decide +kernel⟩
  intro c hc
  simp only [loopProg, List.mem_cons, List.mem_nil_iff, or_false] at hc
  rcases hc with rfl | rfl | rfl | rfl | rfl
  · exact ⟨⟨by decide, by decide, by decide +kernel⟩, by
      intro o ho; simp only [List.mem_cons, List.mem_nil_iff, or_false] at ho
      rcases ho with rfl | rfl <;> simp only [Text.pOpOk] <;> decide⟩
  · show Text.isVarName _ = true; decide
  · exact ⟨⟨by decide, by decide, by decide +kernel⟩, by
      intro o ho; simp only [List.mem_cons, List.mem_nil_iff, or_false] at ho
      rcases ho with rfl | rfl | rfl <;> simp only [Text.pOpOk] <;> decide⟩
  · exact ⟨⟨by decide, by decide, by decide +kernel⟩, by
      intro o ho; simp only [List.mem_cons, List.mem_nil_iff, or_false] at ho
      rcases ho with rfl | rfl | rfl
      · simp only [Text.pOpOk]; decide
      · simp only [Text.pOpOk]
      · simp only [Text.pOpOk]; decide +kernel⟩
  · show Text.isVarName _ = true; decide

end NQ.C03
