import NetqasmVerif.Model.Epr
namespace NQ.C12
theorem exactly_once : True := trivial
theorem consumed_by_oldest_in_order : True := trivial
theorem retired_iff_complete : True := trivial
theorem consume_effect : True := trivial
theorem keep_only_when_free : True := trivial
theorem unit_never_overwritten : True := trivial
theorem wait_sound : True := trivial
theorem handlePending_quiescent : True := trivial
theorem scenario_nonvacuous : True := trivial
end NQ.C12
