/-
C12 — Controller matches entanglement responses to requests under any interleaving.

Transition system: `NQ.Epr.step` (Model/Epr.lean); `Reach okf node s` = `s` is reachable from the initial
state by ANY finite sequence of non-raising actions (instruction steps of any live subroutine of any
application — create/recv/qalloc/qfree/array/store/wait —, response deliveries, polls). No bound on the
number of requests, pairs, applications, subroutines or on the length of the schedule.

Environment assumptions appear as hypotheses / as the `none` (raises) outcome of the model:
* `PosReqs s`: every request issued so far asked for ≥ 1 pair (a 0-pair request is never retired by
  `_handle_last_epr_pair`, whose test is `pairs_left == 0` after a decrement);
* the issuing subroutine is live and the result array is long enough when a response is consumed —
  otherwise the handler raises (`step … = none`), so such a schedule is not a run;
* LINK-LAYER ORDER (environment assumption of the *interpretation*): the responses of one queue (remote
  node, purpose, role) arrive in the order of the requests they answer, with fresh physical ids. The
  bookkeeping never reads `sequence_number`; "pair k of a request" is by definition the k-th response it
  consumes, and equals the k-th pair generated for it under link-layer order provided the requests of the
  queue have one type (see the observation `measure_overtakes_deferred_keep` for what happens otherwise).
-/
import NetqasmVerif.Lemmas.EprInv
namespace NQ.C12
open NQ NQ.Epr

/-- (i) Every delivered response is, at every moment, in exactly one place: the pending list or the
consumption history (where each entry names exactly one consuming request), and delivery ids are unique.
`Perm` = equality as multisets. -/
theorem exactly_once {okf : Nat} {node : Int} {s : State} (h : Reach okf node s) :
    (s.pending ++ s.log.map (·.resp)).Perm s.delivered ∧ (s.delivered.map (·.id)).Nodup := by
  obtain ⟨hp, hids⟩ := exactlyOnce_reach s h
  exact ⟨hp, by rw [hids]; exact List.nodup_range⟩

/-- (i′) counting form: a delivered response occurs exactly once in pending ++ consumed. -/
theorem exactly_once_count {okf : Nat} {node : Int} {s : State} (h : Reach okf node s) (r : Resp)
    (hr : r ∈ s.delivered) : (s.pending ++ s.log.map (·.resp)).count r = 1 := by
  obtain ⟨hp, hnd⟩ := exactly_once h
  rw [hp.count_eq]
  have : s.delivered.Nodup := List.Pairwise.of_map (·.id) (fun a b h hab => h (by rw [hab])) hnd
  rw [this.count, if_pos hr]

/-- (ii)+(iii, indices)+(iv): for every queue `κ` = (remote node, purpose, role) the consumption
history restricted to `κ`, as (request id, pair index) pairs, is exactly the canonical oldest-first
schedule: all pairs `0 … tot-1` in order of every retired request (`fin`, in issue order), followed by
pairs `0 … tot-left-1` of the current head of the queue; the requests still queued are precisely the
issued ones that are not retired, in issue order, each with `1 ≤ left ≤ tot`, and only the head has
consumed anything. Hence a response is only ever consumed by the oldest outstanding request of its key,
the k-th response a request consumes has pair index k, and a request is retired after exactly `tot`
responses and not before. -/
theorem consumed_by_oldest_in_order {okf : Nat} {node : Int} {s : State} (h : Reach okf node s)
    (hpos : PosReqs s) (κ : Key) :
    ∃ fin : List Req,
      issuedFor s κ = fin ++ (getQ s.queues κ).map reset ∧
      doneFor s κ = canon fin ++ headPart (getQ s.queues κ) ∧
      (∀ r ∈ getQ s.queues κ, 1 ≤ r.left ∧ r.left ≤ r.tot ∧ r.key = κ) ∧
      (∀ r ∈ (getQ s.queues κ).tail, r.left = r.tot) :=
  allQ_reach s h hpos κ

/-- (ii, step form) the request that consumes a response is the head of the queue selected by the
response's (remote node, purpose, directionality), and the pair index recorded is `tot - left`. -/
theorem consumed_by_head {okf : Nat} {s s' : State} {r : Resp} (h : tryHandle okf s r = .yes s') :
    ∃ hd rest e, getQ s.queues (keyOf s.nodeId r) = hd :: rest ∧ s'.log = s.log ++ [e] ∧ e.resp = r ∧
      e.req = hd.id ∧ e.k = (hd.tot - hd.left).toNat := by
  obtain ⟨hd, rest, e, hq, _, _, her, hk, hr, _, _, hlog, _⟩ := (tryHandle_yes h).view
  exact ⟨hd, rest, e, hq, hlog, hr, her, hk⟩

/-- (iv) a consumption removes the head request from its queue exactly when this was its last pair
(`left = 1` before, i.e. with (ii) it has now consumed `tot` responses); otherwise it stays at the head
with `left` decremented once. Nothing else changes in any queue. -/
theorem retired_iff_complete {okf : Nat} {s s' : State} {r : Resp} (h : tryHandle okf s r = .yes s') :
    ∃ hd rest, getQ s.queues (keyOf s.nodeId r) = hd :: rest ∧
      getQ s'.queues (keyOf s.nodeId r) =
        (if hd.left = 1 then rest else { hd with left := hd.left - 1 } :: rest) ∧
      ∀ κ, κ ≠ keyOf s.nodeId r → getQ s'.queues κ = getQ s.queues κ := by
  obtain ⟨hd, rest, e, hq, _, _, _, _, _, _, hqs, _, _⟩ := (tryHandle_yes h).view
  refine ⟨hd, rest, hq, ?_, ?_⟩
  · rw [hqs, getQ_setQ_same]
    by_cases hl : hd.left = 1
    · simp [hl]
    · have : ¬ hd.left - 1 = 0 := by omega
      simp [hl, this]
  · intro κ hk; rw [hqs, getQ_setQ_ne _ _ _ _ hk]

/-- (iii) the consumption with pair index `k = tot - left` writes the response's fields to entries
`k·okf … k·okf + okf - 1` of the consuming request's result array (array of the application of the
issuing subroutine), and — for a keep response — maps unit-module position `q_array[k]` to the response's
physical qubit, leaving every other position as it was. (v) That position was free before. -/
theorem consume_effect {okf : Nat} {s s' : State} {r : Resp} (h : tryHandle okf s r = .yes s') :
    ∃ (hd : Req) (rest : List Req) (app : Nat) (m m' : AppMem) (arr' : Arr),
      getQ s.queues (keyOf s.nodeId r) = hd :: rest ∧
      getSub s.subs hd.sub = some app ∧ getApp s.apps app = some m ∧ getApp s'.apps app = some m' ∧
      getArr m'.arrays hd.resAddr = some arr' ∧
      (∀ j, j < r.fields.length →
        arr'[(hd.tot - hd.left).toNat * okf + j]? = (r.fields[j]?).map some) ∧
      (r.ty = .M → m'.unit = m.unit) ∧
      (r.ty = .K → ∃ qa qarr v i, hd.qAddr = some qa ∧ getArr m.arrays qa = some qarr ∧
        qarr[(hd.tot - hd.left).toNat]? = some (some v) ∧ (0 ≤ v → i = v.toNat) ∧
        m.unit.getD i none = none ∧ m'.unit.getD i none = some r.phys ∧
        ∀ j, j ≠ i → m'.unit.getD j none = m.unit.getD j none) :=
  (tryHandle_yes h).effect

/-- (v) history form, for every reachable state: every keep response in the consumption history was
mapped to a unit-module position that was free at that moment; measure responses map nothing. -/
theorem keep_only_when_free {okf : Nat} {node : Int} {s : State} (h : Reach okf node s) :
    ∀ e ∈ s.log, (e.resp.ty = .K → e.prev = none ∧ e.vq.isSome) ∧ (e.resp.ty = .M → e.vq = none) :=
  fun e he => (logFree_reach s h e he).2

/-- (v) for EVERY action (instruction, delivery, poll) from EVERY state: a unit-module entry holding a
physical qubit keeps it or is freed; it is never replaced by another qubit. During deliveries and polls
allocated entries do not change at all. -/
theorem unit_never_overwritten {okf : Nat} {s s' : State} {a : Action} (h : step okf s a = some s')
    (app i : Nat) (p : Int) (hp : mapped s app i = some p) :
    mapped s' app i = some p ∨ mapped s' app i = none :=
  step_noOverwrite h app i p hp

/-- Faults at the environment boundary: a `create_epr` / `recv_epr` whose call into the network stack
raised (`get_purpose_id`, or `put` — the request was never accepted by the stack) leaves the WHOLE state
as it was: no queue gains a request, nothing is consumed, no history entry. Issuing a request is atomic
with the stack's acceptance. (The raising subroutine stays registered: `execute_subroutine` does not
reach `_clear_subroutine`.) -/
theorem rejected_issue_unchanged {okf : Nat} {s s' : State} {sub : Nat}
    (h : step okf s (.rejected sub) = some s') : s' = s := by
  simp only [step] at h
  obtain ⟨_, _, _, _, hf⟩ := withApp_some h
  injection hf with hf
  exact hf.symm

/-- consequently every request in a queue of a reachable state was accepted: it is one of the issued
requests (the ghost list only `create` / `recv` extend) — a rejected instruction contributes none. -/
theorem queued_requests_were_issued {okf : Nat} {node : Int} {s : State} (h : Reach okf node s)
    (hpos : PosReqs s) (κ : Key) : ∀ r ∈ getQ s.queues κ, ∃ r0 ∈ s.issued, r0.id = r.id ∧ r0.key = κ := by
  obtain ⟨fin, hiss, _, _, _⟩ := consumed_by_oldest_in_order h hpos κ
  intro r hr
  have : reset r ∈ issuedFor s κ := by
    rw [hiss]; exact List.mem_append_right _ (List.mem_map_of_mem hr)
  simp only [issuedFor, issuedForL, List.mem_filter, decide_eq_true_eq] at this
  exact ⟨reset r, this.1, rfl, this.2⟩

/-- (v) the guard of a keep response is on the VIRTUAL qubit only: whenever the virtual qubit the head
request names for its next pair is allocated, the response is deferred — whatever physical qubit id the
response carries, in particular also when the unit module already maps that virtual qubit to the very same
physical id (a link layer with ONE communication qubit delivers every pair of a sequential request in the
same physical qubit: pair k+1 must wait until the program has freed pair k). -/
theorem busy_virtual_defers {okf : Nat} {s : State} {r : Resp} {hd : Req} {rest : List Req} {app : Nat}
    {m : AppMem} {qa : Int} {qarr : Arr} {v : Int}
    (hq : getQ s.queues (keyOf s.nodeId r) = hd :: rest) (hk : 0 ≤ hd.tot - hd.left)
    (hsub : getSub s.subs hd.sub = some app) (happ : getApp s.apps app = some m) (hK : r.ty = .K)
    (hqa : hd.qAddr = some qa) (harr : getArr m.arrays qa = some qarr)
    (hv : qarr[(hd.tot - hd.left).toNat]? = some (some v)) (hbusy : hasVirtual m v = true) :
    tryHandle okf s r = .no := by
  unfold tryHandle
  simp only [hq, hsub, happ, hK, hqa, harr, hv, hbusy]
  have : ¬ hd.tot - hd.left < 0 := by omega
  simp [this]

/-- non-vacuity, one communication qubit: a sequential receive-keep request for 2 pairs into virtual
qubit 0, both responses carry physical qubit 0. The second response stays pending while the first pair is
allocated (although the unit module already maps virtual 0 to physical 0) and is consumed after `qfree`. -/
theorem one_communication_qubit_defers :
    let acts : List Action :=
      [ .initApp 0 1, .startSub 0 0, .array 0 0 2, .store 0 0 0 (some 0), .store 0 0 1 (some 0), .array 0 1 4,
        .recv 0 7 3 (some 0) 1,
        .deliver .K 7 3 1 0 [10, 11], .deliver .K 7 3 1 0 [20, 21] ]
    ((run 2 (init 0) acts).map fun s => (s.log.map (fun e => e.resp.id), s.pending.map (·.id))) = some ([0], [1]) ∧
    ((run 2 (init 0) (acts ++ [.qfree 0 0, .poll])).map fun s =>
      (s.log.map (fun e => (e.resp.id, e.k, e.prev)), s.pending.map (·.id))) =
      some ([(0, 0, none), (1, 1, none)], []) := by
  decide

/-- (vi) a wait instruction completes (`waitOk = some true`) only if the awaited entries are defined:
all entries of the slice (wait_all), at least one (wait_any), the entry (wait_single). -/
theorem wait_sound {s : State} {sub : Nat} {addr : Int} {lo hi : Nat} :
    (waitOk s sub .all addr lo hi = some true →
      ∃ app m arr, getSub s.subs sub = some app ∧ getApp s.apps app = some m ∧
        getArr m.arrays addr = some arr ∧
        ∀ i, lo ≤ i → i < hi → i < arr.length → ∃ v, arr[i]? = some (some v)) ∧
    (waitOk s sub .any addr lo hi = some true →
      ∃ app m arr, getSub s.subs sub = some app ∧ getApp s.apps app = some m ∧
        getArr m.arrays addr = some arr ∧ ∃ i v, lo ≤ i ∧ i < hi ∧ arr[i]? = some (some v)) ∧
    (waitOk s sub .single addr lo hi = some true →
      ∃ app m arr v, getSub s.subs sub = some app ∧ getApp s.apps app = some m ∧
        getArr m.arrays addr = some arr ∧ arr[lo]? = some (some v)) :=
  ⟨waitOk_all, waitOk_any, waitOk_single⟩

/-- after a delivery or a poll nothing handleable is left pending: every response still pending has
no outstanding request for its key, or is a keep response whose virtual qubit is still allocated. -/
theorem handlePending_quiescent {okf : Nat} {s s' : State} (h : handlePending okf s = some s') :
    ∀ r ∈ s'.pending,
      getQ s'.queues (keyOf s'.nodeId r) = [] ∨
      (r.ty = .K ∧ ∃ hd rest app m qa qarr v, getQ s'.queues (keyOf s'.nodeId r) = hd :: rest ∧
        getSub s'.subs hd.sub = some app ∧ getApp s'.apps app = some m ∧ hd.qAddr = some qa ∧
        getArr m.arrays qa = some qarr ∧ qarr[(hd.tot - hd.left).toNat]? = some (some v) ∧
        hasVirtual m v = true) :=
  fun r hr => tryHandle_no (handlePending_idle h r hr)

/-! ### non-vacuity: a concrete run with deferral, two queues and retirement -/

/-- one application (2 qubits), one subroutine: a receive-keep request for 2 pairs on virtual qubits
[0, 1] while the program still holds qubit 0, and a create-measure request for 1 pair. Both keep
responses arrive early (deferred), then the measure response, then the program frees qubit 0 and the
controller polls. -/
def demo : List Action :=
  [ .initApp 0 2, .startSub 0 0,
    .array 0 0 2, .store 0 0 0 (some 0), .store 0 0 1 (some 1),   -- @0 = [0, 1]
    .array 0 1 4,                                                  -- result array (okf = 2)
    .array 0 2 2,                                                  -- result array of the M request
    .qalloc 0 0,
    .deliver .K 7 3 1 100 [10, 11],                                -- before the recv instruction ran
    .recv 0 7 3 (some 0) 1,
    .create 0 7 3 false 1 none 2,
    .deliver .K 7 3 1 101 [20, 21],
    .deliver .M 7 3 0 0 [30, 31],
    .wait 0 .all 1 0 4,
    .qfree 0 0,
    .poll,
    .wait 0 .all 1 0 4 ]

/-- the run succeeds; history = responses 2 (M), 0, 1 consumed by requests 1, 0, 0 with pair indices
0, 0, 1; nothing pending; both queues empty; the result arrays hold the slices; qubits mapped. -/
theorem scenario_nonvacuous :
    ((run 2 (init 0) demo).map fun s => s.log.map (fun e => (e.resp.id, e.req, e.k, e.prev))) =
      some [(2, 1, 0, none), (0, 0, 0, none), (1, 0, 1, none)] ∧
    ((run 2 (init 0) demo).map fun s => (s.pending.length, waitOk s 0 .all 1 0 4)) = some (0, some true) ∧
    ((run 2 (init 0) demo).map fun s => (getQ s.queues ⟨7, 3, false⟩, getQ s.queues ⟨7, 3, true⟩)) =
      some ([], []) ∧
    ((run 2 (init 0) demo).bind fun s => (getApp s.apps 0).bind fun m => getArr m.arrays 1) =
      some [some 10, some 11, some 20, some 21] ∧
    ((run 2 (init 0) demo).bind fun s => (getApp s.apps 0).bind fun m => getArr m.arrays 2) =
      some [some 30, some 31] ∧
    ((run 2 (init 0) demo).bind fun s => (getApp s.apps 0).map fun m => m.unit) =
      some [some 100, some 101] := by
  decide

/-- the same run is reachable, so the hypotheses of the trace theorems are satisfiable -/
example : ∃ s, Reach 2 0 s ∧ PosReqs s ∧ s.log.length = 3 := by
  have hrun : ∀ (acts : List Action) (s s' : State), Reach 2 0 s → run 2 s acts = some s' → Reach 2 0 s' := by
    intro acts
    induction acts with
    | nil => intro s s' hr h; simp [run] at h; subst h; exact hr
    | cons a as ih =>
      intro s s' hr h
      unfold run at h
      split at h
      · cases h
      · rename_i s1 h1
        exact ih _ _ (.step hr h1) h
  cases hd : run 2 (init 0) demo with
  | none => exact absurd hd (by decide)
  | some s =>
    refine ⟨s, hrun demo _ _ .init hd, ?_, ?_⟩
    · have : ((run 2 (init 0) demo).map fun s => decide (∀ r ∈ s.issued, 1 ≤ r.tot)) = some true := by decide
      rw [hd] at this
      simpa [PosReqs] using this
    · have : ((run 2 (init 0) demo).map fun s => s.log.length) = some 3 := by decide
      rw [hd] at this
      simpa using this

/-- while qubit 0 is allocated both keep responses are deferred (wait_all blocks) -/
example : ((run 2 (init 0) (demo.take 14)).map fun s => (s.pending.map (·.id), waitOk s 0 .all 1 0 4)) =
    some ([0, 1], some false) := by decide

/-- OBSERVATION (kept as an observation, not a violation of (i)–(vi)).
Environment assumption it depends on — LINK-LAYER ORDER: the responses of one queue (remote node,
purpose, role) are delivered in the order of the requests they answer (request 0's pairs first, then
request 1's, …; the link layer serves one (node, purpose) FIFO). Under that assumption, together with
"first handleable response wins", the response consumed by the head request is always one generated
for it whenever all requests of the queue have the same type (all keep responses of a queue wait for the
same virtual qubit, so none can overtake another).
The run below is what happens with requests of DIFFERENT types in one queue: a keep request (2 pairs,
virtual qubit busy) followed by a measure request on the same socket. The first keep response is deferred;
the measure response that answers the SECOND request arrives (in request order!) and is consumed by the
FIRST request, because it is the oldest outstanding one and a measure response needs no qubit. Every
statement (i)–(vi) holds for this run (the oldest request consumed it, slice k of its array was
filled, …); what fails is the identification "k-th response consumed by a request = k-th pair the link
layer generated for that request", which needs the one-type-per-queue side condition in addition to
link-layer order. The SDK issues such mixed sequences only if an application calls `create_keep` /
`recv_keep` with a busy virtual id and then a `*_measure` call on the same socket before the keep pairs
were delivered. -/
theorem measure_overtakes_deferred_keep :
    ((run 2 (init 0)
      [ .initApp 0 1, .startSub 0 0, .array 0 0 2, .store 0 0 0 (some 0), .store 0 0 1 (some 0),
        .array 0 1 4, .array 0 2 2,
        .qalloc 0 0,
        .create 0 7 3 true 2 (some 0) 1,       -- request 0: keep, 2 pairs, result array @1
        .create 0 7 3 false 1 none 2,          -- request 1: measure, result array @2
        .deliver .K 7 3 0 100 [10, 11],        -- deferred: virtual qubit 0 is allocated
        .deliver .M 7 3 0 0 [30, 31] ]).map fun s =>
      (s.log.map (fun e => (e.resp.id, e.req)), s.pending.map (·.id))) = some ([(1, 0)], [0]) := by
  decide

end NQ.C12
