/-
Kernel-decided obligations about the generated register-event table of the EPR API forms
(`Gen/EprRegs.lean`, written by translate/epr_regs.py from the live builder).
-/
import NetqasmVerif.Gen.EprRegs
import NetqasmVerif.Lemmas.Sdk
namespace NQ.EprRegs
open NQ.Sdk

/-- every EPR API form gives back every register it takes -/
theorem eprForms_balanced : Gen.eprForms.all (fun f => decide (heldLen 0 f.2 = some 0)) = true := by
  decide +kernel

/-- no form holds more than 10 registers at once (so it compiles with 10 free registers) -/
theorem eprForms_peak : Gen.eprForms.all (fun f => decide (peakEvs 0 f.2 ≤ 10)) = true := by
  decide +kernel

theorem eprForms_nonempty : 300 ≤ Gen.eprForms.length := by decide +kernel

end NQ.EprRegs
