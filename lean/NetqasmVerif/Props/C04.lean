/-
C04 — Executor implements the NetQASM classical semantics and faults precisely.

`Model/Exec.lean` is the reference interpreter (the specification written from the property
statement, instruction by instruction); the correspondence stream `exec` ties it to the real
`Executor` after every subroutine.  Proved here about it, for every state, every program and every
instruction (no size, depth or step bound).
-/
import NetqasmVerif.Lemmas.ExecRun
import NetqasmVerif.Props.C13
import NetqasmVerif.Lemmas.ExecAsmBridge
namespace NQ.C04
open NQ.Exec

/-! ## Faults are atomic and name the current line -/

/-- A faulting instruction leaves registers, arrays, shared memory, unit modules of *all*
applications, the used-qubit set, the reserved set and the registry unchanged.  (`usedKey` is the
`set.remove` KeyError inside `qfree`, raised after the unit module was already edited; it needs a
mapped physical id that is not marked used, which C13.reachable excludes.) -/
theorem fault_atomic (hw : Bool) (a : Nat) (i : Exec.Instr) (s s' : State) (pc : Int) (f : Fault)
    (h : step hw a i s pc = .fault s' f) (hk : f ≠ .usedKey) :
    s'.apps = s.apps ∧ s'.used = s.used ∧ s'.reserved = s.reserved ∧ s'.registry = s.registry :=
  step_fault_atomic h hk

/-- **No side condition on reachable states.**  Under the C13 invariant (which holds after every
history, `C13.reachable`) the `set.remove` KeyError cannot occur, so every fault of every
instruction is atomic. -/
theorem fault_atomic_inv (hw : Bool) (a : Nat) (i : Exec.Instr) (s s' : State) (pc : Int) (f : Fault)
    (hI : Exec.Inv s) (h : step hw a i s pc = .fault s' f) :
    s'.apps = s.apps ∧ s'.used = s.used ∧ s'.reserved = s.reserved ∧ s'.registry = s.registry := by
  apply step_fault_atomic h
  intro e
  subst e
  exact Exec.no_usedKey hw a i s s' pc hI h

/-- the property's fault clause as stated, over histories: after ANY history of operations from
the initial controller state (keep-responses delivering qubits the link layer holds), an
instruction that faults leaves registers, arrays, shared memory, unit modules and the used set of
all applications unchanged -/
theorem fault_atomic_reachable (ops : List Op) (he : C13.EnvOkAll init0 ops) (hw : Bool) (a : Nat)
    (i : Exec.Instr) (s' : State) (pc : Int) (f : Fault)
    (h : step hw a i (ops.foldl apply init0) pc = .fault s' f) :
    s'.apps = (ops.foldl apply init0).apps ∧ s'.used = (ops.foldl apply init0).used ∧
    s'.reserved = (ops.foldl apply init0).reserved ∧ s'.registry = (ops.foldl apply init0).registry :=
  fault_atomic_inv hw a i _ s' pc f (C13.reachable_from_init ops he) h

/-- … also with subroutines of several applications in flight (any interleaving) -/
theorem fault_atomic_interleaved (iops : List IOp) (he : C13.ienvOkAll sys0 iops = true) (hw : Bool)
    (a : Nat) (i : Exec.Instr) (s' : State) (pc : Int) (f : Fault)
    (h : step hw a i (iops.foldl iapply sys0).s pc = .fault s' f) :
    s'.apps = (iops.foldl iapply sys0).s.apps ∧ s'.used = (iops.foldl iapply sys0).s.used :=
  let r := fault_atomic_inv hw a i _ s' pc f (C13.reachable_interleaved iops sys0 C13.inv_init he) h
  ⟨r.1, r.2.1⟩

/-- … and for every instruction but `meas` (whose hook `_do_meas` has already run when the
outcome turns out not to fit) the complete state, trace and oracle included, is unchanged. -/
theorem fault_atomic_strict (hw : Bool) (a : Nat) (i : Exec.Instr) (s s' : State) (pc : Int) (f : Fault)
    (h : step hw a i s pc = .fault s' f) (hk : f ≠ .usedKey) (hm : ∀ q c, i ≠ .meas q c) : s' = s :=
  step_fault_eq h hk hm

/-- The line named by a fault is the program counter where execution stopped, which is the last
instruction started. -/
theorem fault_names_line (hw : Bool) (a : Nat) (prog : List Exec.Instr) (fuel : Nat) (s : State) (pc : Int)
    (f : Fault) (ln : Int) (h : (run hw a prog fuel s pc).out = .fault f (some ln)) :
    (run hw a prog fuel s pc).pc = ln ∧ (run hw a prog fuel s pc).visited.getLast? = some ln :=
  run_fault_line hw a prog fuel s pc f ln h

/-- "Execution stops at that instruction": once a fault is reported no further instruction is ever
executed, whatever the step budget — the run with any larger budget is the same run, with the same
single report, the same final program counter and the same visited lines.  (The real executor is
checked against this also with a `_handle_command_exception` hook that records and returns instead
of raising: exactly one report, the loop ends.) -/
theorem fault_stops (hw : Bool) (a : Nat) (prog : List Exec.Instr) (fuel k : Nat) (s : State) (pc : Int)
    (f : Fault) (ln : Option Int) (h : (run hw a prog fuel s pc).out = .fault f ln) :
    run hw a prog (fuel + k) s pc = run hw a prog fuel s pc :=
  Exec.run_fuel_mono hw a prog fuel k s pc (by rw [h]; simp)

/-! ### one lemma per fault cause of the statement (instruction of a registered application) -/

/-- storing an undefined value -/
theorem store_undefined_faults (hw a l pc r ad ix) (h : l.ap.regs r = none) :
    stepLoc hw a (.store r ad ix) l pc = .fault l .undefReg := by
  simp [stepLoc, h]

/-- loading an undefined array entry -/
theorem load_undefined_faults (hw a l pc r ad ix) (k : Int) (arr : List Val) (p : Nat)
    (hi : l.ap.regs ix = some k) (hf : fits hw ad = true) (ha : l.ap.arrays ad = some arr)
    (hp : pyIdx arr.length k = some p) (hv : arr[p]?.join = none) :
    stepLoc hw a (.load r ad ix) l pc = .fault l .undefEntry := by
  simp [stepLoc, hi, hf, ha, hp, hv]

/-- returning an undefined register -/
theorem ret_undefined_faults (hw a l pc r) (h : l.ap.regs r = none) :
    stepLoc hw a (.retReg r) l pc = .fault l .undefReg := by
  simp [stepLoc, h]

/-- modulus below one -/
theorem addm_bad_modulus_faults (hw a l pc d x y m) (mv : Int) (hm : l.ap.regs m = some mv) (h : mv < 1) :
    stepLoc hw a (.addm d x y m) l pc = .fault l .badModulus := by
  simp [stepLoc, arithm, hm, h]

theorem subm_bad_modulus_faults (hw a l pc d x y m) (mv : Int) (hm : l.ap.regs m = some mv) (h : mv < 1) :
    stepLoc hw a (.subm d x y m) l pc = .fault l .badModulus := by
  simp [stepLoc, arithm, hm, h]

/-- double allocation -/
theorem double_alloc_faults (hw a l pc r) (v : Int) (p q : Nat) (hr : l.ap.regs r = some v)
    (hlt : v < l.ap.unit.length) (hp : pyIdx l.ap.unit.length v = some p)
    (hq : l.ap.unit[p]?.join = some q) :
    stepLoc hw a (.qalloc r) l pc = .fault l .doubleAlloc := by
  have : ¬ v ≥ l.ap.unit.length := by omega
  simp [stepLoc, hr, this, hp, hq]

/-- freeing an unallocated qubit -/
theorem free_unallocated_faults (hw a l pc r) (v : Int) (p : Nat) (hr : l.ap.regs r = some v)
    (hp : pyIdx l.ap.unit.length v = some p) (hq : l.ap.unit[p]?.join = none) :
    stepLoc hw a (.qfree r) l pc = .fault l .notAlloc := by
  simp [stepLoc, hr, hp, hq]

/-- index past the end of an array: store, load, undef -/
theorem store_past_end_faults (hw a l pc r ad ix) (v k : Int) (arr : List Val)
    (hr : l.ap.regs r = some v) (hi : l.ap.regs ix = some k)
    (hf : (fits hw ad && fits hw v && fits hw k) = true)
    (ha : l.ap.arrays ad = some arr) (hk : (arr.length : Int) ≤ k) :
    stepLoc hw a (.store r ad ix) l pc = .fault l .index := by
  simp [stepLoc, hr, hi, hf, ha, pyIdx_past_end hk]

theorem load_past_end_faults (hw a l pc r ad ix) (k : Int) (arr : List Val)
    (hi : l.ap.regs ix = some k) (hf : fits hw ad = true)
    (ha : l.ap.arrays ad = some arr) (hk : (arr.length : Int) ≤ k) :
    stepLoc hw a (.load r ad ix) l pc = .fault l .index := by
  simp [stepLoc, hi, hf, ha, pyIdx_past_end hk]

theorem undef_past_end_faults (hw a l pc ad ix) (k : Int) (arr : List Val)
    (hi : l.ap.regs ix = some k) (hf : fits hw ad = true)
    (ha : l.ap.arrays ad = some arr) (hk : (arr.length : Int) ≤ k) :
    stepLoc hw a (.undef ad ix) l pc = .fault l .index := by
  simp [stepLoc, hi, hf, ha, pyIdx_past_end hk]

/-- hardware mode: a value that does not fit 32 bits is rejected (`_assert_within_width`,
OverflowError) by `set`, by `lea`, and by the result of `add`/`sub`; in simulation mode nothing
overflows -/
theorem set_overflow_faults (a l pc r) (v : Int) (h : v < -2147483648 ∨ 2147483647 < v) :
    stepLoc true a (.set r v) l pc = .fault l .overflow := by
  have : fits true v = false := by
    simp only [fits, Bool.not_true, Bool.false_or, Bool.and_eq_false_iff, decide_eq_false_iff_not]
    omega
  simp [stepLoc, wr, this]

theorem lea_overflow_faults (a l pc r) (ad : Int) (h : ad < -2147483648 ∨ 2147483647 < ad) :
    stepLoc true a (.lea r ad) l pc = .fault l .overflow := by
  have : fits true ad = false := by
    simp only [fits, Bool.not_true, Bool.false_or, Bool.and_eq_false_iff, decide_eq_false_iff_not]
    omega
  simp [stepLoc, wr, this]

theorem add_overflow_faults (a l pc d x y) (u v : Int) (hx : l.ap.regs x = some u)
    (hy : l.ap.regs y = some v) (h : u + v < -2147483648 ∨ 2147483647 < u + v) :
    stepLoc true a (.add d x y) l pc = .fault l .overflow := by
  have : fits true (u + v) = false := by
    simp only [fits, Bool.not_true, Bool.false_or, Bool.and_eq_false_iff, decide_eq_false_iff_not]
    omega
  simp [stepLoc, arith, wr, hx, hy, this]

theorem sim_never_overflows (v : Int) : fits false v = true := rfl

/-- a fault of the application's instruction is the controller's fault, at the same state -/
theorem fault_lifts (hw a i s pc ap f) (h : s.apps a = some ap)
    (hl : stepLoc hw a i (s.loc ap) pc = .fault (s.loc ap) f) : step hw a i s pc = .fault s f := by
  rw [step_fault_of_loc h hl, put_loc_self s a ap h]

/-! ## Frame: an instruction changes only what its semantics says -/

/-- Footprint of a successful instruction of application `a`: only the written register, the
written array, the returned shared-memory register/array slot can change; the unit module and the
used set only under `qalloc/qfree`; trace and oracle only under quantum instructions. -/
theorem step_frame (hw : Bool) (a : Nat) (i : Exec.Instr) (l l' : Loc) (pc pc' : Int)
    (h : stepLoc hw a i l pc = .ok l' pc') : Frame i l l' := stepLoc_frame h

/-- … and nothing of any other application changes (success or fault). -/
theorem step_frame_apps (hw : Bool) (a : Nat) (i : Exec.Instr) (s : State) (pc : Int) (b : Nat) (hb : b ≠ a) :
    (step hw a i s pc).st.apps b = s.apps b := step_apps_other hw a i s pc b hb

/-- the link-layer bookkeeping and the shared-memory registry are never touched by an instruction -/
theorem step_frame_global (hw : Bool) (a : Nat) (i : Exec.Instr) (s : State) (pc : Int) :
    (step hw a i s pc).st.reserved = s.reserved ∧ (step hw a i s pc).st.registry = s.registry :=
  step_reserved_registry hw a i s pc

/-- a store changes exactly one cell: same length, every other position keeps its value -/
theorem store_cell (hw a l l' pc pc' r ad ix) (h : stepLoc hw a (.store r ad ix) l pc = .ok l' pc') :
    ∃ v k arr p, l.ap.regs r = some v ∧ l.ap.regs ix = some k ∧ l.ap.arrays ad = some arr ∧
      pyIdx arr.length k = some p ∧ l'.ap.arrays ad = some (arr.set p (some v)) ∧
      (arr.set p (some v)).length = arr.length ∧ (arr.set p (some v))[p]? = some (some v) ∧
      (∀ j, j ≠ p → (arr.set p (some v))[j]? = arr[j]?) ∧ pc' = pc + 1 := by
  simp only [stepLoc] at h
  repeat' split at h
  all_goals first | (cases h; done) | skip
  rename_i v _ _ k _ _ _ arr harr _ p hp
  cases h
  refine ⟨v, k, arr, p, by assumption, by assumption, harr, hp, by simp, by simp, ?_, ?_, rfl⟩
  · have := pyIdx_lt hp
    simp [this]
  · intro j hj
    simp [Ne.symm hj]

/-! ## Arithmetic -/

theorem add_spec (hw a l pc d x y) (u v : Int) (hx : l.ap.regs x = some u) (hy : l.ap.regs y = some v)
    (hf : fits hw (u + v) = true) :
    stepLoc hw a (.add d x y) l pc = .ok { l with ap := l.ap.setReg d (u + v) } (pc + 1) := by
  simp [stepLoc, arith, wr, hx, hy, hf]

theorem sub_spec (hw a l pc d x y) (u v : Int) (hx : l.ap.regs x = some u) (hy : l.ap.regs y = some v)
    (hf : fits hw (u - v) = true) :
    stepLoc hw a (.sub d x y) l pc = .ok { l with ap := l.ap.setReg d (u - v) } (pc + 1) := by
  simp [stepLoc, arith, wr, hx, hy, hf]

/-- the residue computed by `addm/subm`: in [0, m) and congruent to the exact result, for every
modulus ≥ 1 and operands of either sign -/
theorem residue_spec (t m : Int) (hm : 1 ≤ m) : 0 ≤ t % m ∧ t % m < m ∧ m ∣ (t - t % m) := by
  refine ⟨Int.emod_nonneg _ (by omega), Int.emod_lt_of_pos _ (by omega), ?_⟩
  exact Int.dvd_self_sub_emod

theorem addm_spec (hw a l pc d x y m) (u v mv : Int) (hx : l.ap.regs x = some u)
    (hy : l.ap.regs y = some v) (hm : l.ap.regs m = some mv) (h1 : 1 ≤ mv)
    (hf : fits hw ((u + v) % mv) = true) :
    stepLoc hw a (.addm d x y m) l pc = .ok { l with ap := l.ap.setReg d ((u + v) % mv) } (pc + 1) := by
  have : ¬ mv < 1 := by omega
  simp [stepLoc, arithm, wr, hx, hy, hm, this, hf]

theorem subm_spec (hw a l pc d x y m) (u v mv : Int) (hx : l.ap.regs x = some u)
    (hy : l.ap.regs y = some v) (hm : l.ap.regs m = some mv) (h1 : 1 ≤ mv)
    (hf : fits hw ((u - v) % mv) = true) :
    stepLoc hw a (.subm d x y m) l pc = .ok { l with ap := l.ap.setReg d ((u - v) % mv) } (pc + 1) := by
  have : ¬ mv < 1 := by omega
  simp [stepLoc, arithm, wr, hx, hy, hm, this, hf]

/-- in hardware mode a residue for a 32-bit modulus always fits, so `addm` cannot overflow -/
theorem residue_fits (hw : Bool) (t m : Int) (hm : 1 ≤ m) (hfm : fits hw m = true) : fits hw (t % m) = true := by
  have ⟨h0, h1, _⟩ := residue_spec t m hm
  unfold fits at *
  cases hw <;> simp at * <;> omega

/-! ## Branches: taken ⇔ predicate; pc = target else pc + 1; any target -/

theorem jmp_spec (hw a l pc) (t : Int) : stepLoc hw a (.jmp t) l pc = .ok l t := rfl

theorem bez_spec (hw a l pc r) (t v : Int) (hr : l.ap.regs r = some v) :
    stepLoc hw a (.bez r t) l pc = .ok l (if v = 0 then t else pc + 1) := by
  by_cases h : v = 0 <;> simp [stepLoc, br, hr, h]

theorem bnz_spec (hw a l pc r) (t v : Int) (hr : l.ap.regs r = some v) :
    stepLoc hw a (.bnz r t) l pc = .ok l (if v ≠ 0 then t else pc + 1) := by
  by_cases h : v = 0 <;> simp [stepLoc, br, hr, h]

theorem beq_spec (hw a l pc x y) (t u v : Int) (hx : l.ap.regs x = some u) (hy : l.ap.regs y = some v) :
    stepLoc hw a (.beq x y t) l pc = .ok l (if u = v then t else pc + 1) := by
  by_cases h : u = v <;> simp [stepLoc, br, hx, hy, h]

theorem bne_spec (hw a l pc x y) (t u v : Int) (hx : l.ap.regs x = some u) (hy : l.ap.regs y = some v) :
    stepLoc hw a (.bne x y t) l pc = .ok l (if u ≠ v then t else pc + 1) := by
  by_cases h : u = v <;> simp [stepLoc, br, hx, hy, h]

theorem blt_spec (hw a l pc x y) (t u v : Int) (hx : l.ap.regs x = some u) (hy : l.ap.regs y = some v) :
    stepLoc hw a (.blt x y t) l pc = .ok l (if u < v then t else pc + 1) := by
  by_cases h : u < v <;> simp [stepLoc, br, hx, hy, h]

theorem bge_spec (hw a l pc x y) (t u v : Int) (hx : l.ap.regs x = some u) (hy : l.ap.regs y = some v) :
    stepLoc hw a (.bge x y t) l pc = .ok l (if u ≥ v then t else pc + 1) := by
  by_cases h : u ≥ v <;> simp [stepLoc, br, hx, hy, h]

/-- every non-branch instruction that succeeds moves to the next line -/
theorem nonbranch_pc (hw a i l l' pc pc') (hb : i.isBranch = false)
    (h : stepLoc hw a i l pc = .ok l' pc') : pc' = pc + 1 := by
  cases i <;> simp only [stepLoc, Instr.isBranch] at h hb
  all_goals first
    | (exact (wr_ok h).2.1)
    | (exact arith_ok_pc h)
    | (exact arithm_ok_pc h)
    | (cases hb; done)
    | skip
  all_goals
    repeat' split at h
  all_goals first
    | (cases h; done)
    | (exact (wr_ok h).2.1)
    | (cases h; rfl)

/-! ## Determinism and fuel -/

/-- the interpreter is a function: same inputs, same run -/
theorem run_det (hw a prog fuel s pc) (r₁ r₂ : RunOut) (h₁ : run hw a prog fuel s pc = r₁)
    (h₂ : run hw a prog fuel s pc = r₂) : r₁ = r₂ := h₁ ▸ h₂ ▸ rfl

/-- a run that finished (halted or faulted) within `fuel` steps is unchanged by any larger bound:
the step bound of the correspondence stream only cuts non-terminating programs -/
theorem run_fuel_mono (hw : Bool) (a : Nat) (prog : List Exec.Instr) (fuel k : Nat) (s : State) (pc : Int)
    (h : (run hw a prog fuel s pc).out ≠ .outOfFuel) :
    run hw a prog (fuel + k) s pc = run hw a prog fuel s pc :=
  Exec.run_fuel_mono hw a prog fuel k s pc h

/-- Repeated execution: several subroutines (each with its own step bound) run one after the other
against the same application state.  All lemmas above are state-generic, so they apply to every
subroutine of the sequence; in particular the whole sequence never touches another application. -/
def runAll (hw : Bool) (a : Nat) (subs : List (List Exec.Instr × Nat)) (s : State) : State :=
  subs.foldl (fun s pf => (run hw a pf.1 pf.2 s 0).s) s

theorem runAll_frame_apps (hw : Bool) (a : Nat) (subs : List (List Exec.Instr × Nat)) (s : State) (b : Nat)
    (hb : b ≠ a) : (runAll hw a subs s).apps b = s.apps b := by
  unfold runAll
  induction subs generalizing s with
  | nil => rfl
  | cons pf rest ih =>
    simp only [List.foldl_cons]
    rw [ih, run_apps_other hw a pf.1 pf.2 s 0 b hb]

/-- `run` (fuel) and the relational multi-step closure `XSteps` of the assembler proofs (C03)
describe the same executions of a registered application: C03's `assemble_simulates_exec`
therefore speaks about `Exec.run` (apply `run_of_xsteps` to its conclusion). -/
theorem run_iff_steps {a : Nat} {X : List Exec.Instr} (s : State) (ap : App) (hap : s.apps a = some ap)
    (pc pc' : Int) (l' : Loc) :
    NQ.Asm.XSteps a X (s.loc ap, pc) (l', pc') ↔
    ∃ n, (run false a X n s pc).s = s.put a l' ∧ (run false a X n s pc).pc = pc' ∧
      (run false a X n s pc).out = restOut X pc' ∧ (∀ v ∈ (run false a X n s pc).visited, 0 ≤ v) :=
  Exec.run_iff_steps s ap hap pc pc' l'

theorem run_of_xsteps {a : Nat} {X : List Exec.Instr} {c c' : Loc × Int} (h : NQ.Asm.XSteps a X c c')
    (s : State) (hap : s.apps a = some c.1.ap) (hloc : s.loc c.1.ap = c.1) :
    ∃ n, (run false a X n s c.2).s = s.put a c'.1 ∧ (run false a X n s c.2).pc = c'.2 ∧
      (run false a X n s c.2).out = restOut X c'.2 ∧ (∀ v ∈ (run false a X n s c.2).visited, 0 ≤ v) :=
  Exec.run_of_xsteps h s hap hloc

/-! ## Returned values -/

/-- `ret_reg` puts the register's current value into the shared memory … -/
theorem ret_reg_spec (hw a l pc r) (v : Int) (hr : l.ap.regs r = some v) (hf : fits hw v = true) :
    ∃ l', stepLoc hw a (.retReg r) l pc = .ok l' (pc + 1) ∧ l'.ap.shmRegs r = some v ∧
      l'.ap.regs = l.ap.regs := by
  refine ⟨{ l with ap := { l.ap with shmRegs := upd l.ap.shmRegs r (some v) } }, ?_, by simp, rfl⟩
  simp [stepLoc, hr, hf]

/-- … as a copy: no later instruction other than a `ret_reg` of the same register changes it -/
theorem ret_reg_copy (hw a i l l' pc pc' r) (h : stepLoc hw a i l pc = .ok l' pc')
    (hi : i ≠ .retReg r) : l'.ap.shmRegs r = l.ap.shmRegs r := by
  apply (stepLoc_frame h).shmRegs
  intro hc
  cases i <;> simp [Instr.wshmReg] at hc
  subst hc; exact hi rfl

/-- `ret_arr`, provable part: right after the instruction the host sees the array's current value.

Full statement (FALSE for the code, finding F25): "… and it is a copy: no later instruction other
than `ret_arr` of the same address changes what the host sees".  The real `ret_arr` stores the
executor's own list object in the shared memory, so later `store`/`undef` (and entanglement
results) show through — see `ret_arr_alias_counterexample`. -/
theorem ret_arr_spec_partial (hw a l pc ad) (arr : List Val) (ha : l.ap.arrays ad = some arr)
    (hf : fits hw ad = true) :
    ∃ l', stepLoc hw a (.retArr ad) l pc = .ok l' (pc + 1) ∧ l'.ap.shmArr ad = some arr := by
  refine ⟨{ l with ap := { l.ap with shmArrs := upd l.ap.shmArrs ad (some .live) } }, ?_, ?_⟩
  · simp [stepLoc, ha, hf]
  · simp [App.shmArr, ha]

/-- the copy property does hold from the moment the address is re-declared with `array` … -/
theorem ret_arr_frozen_partial (hw a i l l' pc pc' ad) (v : List Val) (hfz : l.ap.shmArrs ad = some (.frozen v))
    (h : stepLoc hw a i l pc = .ok l' pc') (hi : i ≠ .retArr ad) : l'.ap.shmArr ad = some v := by
  have hfr := stepLoc_frame h
  by_cases hw' : i.wshmArr = some ad
  · cases i <;> simp [Instr.wshmArr] at hw'
    · subst hw'
      simp only [stepLoc] at h
      repeat' split at h
      all_goals first | (cases h; done) | skip
      cases h
      simp [App.shmArr, freeze, hfz]
    · subst hw'; exact absurd rfl hi
  · have := hfr.shmArrs ad hw'
    simp [App.shmArr, this, hfz]

def r0 : XReg := ⟨0, 0⟩
def r1 : XReg := ⟨0, 1⟩

/-- F25 witness: `array`(1) `ret_arr @0`, then a `store` — the host-visible array changes from
`[none]` to `[some 7]` although nothing was returned after the store. -/
theorem ret_arr_alias_counterexample :
    let s0 := (initApp init0 0 1).1
    let s1 := (run false 0 [.set r0 1, .array r0 0, .retArr 0] 10 s0 0).s
    let s2 := (run false 0 [.set r0 0, .set r1 7, .store r1 0 r0] 10 s1 0).s
    ((s1.apps 0).bind (fun ap => ap.shmArr 0)) = some [none] ∧
    ((s2.apps 0).bind (fun ap => ap.shmArr 0)) = some [some 7] := by
  decide

/-! ## Positive semantics of the remaining instructions (what the statement enumerates) -/

theorem set_spec (hw a l pc r) (v : Int) (hf : fits hw v = true) :
    stepLoc hw a (.set r v) l pc = .ok { l with ap := l.ap.setReg r v } (pc + 1) := by
  simp [stepLoc, wr, hf]

theorem lea_spec (hw a l pc r) (ad : Int) (hf : fits hw ad = true) :
    stepLoc hw a (.lea r ad) l pc = .ok { l with ap := l.ap.setReg r ad } (pc + 1) := by
  simp [stepLoc, wr, hf]

/-- `load`: Python indexing — `k` in `[-len, len)`, negative `k` counts from the end -/
theorem load_spec (hw a l pc r ad ix) (k v : Int) (arr : List Val) (p : Nat)
    (hi : l.ap.regs ix = some k) (hfa : fits hw ad = true) (ha : l.ap.arrays ad = some arr)
    (hp : pyIdx arr.length k = some p) (hv : arr[p]?.join = some v) (hfv : fits hw v = true) :
    stepLoc hw a (.load r ad ix) l pc = .ok { l with ap := l.ap.setReg r v } (pc + 1) := by
  simp [stepLoc, wr, hi, hfa, ha, hp, hv, hfv]

theorem undef_spec (hw a l pc ad ix) (k : Int) (arr : List Val) (p : Nat)
    (hi : l.ap.regs ix = some k) (hfa : fits hw ad = true) (ha : l.ap.arrays ad = some arr)
    (hp : pyIdx arr.length k = some p) :
    stepLoc hw a (.undef ad ix) l pc =
      .ok { l with ap := { l.ap with arrays := upd l.ap.arrays ad (some (arr.set p none)) } } (pc + 1) := by
  simp [stepLoc, hi, hfa, ha, hp]

/-- `array`: a fresh array of `n` undefined entries (none for `n ≤ 0`); registers untouched -/
theorem array_spec (hw a l pc sz ad) (n : Int) (hs : l.ap.regs sz = some n) (hfa : fits hw ad = true) :
    ∃ l', stepLoc hw a (.array sz ad) l pc = .ok l' (pc + 1) ∧
      l'.ap.arrays ad = some (List.replicate n.toNat none) ∧ l'.ap.regs = l.ap.regs := by
  refine ⟨{ l with ap := { l.ap with arrays := upd l.ap.arrays ad (some (List.replicate n.toNat none)),
                                      shmArrs := upd l.ap.shmArrs ad (freeze l.ap ad) } }, ?_, by simp, rfl⟩
  simp [stepLoc, hs, hfa]

/-- `qalloc` bookkeeping: the free virtual slot gets the smallest unused physical qubit, which
becomes used; nothing else changes -/
theorem qalloc_spec (hw a l pc r) (v : Int) (p : Nat) (hr : l.ap.regs r = some v)
    (hlt : v < l.ap.unit.length) (hp : pyIdx l.ap.unit.length v = some p)
    (hn : l.ap.unit[p]?.join = none) :
    stepLoc hw a (.qalloc r) l pc =
      .ok { l with ap := { l.ap with unit := l.ap.unit.set p (some (firstUnused l.used)) },
                   used := sadd (firstUnused l.used) l.used } (pc + 1)
    ∧ firstUnused l.used ∉ l.used := by
  have : ¬ v ≥ l.ap.unit.length := by omega
  exact ⟨by simp [stepLoc, hr, this, hp, hn], firstUnused_not_mem _⟩

/-- `qfree` bookkeeping: the slot is cleared and its physical qubit is no longer used -/
theorem qfree_spec (hw a l pc r) (v : Int) (p q : Nat) (hr : l.ap.regs r = some v)
    (hp : pyIdx l.ap.unit.length v = some p) (hq : l.ap.unit[p]?.join = some q) (hm : q ∈ l.used) :
    stepLoc hw a (.qfree r) l pc =
      .ok { l with ap := { l.ap with unit := l.ap.unit.set p none }, used := srem q l.used } (pc + 1)
    ∧ q ∉ srem q l.used := by
  exact ⟨by simp [stepLoc, hr, hp, hq, hm], by simp [mem_srem]⟩

/-- `meas`: the scripted outcome lands in the classical register, one trace event is recorded -/
theorem meas_spec (hw a l pc q c) (v : Int) (hq : l.ap.regs q = some v) (hf : fits hw (l.oracle.headD 0) = true) :
    ∃ l', stepLoc hw a (.meas q c) l pc = .ok l' (pc + 1) ∧ l'.ap.regs c = some (l.oracle.headD 0) ∧
      l'.oracle = l.oracle.tail ∧ l'.trace = l.trace ++ [⟨a, "meas", [v]⟩] := by
  refine ⟨{ (ev { l with oracle := l.oracle.tail } a "meas" [v]) with ap := l.ap.setReg c (l.oracle.headD 0) },
    ?_, by simp [App.setReg], rfl, rfl⟩
  simp only [stepLoc, hq]
  rw [if_pos hf]

/-- in hardware mode whatever an instruction writes into a register fits 32 bits -/
theorem hw_written_fits (a i l l' pc pc' r) (h : stepLoc true a i l pc = .ok l' pc') (hr : i.wreg = some r) :
    ∃ v, l'.ap.regs r = some v ∧ -2147483648 ≤ v ∧ v ≤ 2147483647 := by
  have key : ∀ {l pc r v l' pc'}, wr true l pc r v = .ok l' pc' →
      ∃ v, l'.ap.regs r = some v ∧ -2147483648 ≤ v ∧ v ≤ 2147483647 := by
    intro l pc r v l' pc' hw
    obtain ⟨h1, _, h3⟩ := wr_ok hw
    subst h1
    refine ⟨v, by simp [App.setReg], ?_⟩
    simpa [fits] using h3
  cases i <;> simp only [Instr.wreg] at hr <;> cases hr <;> simp only [stepLoc] at h
  all_goals (try unfold arith at h)
  all_goals (try unfold arithm at h)
  all_goals repeat' split at h
  all_goals first | exact key h | (cases h; done) | skip
  rename_i hfit
  cases h
  refine ⟨l.oracle.headD 0, by simp [App.setReg], ?_⟩
  simpa [fits] using hfit

/-! ## Non-vacuity: the hypotheses above are satisfiable by concrete instances -/

def demoLoc : Loc :=
  ⟨{ freshApp 2 with regs := upd (upd (fun _ => none) r0 (some (-7))) r1 (some 3),
                     arrays := upd (fun _ => none) 0 (some [none, some 4]) }, [], [], []⟩

example : stepLoc false 0 (.addm r0 r0 r0 r1) demoLoc 5
    = .ok { demoLoc with ap := demoLoc.ap.setReg r0 ((-7 + -7) % 3) } 6 :=
  addm_spec false 0 demoLoc 5 r0 r0 r0 r1 (-7) (-7) 3 (by decide) (by decide) (by decide) (by decide) (by decide)

example : ((-7 + -7) % 3 : Int) = 1 := by decide

example : stepLoc false 0 (.load r0 0 r1) demoLoc 0 = .fault demoLoc .index :=
  load_past_end_faults false 0 demoLoc 0 r0 0 r1 3 [none, some 4] (by decide) (by decide) (by decide) (by decide)

example : stepLoc false 0 (.blt r0 r1 (-4)) demoLoc 9 = .ok demoLoc (-4) := by
  have := blt_spec false 0 demoLoc 9 r0 r1 (-4) (-7) 3 (by decide) (by decide)
  simpa using this

example : (run false 0 [.set r0 1, .qalloc r0, .qalloc r0] 10 (initApp init0 0 2).1 0).out
    = .fault .doubleAlloc (some 2) := by decide

example : stepLoc false 0 (.load r0 0 r1) { demoLoc with ap := demoLoc.ap.setReg r1 (-1) } 0
    = .ok { demoLoc with ap := (demoLoc.ap.setReg r1 (-1)).setReg r0 4 } 1 :=
  -- negative index: `@0[-1]` is the last entry
  load_spec false 0 _ 0 r0 0 r1 (-1) 4 [none, some 4] 1 (by decide) (by decide) (by decide) (by decide)
    (by decide) (by decide)

end NQ.C04
