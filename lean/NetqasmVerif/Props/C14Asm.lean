/-
C14, second sentence, at the assembler: "Temporaries used inside one operation never overwrite a
register that still holds a live value."

`temps_disjoint` / `temps_disjoint_code` (Props/C14.lean) are about the temporaries the BUILDER picks.
The assembler picks temporaries too: `_replace_constants` loads every constant operand into a scratch
register, the lowest `R i` that is neither named by the subroutine nor in the set of
`reserved_registers` the builder hands over (`Asm.pickScratch`, C03).  A register that is live ACROSS
flushes (`Builder.new_register`) is named by the subroutine that creates it but not necessarily by later
ones — there it is protected only by the reserved set.  These theorems speak about the set actually
handed to the assembler, `C05.reservedOf m` = the ACTIVE registers of the memory manager at the flush
(builder.py `subrt_compile_subroutine`; the harness compares this set with the real builder's on every
executed flush):

* `assembler_scratch_not_live`   — a scratch register picked for a subroutine assembled with
  `reservedOf m` is none of the registers active in `m`;
* `live_registers_survive_assembly` — hence C03's agreement "outside scratch registers" between the
  source-level run and the assembled run includes every active register;
* `reserved_to_return_insufficient` — the set of registers TO RETURN instead (cleared at every flush
  while the register stays active) does not protect: after `new_register(); flush` register R0 is
  active, the to-return list is empty, and the assembler's pick for a later subroutine with a constant
  is R0 (the seeded change C14_12, as an evaluated witness).
-/
import NetqasmVerif.Props.C05Chain2
namespace NQ.C14
open NQ

/-- **`assembler_scratch_not_live`.**  Whatever the subroutine `P` and the temporaries `tmp` already in
use: a scratch register the assembler picks, when the builder reserves the registers active in `m`, is
not a register active in `m`. -/
theorem assembler_scratch_not_live (m : Sdk.Mem) (P : List Asm.PCmd) (tmp : List Reg) (n : Nat) (r : Reg)
    (h : Asm.pickScratch n (Asm.currentRegisters P ++ C05.reservedOf m) tmp = some r) :
    ∀ i, m.active.getD i false = true → r ≠ Bridge.cvReg (Sdk.R i) := by
  intro i hi e
  obtain ⟨⟨_, _, _, hnot⟩, _⟩ := Asm.pickScratch_spec h
  exact hnot (List.mem_append_right _ (e ▸ C05.mem_reservedOf hi))

/-- **`live_registers_survive_assembly`.**  Two machine states that agree outside the scratch registers
of a subroutine assembled with `reservedOf m` (the conclusion of C03's `assemble_simulates` for the
source-level run and the assembled run) agree on every register active in `m`. -/
theorem live_registers_survive_assembly {M : Type} (m : Sdk.Mem) (P : List Asm.PCmd) (n : Nat)
    {s t : Asm.State M} (hag : Asm.AgreeOutsideScratch n P s t (C05.reservedOf m)) :
    ∀ i, m.active.getD i false = true → s.regs (Bridge.cvReg (Sdk.R i)) = t.regs (Bridge.cvReg (Sdk.R i)) := by
  intro i hi
  refine hag.2 _ ?_
  exact C05.prot_not_scratch (act := m.active) (mu := []) (r := Sdk.R i)
    (Or.inl ⟨rfl, by simpa [Sdk.R] using hi⟩) (fun j hj => C05.mem_reservedOf hj)

/-- the memory manager after `new_register(7); flush` -/
def afterNewRegFlush : Sdk.Mem := (Sdk.run [.op (.newReg 7), .flush]).mem

/-- a later subroutine that contains a constant and does not mention R0: `store 5 @0[1]` -/
def laterSub : List Asm.PCmd := Bridge.tr [.instr .store [.lit 5, .entryL 0 1]]

/-- **`reserved_to_return_insufficient`** (evaluated): after `new_register(); flush` R0 is active and
nothing is left to return; reserving the registers to return lets the assembler pick R0 for the constant
of a later subroutine, reserving the active registers makes it pick R1. -/
theorem reserved_to_return_insufficient :
    afterNewRegFlush.active.getD 0 false = true ∧ afterNewRegFlush.regsToReturn = [] ∧
    Asm.pickScratch Gen.numScratch
      (Asm.currentRegisters laterSub ++ afterNewRegFlush.regsToReturn.map Bridge.cvReg) [] = some (Bridge.cvReg (Sdk.R 0)) ∧
    Asm.pickScratch Gen.numScratch
      (Asm.currentRegisters laterSub ++ C05.reservedOf afterNewRegFlush) [] = some (Bridge.cvReg (Sdk.R 1)) := by
  decide +kernel

end NQ.C14
