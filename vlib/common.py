"""Shared plumbing for the /verif checks: paths, repo import, Lean build/audit,
model driver, evidence and known-findings handling."""
import fcntl
import hashlib
import json
import os
import random
import re
import subprocess
import sys
import time

VERIF = os.path.dirname(os.path.dirname(os.path.abspath(__file__)))
REPO = os.environ.get("NETQASM_REPO", "/repo")
LEAN_DIR = os.path.join(VERIF, "lean")
GEN_DIR = os.path.join(LEAN_DIR, "NetqasmVerif", "Gen")
DRIVER_BIN = os.path.join(LEAN_DIR, ".lake", "build", "bin", "nqdriver")
EVIDENCE_DIR = os.path.join(VERIF, "evidence")
REPLAY_DIR = os.path.join(VERIF, "replays")
KNOWN_FINDINGS = os.path.join(VERIF, "known_findings.json")
ALLOWED_AXIOMS = {"propext", "Classical.choice", "Quot.sound"}
GUARD = "NETQASM_VERIF"


def use_repo():
    """Make `import netqasm` resolve to the working tree of REPO."""
    os.environ.setdefault(GUARD, "1")
    if REPO not in sys.path:
        sys.path.insert(0, REPO)
    import netqasm  # noqa

    path = os.path.dirname(os.path.abspath(netqasm.__file__))
    if not path.startswith(os.path.abspath(REPO)):
        raise RuntimeError(f"netqasm imported from {path}, expected under {REPO}")


class Rng(random.Random):
    pass


def seed_from_env():
    try:
        return int(os.environ.get("VERIF_SEED", "0"))
    except ValueError:
        return 0


# ---------------------------------------------------------------- Lean emission


def lean_str(s):
    out = ['"']
    for ch in s:
        if ch == '"':
            out.append('\\"')
        elif ch == "\\":
            out.append("\\\\")
        elif ch == "\n":
            out.append("\\n")
        else:
            out.append(ch)
    out.append('"')
    return "".join(out)


def lean_int(n):
    return str(n) if n >= 0 else f"({n})"


def lean_list(items):
    return "[" + ", ".join(items) + "]"


def write_if_changed(path, content):
    try:
        with open(path) as f:
            if f.read() == content:
                return False
    except FileNotFoundError:
        pass
    os.makedirs(os.path.dirname(path), exist_ok=True)
    tmp = path + ".tmp%d" % os.getpid()
    with open(tmp, "w") as f:
        f.write(content)
    os.replace(tmp, path)
    return True


# ---------------------------------------------------------------- lake


class BuildLock:
    def __enter__(self):
        self.f = open(os.path.join(LEAN_DIR, ".verif-build.lock"), "w")
        fcntl.flock(self.f, fcntl.LOCK_EX)
        return self

    def __exit__(self, *a):
        fcntl.flock(self.f, fcntl.LOCK_UN)
        self.f.close()


def lake_build(targets, timeout=3000):
    """Returns (ok, output)."""
    cmd = ["lake", "build"] + list(targets)
    p = subprocess.run(cmd, cwd=LEAN_DIR, capture_output=True, text=True, timeout=timeout)
    return p.returncode == 0, p.stdout + p.stderr


def parse_build_errors(output):
    """Extract `file:line:col: message` error heads from lake output."""
    errs = []
    for m in re.finditer(r"^error: (\S+?):(\d+):(\d+): (.*)$", output, re.M):
        errs.append({"file": m.group(1), "line": int(m.group(2)), "msg": m.group(4)[:300]})
    return errs


def enclosing_decl(path, line):
    """Name of the theorem/def enclosing a line of a Lean file (best effort)."""
    try:
        with open(os.path.join(LEAN_DIR, path)) as f:
            lines = f.read().split("\n")
    except OSError:
        return None
    for i in range(min(line, len(lines)) - 1, -1, -1):
        m = re.match(r"\s*(?:private |protected |@\[[^\]]*\]\s*)*(theorem|lemma|def|example|instance)\s+(\S+)?", lines[i])
        if m:
            return m.group(2) or "example"
    return None


def audit_axioms(prop, theorems, timeout=1200):
    """`#print axioms` for each theorem. Returns dict name -> list of axioms, or
    None for names that failed."""
    mods = sorted({t[0] for t in theorems})
    src = "".join(f"import {m}\n" for m in mods)
    src += "".join(f"#print axioms {t[1]}\n" for t in theorems)
    path = os.path.join(LEAN_DIR, f".audit_{prop}_{os.getpid()}.lean")
    with open(path, "w") as f:
        f.write(src)
    try:
        p = subprocess.run(["lake", "env", "lean", path], cwd=LEAN_DIR, capture_output=True,
                           text=True, timeout=timeout)
    finally:
        os.unlink(path)
    out = p.stdout + p.stderr
    res = {}
    for m in re.finditer(r"'([^']+)' depends on axioms: \[([^\]]*)\]", out, re.S):
        res[m.group(1)] = [a.strip() for a in m.group(2).replace("\n", " ").split(",") if a.strip()]
    for m in re.finditer(r"'([^']+)' does not depend on any axioms", out):
        res[m.group(1)] = []
    return res, out


FORBIDDEN = re.compile(r"\bsorry\b|\badmit\b|^\s*axiom\s|native_decide|bv_decide|implemented_by|\bunsafe\s|maxHeartbeats 0")


def grep_forbidden():
    """Forbidden constructs outside comments in the Lean sources."""
    hits = []
    root = os.path.join(LEAN_DIR, "NetqasmVerif")
    for d, _, fs in os.walk(root):
        for fn in fs:
            if not fn.endswith(".lean"):
                continue
            p = os.path.join(d, fn)
            text = open(p).read()
            text = re.sub(r"/-.*?-/", lambda m: "\n" * m.group(0).count("\n"), text, flags=re.S)
            for i, line in enumerate(text.split("\n"), 1):
                line = line.split("--")[0]
                if FORBIDDEN.search(line):
                    hits.append(f"{os.path.relpath(p, LEAN_DIR)}:{i}: {line.strip()[:120]}")
    return hits


# ---------------------------------------------------------------- driver


class Driver:
    """Line protocol with the compiled Lean model (one JSON request per line)."""

    def __init__(self):
        if not os.path.exists(DRIVER_BIN):
            raise RuntimeError("model driver not built: " + DRIVER_BIN)
        self.p = subprocess.Popen([DRIVER_BIN], stdin=subprocess.PIPE, stdout=subprocess.PIPE,
                                  text=True, bufsize=1 << 20)

    def batch(self, requests):
        """Send all requests, read all answers (the driver answers line by line). A writer
        thread feeds stdin while this thread reads, so request/answer sizes never deadlock."""
        if not requests:
            return []
        import threading

        data = "".join(json.dumps(r, separators=(",", ":")) + "\n" for r in requests)
        err = []

        def feed():
            try:
                self.p.stdin.write(data)
                self.p.stdin.flush()
            except Exception as e:  # pragma: no cover
                err.append(e)

        t = threading.Thread(target=feed, daemon=True)
        t.start()
        out = []
        for _ in requests:
            line = self.p.stdout.readline()
            if not line:
                raise RuntimeError("model driver died" + (f": {err[0]}" if err else ""))
            out.append(json.loads(line))
        t.join()
        return out

    def call(self, request):
        return self.batch([request])[0]

    def close(self):
        try:
            self.p.stdin.close()
            self.p.wait(timeout=10)
        except Exception:
            self.p.kill()


# ---------------------------------------------------------------- findings / evidence


def load_known_findings(prop):
    try:
        with open(KNOWN_FINDINGS) as f:
            data = json.load(f)
    except FileNotFoundError:
        return []
    return [k for k in data.get("findings", []) if k.get("property") == prop and k.get("status") == "open"]


def write_replay(prop, payload):
    d = os.path.join(REPLAY_DIR, prop)
    os.makedirs(d, exist_ok=True)
    blob = json.dumps(payload, indent=1, sort_keys=True, default=str)
    h = hashlib.sha1(blob.encode()).hexdigest()[:12]
    path = os.path.join(d, h + ".json")
    with open(path, "w") as f:
        f.write(blob)
    return path


def write_evidence(prop, data):
    os.makedirs(EVIDENCE_DIR, exist_ok=True)
    path = os.path.join(EVIDENCE_DIR, prop + ".json")
    with open(path, "w") as f:
        json.dump(data, f, indent=1, default=str)
    return path


class Timer:
    def __init__(self):
        self.t0 = time.time()

    def s(self):
        return round(time.time() - self.t0, 2)
