#!/bin/bash
# Builds the Lean project (models, lemmas, property theorems, driver) offline.
set -e
cd "$(dirname "$0")"
export NETQASM_VERIF=1
# regenerate the data translated from /repo so that the build matches the current tree
/venv/bin/python tools/translate_all.py
cd lean
lake build NetqasmVerif nqdriver $(/venv/bin/python ../tools/all_targets.py)
