"""Translator T1b: layouts of the instruction `Command` structs -> Gen/CmdLayouts.lean

For every instruction class of every flavour:
  * which ctypes struct of netqasm/lang/encoding.py its `serialize()` builds and its
    `deserialize_from()` reads (recorded by temporarily substituting recording subclasses for the
    struct names in the `encoding` module);
  * the flattened leaf layout of that struct from the ctypes descriptors (byte offset, size,
    bit-field offset/width, signedness; nested Register/Address/ArrayEntry/ArraySlice flattened,
    padding arrays element by element), as bit ranges in the little-endian numbering of the buffer;
  * which operand component (slot, part) feeds which leaf when encoding, and which leaf feeds which
    component when decoding — derived by probing the real class with one non-zero component / one
    non-zero leaf at a time.
The Lean side decides that every generated layout IS the canonical sequential layout of the
class's shape (`cmd_layouts_canonical`); `generic_pack_eq_model` then shows that packing with the
generated layout equals the model codec for all operand values.
"""
import ctypes
import os

from translate import instr_table as IT
from vlib import common

PARTS = {"reg": ["bank0", "idx0"], "imm8": ["val"], "int32": ["val"], "addr": ["val"],
         "entry": ["val", "bank0", "idx0"], "slice": ["val", "bank0", "idx0", "bank1", "idx1"]}
# the sub-component names of instr_table.make_operand for (kind, part)
SUB = {("reg", "bank0"): "bank", ("reg", "idx0"): "idx"}


def is_signed(ctype):
    return ctype(-1).value < 0


def leaves(cls, base_bit=0, prefix=()):
    """[(path, start bit, width, signed)] in declaration order; arrays element by element"""
    out = []
    seen = set()
    for klass in reversed(cls.__mro__):
        for f in klass.__dict__.get("_fields_", []):
            name, ctype = f[0], f[1]
            if name in seen:
                raise ValueError(f"field {name} declared twice in {cls}")
            seen.add(name)
            d = getattr(cls, name)
            if isinstance(ctype, type) and issubclass(ctype, ctypes.Structure):
                out += leaves(ctype, base_bit + 8 * d.offset, prefix + (name,))
            elif isinstance(ctype, type) and issubclass(ctype, ctypes.Array):
                et = ctype._type_
                if isinstance(et, type) and issubclass(et, (ctypes.Structure, ctypes.Array)):
                    raise ValueError(f"array of aggregates in {cls}.{name}")
                esz = ctypes.sizeof(et)
                for k in range(ctype._length_):
                    out.append((prefix + (f"{name}[{k}]",), base_bit + 8 * (d.offset + k * esz), 8 * esz,
                                is_signed(et)))
            elif len(f) == 3:
                width, bitofs = d.size >> 16, d.size & 0xFFFF
                if width != f[2]:
                    raise ValueError(f"bit-field descriptor of {cls}.{name} not understood")
                out.append((prefix + (name,), base_bit + 8 * d.offset + bitofs, width, is_signed(ctype)))
            else:
                out.append((prefix + (name,), base_bit + 8 * d.offset, 8 * d.size, is_signed(ctype)))
    return out


def read_leaf(obj, path):
    for p in path:
        if p.endswith("]"):
            nm, k = p[:-1].split("[")
            obj = getattr(obj, nm)[int(k)]
        else:
            obj = getattr(obj, p)
    return int(obj)


def structs_used(c, zero_args, E):
    """(struct built by serialize, struct read by deserialize_from) of instruction class c"""
    used = {"ser": [], "des": []}
    names = [n for n in dir(E) if isinstance(getattr(E, n), type) and issubclass(getattr(E, n), E.Command)
             and getattr(E, n) is not E.Command]
    saved = {n: getattr(E, n) for n in names}
    try:
        for n, S in saved.items():
            def make(S=S):
                class Rec(S):
                    def __init__(self, *a, **kw):
                        used["ser"].append(S)
                        super().__init__(*a, **kw)

                    @classmethod
                    def from_buffer_copy(cls, raw, *a):
                        used["des"].append(S)
                        return S.from_buffer_copy(raw, *a)
                Rec.__name__ = S.__name__
                return Rec
            setattr(E, n, make())
        raw = bytes(c(**zero_args).serialize())
        used["ser"] = list(used["ser"])
        c.deserialize_from(raw)
    finally:
        for n, S in saved.items():
            setattr(E, n, S)
    if len(set(used["ser"])) != 1 or len(set(used["des"])) != 1:
        raise ValueError(f"{c}: cannot identify its command struct: {used}")
    return used["ser"][0], used["des"][0]


def probe_value(part, width_hint=None):
    return {"bank0": 3, "bank1": 2, "idx0": 9, "idx1": 6, "val": 77}[part]


def operand_with(kind, part, v, op, RN):
    def reg(b, i):
        return op.Register(RN(b), i)
    b0 = v if part == "bank0" else 0
    i0 = v if part == "idx0" else 0
    b1 = v if part == "bank1" else 0
    i1 = v if part == "idx1" else 0
    a = v if part == "val" else 0
    if kind == "reg":
        return reg(b0, i0)
    if kind in ("imm8", "int32"):
        return op.Immediate(a)
    if kind == "addr":
        return op.Address(a)
    if kind == "entry":
        return op.ArrayEntry(op.Address(a), reg(b0, i0))
    return op.ArraySlice(op.Address(a), reg(b0, i0), reg(b1, i1))


def part_values(kind, o):
    if kind == "reg":
        return {"bank0": o.name.value, "idx0": o.index}
    if kind in ("imm8", "int32"):
        return {"val": o.value}
    if kind == "addr":
        return {"val": o.address}
    if kind == "entry":
        return {"val": o.address.address, "bank0": o.index.name.value, "idx0": o.index.index}
    return {"val": o.address.address, "bank0": o.start.name.value, "idx0": o.start.index,
            "bank1": o.stop.name.value, "idx1": o.stop.index}


def collect():
    op, RN, fl = IT._imports()
    from netqasm.lang import encoding as E
    core = list(fl.CORE_INSTRUCTIONS)
    classes = []
    for c in core + [c for F in (fl.VanillaFlavour, fl.NVFlavour, fl.REIDSFlavour) for c in F().instrs]:
        if c not in classes:
            classes.append(c)
    out = []
    for c in classes:
        shape = IT.shape_of(c, op, RN)
        fs = IT.operand_fields(c)
        zero = {f.name: IT.zero_operand(k, op, RN) for f, k in zip(fs, shape)}
        S_ser, S_des = structs_used(c, zero, E)
        if S_ser is not S_des:
            raise ValueError(f"{c.__name__}: serialize builds {S_ser.__name__}, deserialize reads {S_des.__name__}")
        lv = leaves(S_ser)
        if lv != sorted(lv, key=lambda x: x[1]):
            raise ValueError(f"leaves of {S_ser.__name__} are not in increasing bit position")
        base = S_ser.from_buffer_copy(bytes(c(**zero).serialize()))
        base_vals = [read_leaf(base, p) for p, _, _, _ in lv]
        # encode direction: which leaf does each (slot, part) feed
        feed = {}
        for j, kind in enumerate(shape):
            for part in PARTS[kind]:
                v = probe_value(part)
                args = dict(zero)
                args[fs[j].name] = operand_with(kind, part, v, op, RN)
                st = S_ser.from_buffer_copy(bytes(c(**args).serialize()))
                vals = [read_leaf(st, p) for p, _, _, _ in lv]
                changed = [k for k, (a, b) in enumerate(zip(base_vals, vals)) if a != b]
                if len(changed) != 1 or vals[changed[0]] != v:
                    raise ValueError(f"{c.__name__}: operand {j}.{part} does not feed exactly one leaf: {changed}")
                if changed[0] in feed:
                    raise ValueError(f"{c.__name__}: leaf {changed[0]} fed twice")
                feed[changed[0]] = (j, part)
        # the opcode leaf
        idk = [k for k, (p, _, _, _) in enumerate(lv) if base_vals[k] == c.id and p == ("id",)]
        if idk != [0]:
            raise ValueError(f"{c.__name__}: opcode is not the first leaf")
        # decode direction: which (slot, part) does each leaf feed
        raw0 = bytes(c(**zero).serialize())
        for k, (p, start, width, signed) in enumerate(lv):
            if k == 0:
                continue
            raw = bytearray(raw0)
            raw[start // 8] |= 1 << (start % 8)          # lowest bit of the leaf
            inst = c.deserialize_from(bytes(raw))
            got = []
            for j, kind in enumerate(shape):
                for part, val in part_values(kind, inst.operands[j]).items():
                    if val != 0:
                        got.append((j, part, val))
            want = [(feed[k][0], feed[k][1], 1)] if k in feed else []
            if got != want:
                raise ValueError(f"{c.__name__}: decode of leaf {k} gives {got}, encode map says {want}")
        groups = [[] for _ in shape]
        pads = []
        last_slot = -1
        for k, leaf in enumerate(lv):
            if k == 0:
                continue
            if k in feed:
                j, part = feed[k]
                # operands laid out in another order than declared are NOT rejected here: the groups
                # are emitted per slot and the kernel obligation `cmd_layouts_canonical` fails
                last_slot = max(last_slot, j)
                groups[j].append((leaf, part))
            else:
                # an unfed leaf inside the bytes of an operand struct (Register.padding) belongs to that
                # operand's group; unfed leaves after the last fed leaf are the trailing padding
                later_fed = [kk for kk in feed if kk > k]
                if later_fed or (last_slot >= 0 and leaf[0][0] != "padding" and not leaf[0][0].startswith("padding[")):
                    groups[max(last_slot, 0)].append((leaf, "zero"))
                else:
                    pads.append(leaf)
        out.append((c, S_ser, ctypes.sizeof(S_ser), lv[0], groups, pads))
    return out


def lean_field(leaf):
    _, start, width, signed = leaf
    return '⟨"", %d, %d, %s⟩' % (start, width, "true" if signed else "false")


def generate():
    data = collect()
    L = ["/- GENERATED by translate/cmd_layouts.py from /repo — do not edit.",
         "   Field names are kept in the comments only (the Lean fields carry the empty name, so that a",
         "   generated layout can be compared with the canonical one by plain equality). -/",
         "import NetqasmVerif.Model.CmdPack", "namespace NQ.Gen", "open NQ.Cmd NQ.Msg", ""]
    L.append("def cmdLayouts : List CmdLayout := [")
    items = []
    for c, S, size, idleaf, groups, pads in data:
        names = []
        names.append("id")
        gl = []
        for g in groups:
            gl.append("[" + ", ".join("(%s, .%s)" % (lean_field(leaf), part) for leaf, part in g) + "]")
            names += [".".join(leaf[0]) + "<-" + part for leaf, part in g]
        names += [".".join(leaf[0]) for leaf in pads]
        items.append("  -- %s: %s\n  { cls := %s, struct := %s, size := %d,\n    idField := %s,\n    groups := [%s],\n    pads := [%s] }" % (
            S.__name__, "; ".join(names), common.lean_str(IT.cls_name(c)), common.lean_str(S.__name__), size,
            lean_field(idleaf), ", ".join(gl), ", ".join(lean_field(p) for p in pads)))
    L.append(",\n".join(items))
    L.append("]")
    L.append("")
    L.append("end NQ.Gen")
    common.write_if_changed(os.path.join(common.GEN_DIR, "CmdLayouts.lean"), "\n".join(L) + "\n")
    return ["NQ.CmdObl.cmd_layouts_canonical", "NQ.CmdObl.cmd_layouts_cover"]


if __name__ == "__main__":
    print(generate())
