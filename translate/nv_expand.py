"""Translator: the data the NV transpiler model is parameterised by -> Gen/NvExpand.lean

Everything is obtained from the live code of /repo:
  * `clsInfos`: for every class of the vanilla flavour (core + vanilla) the facts the pass asks of
    an instruction object: isinstance(core.SetInstruction), isinstance(Single/Rotation),
    isinstance(TwoQubit) (+ which of cnot/cphase/mov), isinstance(BranchUnary/BranchBinary/Jmp),
    which operand positions `writes_to()` returns, where `.line` / `.imm` sit in `.operands`;
  * `expRows`: for every `_map_*` / `_move_*` / `_map_single_gate` case the emitted sequence, obtained
    by RUNNING the method with distinct sentinel registers (A, B, scratch) and probe angles, as a
    template over {a, b, s, literal, copy-of-input-operand k, hardware-normalised numerator};
    both debug settings, both hardware settings.
A method that disappears, emits a register that is none of the sentinels, or an immediate that is
neither constant nor a copy of an input operand makes the translator raise (= broken tie).
"""
import os

from vlib import common
from translate import instr_table as T

SENT_A, SENT_B, SENT_S = 11, 12, 13
DEBUG_PREFIX = "base.DebugInstruction:"
TWO_METHODS = [
    # key, method, gate tag
    ("cnot_ec", "_map_cnot_electron_carbon", "cnot"),
    ("cnot_ce", "_map_cnot_carbon_electron", "cnot"),
    ("cnot_cc", "_map_cnot_carbon_carbon", "cnot"),
    ("cphase_ec", "_map_cphase_electron_carbon", "cphase"),
    ("cphase_cc", "_map_cphase_carbon_carbon", "cphase"),
    ("mov_ec", "_move_electron_carbon", "mov"),
    ("mov_ce", "_move_carbon_electron", "mov"),
]
SIM_PROBES = [(3, 2), (5, 1)]
HW_PROBES = [(3, 2), (5, 1), (7, 0), (1, 4), (2, 3)]
HW_BAD_DENOMS = [5, 6, 17, 255]


def _imports():
    common.use_repo()
    from netqasm.lang import operand as op
    from netqasm.lang.encoding import RegisterName
    from netqasm.lang.instr import core, flavour as fl, nv, vanilla
    from netqasm.lang.instr.base import DebugInstruction
    from netqasm.lang.subroutine import Subroutine
    from netqasm.runtime import settings
    from netqasm.sdk.transpile import NVSubroutineTranspiler

    return dict(op=op, RN=RegisterName, core=core, fl=fl, nv=nv, vanilla=vanilla, Debug=DebugInstruction,
                Subroutine=Subroutine, settings=settings, Tr=NVSubroutineTranspiler)


def vanilla_classes(m):
    return list(m["fl"].CORE_INSTRUCTIONS) + list(m["fl"].VanillaFlavour().instrs)


def distinct_instance(c, m):
    """An instance of class c whose register operands are pairwise distinct objects/values."""
    op, RN = m["op"], m["RN"]
    fs = T.operand_fields(c)
    shape = T.shape_of(c, op, RN)
    k = [0]

    def reg():
        k[0] += 1
        return op.Register(RN.R, k[0])

    args = {}
    for f, kind in zip(fs, shape):
        if kind == "reg":
            args[f.name] = reg()
        elif kind in ("imm8", "int32"):
            k[0] += 1
            args[f.name] = op.Immediate(100 + k[0])
        elif kind == "addr":
            args[f.name] = op.Address(7)
        elif kind == "entry":
            args[f.name] = op.ArrayEntry(op.Address(7), reg())
        elif kind == "slice":
            args[f.name] = op.ArraySlice(op.Address(7), reg(), reg())
        else:
            raise ValueError(kind)
    return c(**args)


def cls_info(c, m):
    core, vanilla = m["core"], m["vanilla"]
    inst = distinct_instance(c, m)
    ops = inst.operands
    w = inst.writes_to()
    writes = []
    for r in w:
        pos = [p for p, o in enumerate(ops) if o is r]
        if len(pos) != 1:
            raise ValueError(f"{c}: writes_to() returns something that is not exactly one top-level operand")
        writes.append(pos[0])
    is_set = isinstance(inst, core.SetInstruction)
    gate1 = isinstance(inst, core.SingleQubitInstruction) or isinstance(inst, core.RotationInstruction)
    gate2 = isinstance(inst, core.TwoQubitInstruction)
    branch = (isinstance(inst, core.BranchUnaryInstruction) or isinstance(inst, core.BranchBinaryInstruction)
              or isinstance(inst, core.JmpInstruction))
    line_ix = 0
    if branch:
        pos = [p for p, o in enumerate(ops) if o is inst.line]
        if len(pos) != 1:
            raise ValueError(f"{c}: .line is not exactly one operand")
        line_ix = pos[0]
    imm_ix = 0
    if is_set:
        pos = [p for p, o in enumerate(ops) if o is inst.imm]
        if pos != [1] or writes != [0] or len(ops) != 2:
            raise ValueError(f"{c}: set shape changed")
        imm_ix = pos[0]
    tag = ""
    if gate2:
        tag = ("cnot" if isinstance(inst, vanilla.CnotInstruction) else
               "cphase" if isinstance(inst, vanilla.CphaseInstruction) else
               "mov" if isinstance(inst, vanilla.MovInstruction) else "other")
        if [type(o).__name__ for o in ops] != ["Register", "Register"] or ops[0] is not inst.reg0 \
                or ops[1] is not inst.reg1:
            raise ValueError(f"{c}: two-qubit operand shape changed")
    if gate1 and (type(ops[0]).__name__ != "Register" or ops[0] is not inst.reg):
        raise ValueError(f"{c}: single-qubit operand shape changed")
    if gate1 and gate2:
        raise ValueError(f"{c}: both single- and two-qubit")
    return dict(cls=T.cls_name(c), isSet=is_set, gate1=gate1, gate2=gate2, branch=branch, writes=writes,
                lineIx=line_ix, immIx=imm_ix, tag=tag,
                rot=isinstance(inst, core.RotationInstruction))


def _fresh_transpiler(m, debug):
    op, RN = m["op"], m["RN"]
    tr = m["Tr"](m["Subroutine"](instructions=[]), debug=debug)
    tr._used_registers = {op.Register(RN.Q, i) for i in range(SENT_S)}
    return tr


def _template_of(outs, probes, m):
    """outs: one emitted list per probe (n, d). Returns list of (cls, [top])."""
    op = m["op"]
    n0 = len(outs[0])
    if any(len(o) != n0 for o in outs):
        raise ValueError("expansion length depends on the angle")
    body = []
    for k in range(n0):
        insts = [o[k] for o in outs]
        i0 = insts[0]
        if any(type(i) is not type(i0) for i in insts):
            raise ValueError("expansion class depends on the angle")
        if isinstance(i0, m["Debug"]):
            if any(i.text != i0.text for i in insts):
                raise ValueError("debug text varies")
            body.append((DEBUG_PREFIX + i0.text, []))
            continue
        tops = []
        for p in range(len(i0.operands)):
            os_ = [i.operands[p] for i in insts]
            o0 = os_[0]
            if isinstance(o0, op.Register):
                if any(o != o0 for o in os_) or o0.name != m["RN"].Q or o0.index not in (SENT_A, SENT_B, SENT_S):
                    raise ValueError(f"expansion mentions a register that is not an operand/scratch: {o0}")
                tops.append({SENT_A: ".a", SENT_B: ".b", SENT_S: ".s"}[o0.index])
            elif isinstance(o0, op.Immediate):
                vals = [o.value for o in os_]
                if all(v == n for v, (n, d) in zip(vals, probes)):
                    tops.append(".inp 1")
                elif all(v == d for v, (n, d) in zip(vals, probes)):
                    tops.append(".inp 2")
                elif all(v == vals[0] for v in vals):
                    tops.append(".lit %s" % common.lean_int(vals[0]))
                elif all(d <= 4 and v == n * 2 ** (4 - d) for v, (n, d) in zip(vals, probes)):
                    tops.append(".hwNum")
                else:
                    raise ValueError(f"immediate of the expansion is not a recognised function of the input: {vals}")
            else:
                raise ValueError(f"unexpected operand type in expansion: {o0}")
        body.append((T.cls_name(type(i0)), tops))
    return body


def collect():
    m = _imports()
    op, RN = m["op"], m["RN"]
    settings = m["settings"]
    A, B = op.Register(RN.Q, SENT_A), op.Register(RN.Q, SENT_B)
    infos = [cls_info(c, m) for c in vanilla_classes(m)]
    rows = []  # (key, body)
    was_hw = settings.get_is_using_hardware()
    try:
        for hw in (False, True):
            settings.set_is_using_hardware(hw)
            for c, info in zip(vanilla_classes(m), infos):
                if not info["gate1"]:
                    continue
                probes = HW_PROBES if hw else SIM_PROBES
                outs = []
                for (n, d) in probes:
                    if info["rot"]:
                        inst = c(reg=A, imm0=op.Immediate(n), imm1=op.Immediate(d))
                    else:
                        inst = c(reg=A)
                    outs.append(_fresh_transpiler(m, False)._map_single_gate(inst))
                rows.append((info["cls"] + ("@hw" if hw else ""), _template_of(outs, probes, m)))
                if hw and info["rot"]:
                    for d in HW_BAD_DENOMS + [-1]:
                        try:
                            _fresh_transpiler(m, False)._map_single_gate(
                                c(reg=A, imm0=op.Immediate(3), imm1=op.Immediate(d)))
                        except ValueError:
                            continue
                        raise ValueError(f"hardware mode accepts angle denominator {d} for {c}")
    finally:
        settings.set_is_using_hardware(was_hw)
    by_tag = {"cnot": m["vanilla"].CnotInstruction, "cphase": m["vanilla"].CphaseInstruction,
              "mov": m["vanilla"].MovInstruction}
    for debug in (False, True):
        for key, meth, tag in TWO_METHODS:
            tr = _fresh_transpiler(m, debug)
            if not hasattr(tr, meth):
                raise ValueError(f"NVSubroutineTranspiler.{meth} no longer exists")
            inst = by_tag[tag](reg0=op.Register(RN.Q, SENT_A), reg1=op.Register(RN.Q, SENT_B))
            out = getattr(tr, meth)(inst)
            rows.append((key + ("@debug" if debug else ""), _template_of([out], [(None, None)], m)))
    # the padding instruction is read from the live pass as well
    txt = "# NETQASM 0.0\n# APPID 0\njmp 1\n"
    from netqasm.lang.parsing.text import parse_text_subroutine
    sub = parse_text_subroutine(txt)
    out = m["Tr"](sub).transpile().instructions
    if len(out) != 2:
        raise ValueError("padding shape changed")
    pad = out[1]
    return infos, rows, pad


def lean_bool(b):
    return "true" if b else "false"


def generate():
    infos, rows, pad = collect()
    m = _imports()
    op = m["op"]

    def lean_operand(o):
        if isinstance(o, op.Register):
            return "Operand.reg ⟨%d, %d⟩" % (o.name.value, o.index)
        if isinstance(o, op.Immediate):
            return "Operand.imm %s" % common.lean_int(o.value)
        raise ValueError(o)

    L = []
    L.append("/- GENERATED by translate/nv_expand.py from /repo — do not edit. -/")
    L.append("import NetqasmVerif.Model.Transpile")
    L.append("namespace NQ.Gen")
    L.append("open NQ.Tr")
    L.append("")
    L.append("def clsInfos : List ClsInfo := [")
    L.append(",\n".join(
        "  { cls := %s, isSet := %s, gate1 := %s, gate2 := %s, branch := %s, writes := [%s], lineIx := %d, "
        "tag := %s }" % (
            common.lean_str(i["cls"]), lean_bool(i["isSet"]), lean_bool(i["gate1"]), lean_bool(i["gate2"]),
            lean_bool(i["branch"]), ", ".join(map(str, i["writes"])), i["lineIx"],
            common.lean_str(i["tag"])) for i in infos))
    L.append("]")
    L.append("")
    L.append("def expRows : List ExpRow := [")
    items = []
    for key, body in rows:
        items.append("  { key := %s, body := [\n%s] }" % (
            common.lean_str(key),
            ",\n".join("      ⟨%s, [%s]⟩" % (common.lean_str(c), ", ".join(t)) for c, t in body)))
    L.append(",\n".join(items))
    L.append("]")
    L.append("")
    L.append("/-- the instruction appended when a branch targets the end, as emitted by the live pass -/")
    L.append("def padInstr : Instr := ⟨%s, [%s]⟩" % (
        common.lean_str(T.cls_name(type(pad))), ", ".join(lean_operand(o) for o in pad.operands)))
    L.append("")
    L.append("def cfg (debug hw : Bool) : Cfg := ⟨debug, hw, clsInfos, expRows, padInstr⟩")
    L.append("")
    L.append("end NQ.Gen")
    common.write_if_changed(os.path.join(common.GEN_DIR, "NvExpand.lean"), "\n".join(L) + "\n")
    return []


if __name__ == "__main__":
    generate()
    print("ok")
