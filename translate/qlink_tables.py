"""Translator: the qlink-interface 1.0 compatibility layer -> Gen/QlinkTables.lean

`response_from_qlink_1_0` and `request_to_qlink_1_0` (netqasm/qlink_compat.py) are PROBED: every field of
the source object gets a distinct marker value, the real conversion is run, and for every field of the
result we record which source field it carries ("copy"), whether it is an enum member converted from the
source's enum member ("enum"), or a constant. Enum conversions are tabulated member by member. What the
conversion does not support is recorded too.
"""
import dataclasses
import enum
import os

from vlib import common


def _imports():
    common.use_repo()
    import qlink_interface as q10

    import netqasm.qlink_compat as ql
    return ql, q10


def _probe_src_dataclass(cls, enum_choice):
    """instance of a qlink-interface dataclass with marker values; returns (obj, {marker: field})"""
    kw, marks = {}, {}
    for i, f in enumerate(dataclasses.fields(cls)):
        default = f.default
        if isinstance(default, enum.Enum):
            kw[f.name] = enum_choice(type(default))
        else:
            kw[f.name] = 1000 + i
            marks[1000 + i] = f.name
    return cls(**kw), marks


def _rows(dst_names, dst_vals, src_obj, marks):
    rows = []
    for name, v in zip(dst_names, dst_vals):
        if isinstance(v, enum.Enum):
            # which source field holds an enum member with the same name?
            src = [f for f in _field_names(src_obj) if isinstance(getattr(src_obj, f), enum.Enum)
                   and getattr(src_obj, f).name == v.name and getattr(src_obj, f).value == v.value]
            if src:
                rows.append((name, "enum", src[0]))
            else:
                rows.append((name, "const", "%s.%s" % (type(v).__name__, v.name)))
        elif isinstance(v, int) and v in marks:
            rows.append((name, "copy", marks[v]))
        else:
            rows.append((name, "const", repr(v)))
    return rows


def _field_names(o):
    if dataclasses.is_dataclass(o):
        return [f.name for f in dataclasses.fields(o)]
    return list(o._fields)


def collect():
    ql, q10 = _imports()
    d = {}
    # a member that is not the default, so that a dropped field shows up as a constant
    pick = lambda E: list(E)[-1]
    # ---- responses
    for key, cls in (("respK", q10.ResCreateAndKeep), ("respM", q10.ResMeasureDirectly), ("respErr", q10.ResError)):
        src, marks = _probe_src_dataclass(cls, pick)
        out = ql.response_from_qlink_1_0(src)
        d[key] = _rows(out._fields, list(out), src, marks)
        d[key + "Class"] = type(out).__name__
    try:
        src, _ = _probe_src_dataclass(q10.ResRemoteStatePrep, pick)
        ql.response_from_qlink_1_0(src)
        d["respRSupported"] = True
    except ValueError:
        d["respRSupported"] = False
    # enum conversions, member by member
    d["basisConv"] = []
    for m in q10.MeasurementBasis:
        out = ql.response_from_qlink_1_0(q10.ResMeasureDirectly(measurement_basis=m))
        b = out.measurement_basis
        d["basisConv"].append((m.name, m.value, type(b).__name__ + "." + b.name, b.value))
    d["bellConv"] = []
    for m in q10.BellState:
        for cls in (q10.ResCreateAndKeep, q10.ResMeasureDirectly):
            out = ql.response_from_qlink_1_0(cls(bell_state=m))
            b = out.bell_state
            stored = b.value if isinstance(b, enum.Enum) else b      # what _store_ent_info writes
            d["bellConv"].append((cls.__name__, m.name, m.value, stored, ql.BellState(stored).name))
    d["bellIntConv"] = []
    for v in range(4):
        out = ql.response_from_qlink_1_0(q10.ResCreateAndKeep(bell_state=v))
        d["bellIntConv"].append((v, out.bell_state))
    # ---- requests
    def probe_create(tp):
        kw, marks = {}, {}
        for i, f in enumerate(ql.LinkLayerCreate._fields):
            if f == "type":
                kw[f] = tp
            elif f == "random_basis_local":
                kw[f] = list(ql.RandomBasis)[-1]
            elif f == "random_basis_remote":
                kw[f] = list(ql.RandomBasis)[-2]
            else:
                kw[f] = 2000 + i
                marks[2000 + i] = f
        return ql.LinkLayerCreate(**kw), marks

    for key, tp in (("reqK", ql.RequestType.K), ("reqM", ql.RequestType.M)):
        src, marks = probe_create(tp)
        out = ql.request_to_qlink_1_0(src)
        names = _field_names(out)
        d[key] = _rows(names, [getattr(out, n) for n in names], src, marks)
        d[key + "Class"] = type(out).__name__
    src = ql.LinkLayerRecv(type=ql.RequestType.RECV, remote_node_id=3001, purpose_id=3002)
    out = ql.request_to_qlink_1_0(src)
    names = _field_names(out)
    d["reqRecv"] = _rows(names, [getattr(out, n) for n in names], src, {3001: "remote_node_id", 3002: "purpose_id"})
    d["reqRecvClass"] = type(out).__name__
    try:
        src, _ = probe_create(ql.RequestType.R)
        ql.request_to_qlink_1_0(src)
        d["reqRSupported"] = True
    except ValueError:
        d["reqRSupported"] = False
    d["randBasisConv"] = []
    for m in ql.RandomBasis:
        src = ql.LinkLayerCreate(type=ql.RequestType.M, random_basis_local=m, random_basis_remote=m)
        out = ql.request_to_qlink_1_0(src)
        for side in ("random_basis_local", "random_basis_remote"):
            b = getattr(out, side)
            d["randBasisConv"].append((side, m.name, m.value, b.name, b.value))
    d["qlinkBell"] = [(m.name, m.value) for m in q10.BellState]
    return d


def generate():
    d = collect()
    S = common.lean_str
    L = ["/- GENERATED by translate/qlink_tables.py from /repo (probing qlink_compat.py) — do not edit. -/",
         "namespace NQ.Gen.Qlink", ""]

    def rows(name, rs):
        L.append("/-- (field of the result, copy|enum|const, source field or constant) -/")
        L.append("def %s : List (String × String × String) := [%s]" % (
            name, ", ".join("(%s, %s, %s)" % (S(a), S(b), S(c)) for a, b, c in rs)))

    for k in ("respK", "respM", "respErr", "reqK", "reqM", "reqRecv"):
        rows(k, d[k])
        L.append("def %sClass : String := %s" % (k, S(d[k + "Class"])))
    L.append("def respRSupported : Bool := %s" % ("true" if d["respRSupported"] else "false"))
    L.append("def reqRSupported : Bool := %s" % ("true" if d["reqRSupported"] else "false"))
    L.append("/-- (qlink-interface member, value, qlink_compat member, value) -/")
    L.append("def basisConv : List (String × Int × String × Int) := [%s]" % ", ".join(
        "(%s, %d, %s, %d)" % (S(a), b, S(c), e) for a, b, c, e in d["basisConv"]))
    L.append("/-- (response class, qlink-interface BellState member, its value, value stored in the result "
             "array, name of that value in qlink_compat.BellState) -/")
    L.append("def bellConv : List (String × String × Int × Int × String) := [%s]" % ", ".join(
        "(%s, %s, %d, %d, %s)" % (S(a), S(b), c, e, S(f)) for a, b, c, e, f in d["bellConv"]))
    L.append("def bellIntConv : List (Int × Int) := [%s]" % ", ".join("(%d, %d)" % p for p in d["bellIntConv"]))
    L.append("/-- (field, qlink_compat RandomBasis member, value, qlink-interface member, value) -/")
    L.append("def randBasisConv : List (String × String × Int × String × Int) := [%s]" % ", ".join(
        "(%s, %s, %d, %s, %d)" % (S(a), S(b), c, S(e), f) for a, b, c, e, f in d["randBasisConv"]))
    L.append("def qlinkBell : List (String × Int) := [%s]" % ", ".join("(%s, %d)" % (S(a), b) for a, b in d["qlinkBell"]))
    L += ["", "end NQ.Gen.Qlink"]
    common.write_if_changed(os.path.join(common.GEN_DIR, "QlinkTables.lean"), "\n".join(L) + "\n")
    return []


if __name__ == "__main__":
    generate()
    print("ok")
