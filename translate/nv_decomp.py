"""Translator for C07: runs the REAL `NVSubroutineTranspiler` on every vanilla gate and
placement and writes the emitted NV instruction sequences as data to Gen/NvDecomp.lean.

Qubits in the generated sequences are ROLE indices: 0 = the electron (virtual id 0),
1 = the first carbon among the operands, 2 = the second carbon. The virtual ids the
transpiler was run with are kept beside each sequence so that the Lean side can decide that
the sequence depends on the ids only through "is it 0".

A syntactic check of `_handle_two_qubit_gate` backs the generalisation from the sampled ids
to all ids: the two id variables may only be compared with the constant 0 or with each other
(or be formatted into an error message)."""
import ast
import inspect
import os
import textwrap

from harness import nvgates as G
from vlib import common

CARBONS = [1, 2, 3, 7, 15]
EC = [(0, c) for c in CARBONS]
CE = [(c, 0) for c in CARBONS]
CC = [(1, 2), (2, 1), (3, 9), (9, 3), (1, 15), (200, 7)]
ROT_SAMPLES = [(0, 0), (1, 0), (1, 1), (3, 1), (1, 2), (16, 4), (24, 4), (255, 4), (7, 3), (255, 0),
               (0, 255), (255, 255), (128, 8), (13, 5), (100, 31)]
HW_SAMPLES = [(0, 0), (1, 0), (1, 1), (3, 1), (1, 2), (16, 4), (24, 4), (255, 4), (7, 3), (15, 0),
              (255, 0), (1, 5), (0, 5), (3, 8), (9, 255)]


def check_id_uses():
    """AST check: in `_handle_two_qubit_gate`, `qubit_id0`/`qubit_id1` occur only as
    `x == 0`, `x != 0`, `qubit_id0 != qubit_id1`, as assignment targets, or inside the f-string
    of a raise. Returns a short description list; raises if anything else is found."""
    m = G.M()
    src = textwrap.dedent(inspect.getsource(m["T"]._handle_two_qubit_gate))
    tree = ast.parse(src)
    names = {"qubit_id0", "qubit_id1"}
    ok_nodes = set()
    uses = []
    for node in ast.walk(tree):
        if isinstance(node, ast.Compare) and len(node.ops) == 1:
            left, right = node.left, node.comparators[0]
            op = type(node.ops[0]).__name__
            if isinstance(left, ast.Name) and left.id in names and op in ("Eq", "NotEq"):
                if isinstance(right, ast.Constant) and right.value == 0 and type(right.value) is int:
                    ok_nodes.add(id(left))
                    uses.append(f"{left.id} {op} 0")
                elif isinstance(right, ast.Name) and right.id in names and right.id != left.id and op == "NotEq":
                    ok_nodes.add(id(left))
                    ok_nodes.add(id(right))
                    uses.append(f"{left.id} NotEq {right.id}")
        if isinstance(node, ast.Raise):
            for sub in ast.walk(node):
                if isinstance(sub, ast.Name) and sub.id in names:
                    ok_nodes.add(id(sub))
    for node in ast.walk(tree):
        if isinstance(node, ast.Name) and node.id in names:
            if isinstance(node.ctx, ast.Store):
                continue
            if id(node) not in ok_nodes:
                raise RuntimeError(f"_handle_two_qubit_gate uses {node.id} other than in a comparison "
                                   f"with 0 (line {node.lineno}); the id-independence argument of C07 "
                                   "no longer applies")
    if not uses:
        raise RuntimeError("_handle_two_qubit_gate: no case split on the qubit ids found")
    # the helper circuits must not look at register values at all
    for fn in ("_map_cnot_electron_carbon", "_map_cnot_carbon_electron", "_map_cnot_carbon_carbon",
               "_map_cphase_electron_carbon", "_map_cphase_carbon_carbon", "_move_electron_carbon",
               "_move_carbon_electron", "swap", "_map_single_gate"):
        fsrc = inspect.getsource(getattr(m["T"], fn))
        if "get_reg_value" in fsrc or "_register_values" in fsrc:
            raise RuntimeError(f"{fn} reads register values; C07's placement argument no longer applies")
    return sorted(set(uses))


def gi(e):
    mn, qs, n, d = e
    return f"⟨.{G.GNAME[mn]}, [{', '.join(map(str, qs))}], {n}, {d}⟩"


def gis(seq):
    return "[" + ", ".join(gi(e) for e in seq) + "]"


def collect():
    data = {}
    data["id_uses"] = check_id_uses()
    single = []
    for mn in G.ONE_QUBIT:
        for vid in (0, 1, 2, 15):
            seq = G.expand(mn, [vid])
            if any(qs != [vid] for _, qs, _, _ in seq):
                raise G.Unexpected(f"expansion of {mn} touches another qubit: {seq}")
            single.append((mn, vid, [(m, [0], n, d) for m, _, n, d in seq]))
    data["single"] = single
    two, two_dbg = [], []
    for mn in G.TWO_QUBIT:
        for ids in EC + CE + CC:
            seq = G.to_roles(G.expand(mn, list(ids)), ids)
            two.append((mn, ids[0], ids[1], seq))
            two_dbg.append((mn, ids[0], ids[1], G.to_roles(G.expand(mn, list(ids), debug=True), ids)))
    data["two"], data["two_dbg"] = two, two_dbg
    mov = []
    for ids in EC + CE:
        mov.append((ids[0], ids[1], G.to_roles(G.expand("mov", list(ids)), ids)))
    data["mov"] = mov
    data["mov_unknown"] = G.to_roles(G.expand("mov", [0, 1], known=False), (0, 1))
    rej = []
    for ids in CC:
        try:
            G.expand("mov", list(ids))
            rej.append((ids[0], ids[1], False))
        except RuntimeError:
            rej.append((ids[0], ids[1], True))
    data["mov_cc_rejected"] = rej
    # every sample is run with the register tracked as the ELECTRON (virtual id 0) and as a carbon (id 1):
    # the model `nvRot` takes no id, so each (gate, n, d) simply appears once per role
    rots = []
    for mn in G.ROTS:
        for vid in (0, 1):
            for (n, d) in ROT_SAMPLES:
                seq = G.expand(mn, [vid], n, d)
                rots.append((mn, n, d, [(m, [0], a, b) for m, _, a, b in seq]))
    data["rot_sim"] = rots
    hw = []
    for mn in G.ROTS:
        for vid in (0, 1):
            for (n, d) in HW_SAMPLES:
                try:
                    seq = G.expand(mn, [vid], n, d, hardware=True)
                    hw.append((mn, n, d, [(m, [0], a, b) for m, _, a, b in seq]))
                except ValueError:
                    hw.append((mn, n, d, None))
    data["rot_hw"] = hw
    return data


def render(data):
    L = []
    L.append("/- GENERATED by translate/nv_decomp.py from the live NVSubroutineTranspiler — do not edit. -/")
    L.append("import NetqasmVerif.Model.Gates")
    L.append("namespace NQ.Gen")
    L.append("open NQ")
    L.append("")
    L.append("/-- how `_handle_two_qubit_gate` uses the two virtual ids (AST) -/")
    L.append("def nvIdUses : List String := [" + ", ".join(common.lean_str(u) for u in data["id_uses"]) + "]")
    L.append("")
    L.append("/-- (vanilla gate, virtual id it was run on, emitted sequence on qubit 0) -/")
    L.append("def nvSingle : List (GName × Nat × List GI) := [")
    L.append(",\n".join(f"  (.{G.GNAME[mn]}, {vid}, {gis(seq)})" for mn, vid, seq in data["single"]))
    L.append("]")
    for key, name in (("two", "nvTwo"), ("two_dbg", "nvTwoDebug")):
        L.append("")
        L.append("/-- (vanilla gate, virtual id of operand 0, of operand 1, emitted sequence over roles) -/")
        L.append(f"def {name} : List (GName × Nat × Nat × List GI) := [")
        L.append(",\n".join(f"  (.{G.GNAME[mn]}, {a}, {b}, {gis(seq)})" for mn, a, b, seq in data[key]))
        L.append("]")
    L.append("")
    L.append("/-- MOV: (virtual id of source, of target, emitted sequence over roles) -/")
    L.append("def nvMov : List (Nat × Nat × List GI) := [")
    L.append(",\n".join(f"  ({a}, {b}, {gis(seq)})" for a, b, seq in data["mov"]))
    L.append("]")
    L.append("/-- MOV with register values unknown at transpile time (treated as electron → carbon) -/")
    L.append(f"def nvMovUnknown : List GI := {gis(data['mov_unknown'])}")
    L.append("/-- MOV carbon → carbon: (id0, id1, transpiler raised RuntimeError) -/")
    L.append("def nvMovCarbonCarbon : List (Nat × Nat × Bool) := [" +
             ", ".join(f"({a}, {b}, {'true' if r else 'false'})" for a, b, r in data["mov_cc_rejected"]) + "]")
    L.append("")
    L.append("/-- rotations, simulation mode: (gate, n, d, emitted sequence on qubit 0) -/")
    L.append("def nvRotSim : List (GName × Nat × Nat × List GI) := [")
    L.append(",\n".join(f"  (.{G.GNAME[mn]}, {n}, {d}, {gis(seq)})" for mn, n, d, seq in data["rot_sim"]))
    L.append("]")
    L.append("")
    L.append("/-- rotations, hardware mode: `none` = rejected with ValueError -/")
    L.append("def nvRotHw : List (GName × Nat × Nat × Option (List GI)) := [")
    L.append(",\n".join(f"  (.{G.GNAME[mn]}, {n}, {d}, " + ("none" if seq is None else f"some {gis(seq)}") + ")"
                        for mn, n, d, seq in data["rot_hw"]))
    L.append("]")
    L.append("")
    L.append("end NQ.Gen")
    return "\n".join(L) + "\n"


def generate():
    data = collect()
    common.write_if_changed(os.path.join(common.GEN_DIR, "NvDecomp.lean"), render(data))
    return ["NQ.C07.Obl.single_ok", "NQ.C07.Obl.two_rep_ok_cnot", "NQ.C07.Obl.two_rep_ok_cphase",
            "NQ.C07.Obl.two_ids_only_through_zero", "NQ.C07.Obl.mov_ok", "NQ.C07.Obl.rot_samples_ok"]


if __name__ == "__main__":
    generate()
