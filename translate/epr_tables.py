"""Translator: EPR request/response tables -> Gen/EprTables.lean

Read from the live code of /repo:
  * `LinkLayerCreate._fields` and `LinkLayerCreate.__new__.__defaults__` (typed: plain ints, RequestType,
    RandomBasis members);
  * `LinkLayerOKTypeK/M/R._fields`, `OK_FIELDS_K`, `OK_FIELDS_M`, the executor's `OK_FIELDS`,
    `CREATE_FIELDS`;
  * enum numberings (EPRType, RequestType, ReturnType, RandomBasis, Basis, BellState, TimeUnit,
    EprMeasBasis) and `basis_to_rotation`;
  * the `SER_CREATE_IDX_*`, `SER_RESPONSE_KEEP_IDX_*`, `SER_RESPONSE_MEASURE_IDX_*` constants and lengths
    of build_epr.py;
  * which array index every attribute of the host-side result handles reads, obtained by running the real
    `deserialize_epr_keep_results` / `deserialize_epr_measure_results` / `_create_ent_info_k_slices` on a
    recording array for 3 pairs;
  * which request attributes `request_to_qlink_1_0` dereferences with `.value` (must be enum members)
    (from its AST).
A shape that is no longer found raises (the pipeline treats that as a broken tie).
"""
import ast
import enum
import inspect
import os

from vlib import common


def _imports():
    common.use_repo()
    import netqasm.backend.executor as ex
    import netqasm.backend.network_stack as ns
    import netqasm.qlink_compat as ql
    import netqasm.sdk.build_epr as be

    return ql, ns, ex, be


def fval(v, ql):
    if isinstance(v, ql.RequestType):
        return ".reqType %s" % common.lean_int(v.value)
    if isinstance(v, ql.RandomBasis):
        return ".randBasis %s" % common.lean_int(v.value)
    if isinstance(v, bool) or not isinstance(v, int):
        raise ValueError("unexpected default %r" % (v,))
    return ".int %s" % common.lean_int(v)


class _RecArray:
    """stands in for sdk.futures.Array: records which index each handle attribute asks for"""

    def __init__(self, n):
        self.n = n

    def __len__(self):
        return self.n

    def get_future_index(self, index):
        return ("idx", index)

    def get_future_slice(self, s):
        return [("idx", i) for i in range(*s.indices(self.n))]


def collect():
    ql, ns, ex, be = _imports()
    d = {}
    d["createFields"] = list(ql.LinkLayerCreate._fields)
    defaults = ql.LinkLayerCreate.__new__.__defaults__
    if len(defaults) != len(d["createFields"]):
        raise ValueError("LinkLayerCreate defaults do not cover every field")
    d["createDefaults"] = [fval(v, ql) for v in defaults]
    d["okK"] = list(ql.LinkLayerOKTypeK._fields)
    d["okM"] = list(ql.LinkLayerOKTypeM._fields)
    d["okR"] = list(ql.LinkLayerOKTypeR._fields)
    d["okFieldsK"] = ns.OK_FIELDS_K
    d["okFieldsM"] = ns.OK_FIELDS_M
    d["okFieldsExec"] = ex.OK_FIELDS
    d["createFieldsN"] = ns.CREATE_FIELDS
    d["enums"] = {}
    for name, e in [("eprType", ql.EPRType), ("eprRole", ql.EPRRole), ("requestType", ql.RequestType),
                    ("returnType", ql.ReturnType), ("randomBasis", ql.RandomBasis), ("basis", ql.Basis),
                    ("bellState", ql.BellState), ("timeUnit", ql.TimeUnit), ("eprMeasBasis", be.EprMeasBasis)]:
        if not issubclass(e, enum.Enum):
            raise ValueError(name)
        d["enums"][name] = [(m.name, m.value) for m in e]
    d["basisRot"] = [(m.name, tuple(be.basis_to_rotation(m))) for m in be.EprMeasBasis]
    ser = {k: v for k, v in vars(be).items() if k.startswith("SER_") and isinstance(v, int)}
    d["serCreate"] = sorted(((k[len("SER_CREATE_IDX_"):], v) for k, v in ser.items()
                             if k.startswith("SER_CREATE_IDX_")), key=lambda kv: kv[1])
    d["serCreateLen"] = ser["SER_CREATE_LEN"]
    # pair every SER_CREATE_IDX constant with the LinkLayerCreate field of the same name (upper-cased; two
    # constants are spelled PROBABLIITY in build_epr.py)
    norm = {f.upper(): f for f in d["createFields"]}
    d["serCreateField"] = []
    for cname, _ in d["serCreate"]:
        key = cname.replace("PROBABLIITY", "PROBABILITY")
        if key not in norm:
            raise ValueError("SER_CREATE_IDX_%s names no LinkLayerCreate field" % cname)
        d["serCreateField"].append((cname, norm[key]))
    d["serKeep"] = sorted(((k[len("SER_RESPONSE_KEEP_IDX_"):], v) for k, v in ser.items()
                           if k.startswith("SER_RESPONSE_KEEP_IDX_")), key=lambda kv: kv[1])
    d["serKeepLen"] = ser["SER_RESPONSE_KEEP_LEN"]
    d["serMeasure"] = sorted(((k[len("SER_RESPONSE_MEASURE_IDX_"):], v) for k, v in ser.items()
                              if k.startswith("SER_RESPONSE_MEASURE_IDX_")), key=lambda kv: kv[1])
    d["serMeasureLen"] = ser["SER_RESPONSE_MEASURE_LEN"]
    if not d["serCreate"] or not d["serKeep"] or not d["serMeasure"]:
        raise ValueError("SER_* constants not found in build_epr.py")

    # host-side handles: run the real deserialisers on a recording array (3 pairs)
    n = 3
    params = be.EntRequestParams(remote_node_id=0, epr_socket_id=0, number=n, post_routine=None,
                                 sequential=False)
    keep = be.deserialize_epr_keep_results(params, _RecArray(n * be.SER_RESPONSE_KEEP_LEN))
    d["keepHandles"] = []
    for i, r in enumerate(keep):
        for attr, v in vars(r).items():
            if isinstance(v, tuple) and v and v[0] == "idx":
                d["keepHandles"].append((i, attr, v[1]))
    meas = be.deserialize_epr_measure_results(params, _RecArray(n * be.SER_RESPONSE_MEASURE_LEN),
                                              ql.EPRRole.CREATE)
    d["measureHandles"] = []
    for i, r in enumerate(meas):
        for attr, v in vars(r).items():
            if isinstance(v, tuple) and v and v[0] == "idx":
                d["measureHandles"].append((i, attr, v[1]))
    if len(d["keepHandles"]) != 4 * n or len(d["measureHandles"]) != 4 * n:
        raise ValueError("result handle attributes changed")
    # Qubit.entanglement_info: LinkLayerOKTypeK(*futures of slice i)
    from netqasm.sdk.builder import Builder
    slices = Builder._create_ent_info_k_slices(None, num_pairs=n, ent_results_array=_RecArray(n * ns.OK_FIELDS_K))
    d["entInfoHandles"] = []
    for i, sl in enumerate(slices):
        for fname, v in zip(sl._fields, sl):
            d["entInfoHandles"].append((i, fname, v[1]))

    # request_to_qlink_1_0: attributes used as `request.X.value`
    src = inspect.getsource(ql.request_to_qlink_1_0)
    tree = ast.parse(src)
    enum_fields = []
    for node in ast.walk(tree):
        if isinstance(node, ast.Attribute) and node.attr == "value" and isinstance(node.value, ast.Attribute) \
                and isinstance(node.value.value, ast.Name) and node.value.value.id == "request":
            if node.value.attr not in enum_fields:
                enum_fields.append(node.value.attr)
    d["qlinkEnumFields"] = sorted(enum_fields)
    return d


def sl(items):
    return "[" + ", ".join(common.lean_str(x) for x in items) + "]"


def generate():
    d = collect()
    L = []
    L.append("/- GENERATED by translate/epr_tables.py from /repo — do not edit. -/")
    L.append("import NetqasmVerif.Model.EprTypes")
    L.append("namespace NQ.Gen.Epr")
    L.append("open NQ.EprReq")
    L.append("")
    L.append("/-- `LinkLayerCreate._fields` -/")
    L.append("def createFields : List String := " + sl(d["createFields"]))
    L.append("/-- `LinkLayerCreate.__new__.__defaults__` -/")
    L.append("def createDefaults : List FVal := [" + ", ".join(d["createDefaults"]) + "]")
    for k in ("okK", "okM", "okR"):
        L.append("def %s : List String := %s" % (k, sl(d[k])))
    for k in ("okFieldsK", "okFieldsM", "okFieldsExec", "createFieldsN", "serCreateLen", "serKeepLen",
              "serMeasureLen"):
        L.append("def %s : Nat := %d" % (k, d[k]))
    for name, members in d["enums"].items():
        L.append("def %s : List (String × Int) := [%s]" % (
            name, ", ".join("(%s, %s)" % (common.lean_str(n), common.lean_int(v)) for n, v in members)))
    L.append("def basisRot : List (String × Int × Int × Int) := [%s]" % ", ".join(
        "(%s, %d, %d, %d)" % (common.lean_str(n), r[0], r[1], r[2]) for n, r in d["basisRot"]))
    for k in ("serCreate", "serKeep", "serMeasure"):
        L.append("def %s : List (String × Nat) := [%s]" % (
            k, ", ".join("(%s, %d)" % (common.lean_str(n), v) for n, v in d[k])))
    L.append("/-- (SER_CREATE_IDX constant, LinkLayerCreate field of the same name) -/")
    L.append("def serCreateField : List (String × String) := [%s]" % ", ".join(
        "(%s, %s)" % (common.lean_str(a), common.lean_str(b)) for a, b in d["serCreateField"]))
    for k in ("keepHandles", "measureHandles", "entInfoHandles"):
        L.append("/-- (pair, handle attribute, array index read) for 3 pairs, recorded from the real code -/")
        L.append("def %s : List (Nat × String × Nat) := [%s]" % (
            k, ", ".join("(%d, %s, %d)" % (i, common.lean_str(a), v) for i, a, v in d[k])))
    L.append("/-- request attributes `request_to_qlink_1_0` dereferences with `.value` -/")
    L.append("def qlinkEnumFields : List String := " + sl(d["qlinkEnumFields"]))
    L.append("")
    L.append("end NQ.Gen.Epr")
    common.write_if_changed(os.path.join(common.GEN_DIR, "EprTables.lean"), "\n".join(L) + "\n")
    return []  # the obligations over these tables are listed among the plug-in's THEOREMS


if __name__ == "__main__":
    generate()
    print("ok")
