"""Translator (C10): Bell-state corrections and measure-directly post-processing
-> Gen/Corrections.lean

Everything is obtained by *running* the live code of /repo:
  * `qlink_compat.BellState` numbering;
  * the commands `_build_cmds_epr_keep_corrections_single_pair` emits on a real Builder
    (three `if_eq` blocks; Bell value -> rotation list);
  * which virtual qubit the corrections address on each path (the id loaded from the
    qubit-ids array, or the constant 0), read off the commands the real `recv_keep` emits for
    the wait-all path, the post-routine path and the move-to-memory (NV) path;
  * results-array layout constants;
  * `EprMeasBasis`, `basis_to_rotation`, `rotation_to_basis`;
  * the post-processing table of `EprMeasureResult.measurement_outcome` for every Bell state x
    named basis x raw outcome (post_process on and off), for unequal bases and unnamed bases.
A shape the translator does not recognise raises (the pipeline reports a broken tie).
"""
import os

from vlib import common

OUT = os.path.join(common.GEN_DIR, "Corrections.lean")


def _imports():
    common.use_repo()
    import netqasm.sdk.build_epr as be
    import netqasm.sdk.builder as bld
    from netqasm import qlink_compat as qc
    return be, bld, qc


class _Fut:
    """stand-in for a Future that already has a value"""

    def __init__(self, v):
        self.value = v

    def __int__(self):
        return self.value


def _gate(cmd):
    from netqasm.lang.ir import GenericInstr
    ax = {GenericInstr.ROT_X: ".x", GenericInstr.ROT_Y: ".y", GenericInstr.ROT_Z: ".z"}[cmd.instruction]
    return f"⟨{ax}, {int(cmd.operands[1])}, {int(cmd.operands[2])}⟩"


def single_pair():
    """Run the real single-pair builder on a fresh Builder and parse what it emits."""
    from harness import bell as H
    from netqasm.lang.encoding import RegisterName
    from netqasm.lang.ir import BranchLabel, GenericInstr, ICmd
    from netqasm.lang.operand import Label, Register
    from netqasm.sdk.futures import RegFuture
    H.P.reset_globals()
    conn = H.P.PipelineConnection("alice", executor=H.P.TraceExecutor(name="alice"))
    b = conn.builder
    breg = Register(RegisterName.R, 1)
    qreg = Register(RegisterName.R, 0)
    b._mem_mgr.add_active_register(breg)
    b._mem_mgr.add_active_register(qreg)
    b._build_cmds_epr_keep_corrections_single_pair(RegFuture(conn, breg), qreg)
    cmds = b.subrt_pop_all_pending_commands()
    H._abandon(conn)
    blocks = []
    i = 0
    while i < len(cmds):
        c = cmds[i]
        if not (isinstance(c, ICmd) and c.instruction == GenericInstr.BNE and c.operands[0] == breg
                and isinstance(c.operands[1], int) and isinstance(c.operands[2], Label)):
            raise ValueError(f"single-pair block: expected `bne <bell> <value> <label>`, got {c}")
        lab = c.operands[2].name
        gates = []
        i += 1
        while i < len(cmds) and isinstance(cmds[i], ICmd):
            g = cmds[i]
            if g.instruction not in (GenericInstr.ROT_X, GenericInstr.ROT_Y, GenericInstr.ROT_Z) or \
                    g.operands[0] != qreg:
                raise ValueError(f"single-pair block: unexpected command {g}")
            gates.append(_gate(g))
            i += 1
        if i >= len(cmds) or not isinstance(cmds[i], BranchLabel) or cmds[i].name != lab:
            raise ValueError("single-pair block: missing exit label")
        i += 1
        blocks.append((int(c.operands[1]), gates))
    if [len(g) for _, g in blocks] != [1, 1, 2]:
        raise ValueError(f"single-pair block: shape {[len(g) for _, g in blocks]} is not [1, 1, 2]")
    return blocks


def target_of(hw, mode):
    """Which qubit do the corrections address on this path? Read off the real emission."""
    import re

    from harness import bell as H
    out = H.emit(dict(hw=hw, api="recv_keep", mode=mode, n=2, live=0, expect=True, post="none"))
    cmds = out["cmds"]
    k = next((i for i, c in enumerate(cmds) if c.startswith("bne ")), None)
    if k is None:
        raise ValueError(f"no correction branch in the {hw}/{mode} emission")
    rot = next(c for c in cmds[k:] if c.startswith("rot_"))
    qreg = rot.split()[1]
    # the last write to the rotation's register before the first branch
    for c in reversed(cmds[:k]):
        if re.fullmatch(rf"set {qreg} 0", c):
            return ".setZero"
        if re.fullmatch(rf"load {qreg} @\d+\[R\d+\]", c):
            return ".loaded"
        if c.split()[0] in ("set", "load", "add", "sub") and c.split()[1] == qreg:
            raise ValueError(f"unrecognised write to the correction register: {c}")
    raise ValueError("the correction register is never written")


def creator_corrects(hw, mode):
    """Does the CREATOR side emit Bell corrections on this path? Read off the real emission of
    `create_keep` (two pairs)."""
    from harness import bell as H
    out = H.emit(dict(hw=hw, api="create_keep", mode=mode, n=2, live=0, post="none"))
    if not any(c.startswith("create_epr") for c in out["cmds"]):
        raise ValueError(f"create_keep on {hw}/{mode} emits no create_epr")
    return any(c.startswith("rot_") for c in out["cmds"])


def host_post_process():
    """`post_process` flag of the EprMeasureResult objects the real measure-directly / RSP API forms hand
    to the host program: (api form, role, expect_phi_plus, flag)."""
    from harness import bell as H
    from netqasm.qlink_compat import EPRType
    from netqasm.sdk.epr_socket import EPRSocket
    rows = []

    def run(name, role, expect, call):
        H.P.reset_globals()
        sock = EPRSocket("bob")
        conn = H.P.PipelineConnection("alice", executor=H.P.TraceExecutor(name="alice"), epr_sockets=[sock])
        try:
            res = call(sock)
            flags = {bool(r.post_process) for r in res}
            if len(flags) != 1:
                raise ValueError(f"{name}: mixed post_process flags {flags}")
            rows.append((name, role, expect, flags.pop()))
        finally:
            H._abandon(conn)

    run("create_measure", "create", True, lambda s: s.create_measure(number=2))
    run("create_rsp", "create", True, lambda s: s.create_rsp(number=2))
    run("create(tp=M)", "create", True, lambda s: s.create(number=2, tp=EPRType.M))
    run("create(tp=R)", "create", True, lambda s: s.create(number=2, tp=EPRType.R))
    run("recv_measure", "recv", True, lambda s: s.recv_measure(number=2, expect_phi_plus=True))
    run("recv_measure", "recv", False, lambda s: s.recv_measure(number=2, expect_phi_plus=False))
    run("recv(tp=M)", "recv", True, lambda s: s.recv(number=2, tp=EPRType.M))
    return rows


def rotation_probes():
    """Probe the real `create_measure`, `create_rsp` and the deprecated `create(tp=M/R)`: for a grid of
    (basis_local, basis_remote, rotations_local, rotations_remote) record the rotations the returned result
    objects carry (= `EntRequestParams.rotations_*`) and slots 14..19 of the serialized request array."""
    from harness import bell as H
    import netqasm.sdk.build_epr as be
    from netqasm.qlink_compat import EPRType
    from netqasm.sdk.epr_socket import EPRSocket
    names = [None, "X", "MZ"]
    tuples = [(0, 0, 0), (0, 8, 0), (3, 5, 7)]
    rows = []

    def run(entry, bl, br, rl, rr):
        out_l, out_r, ser = H.probe_rotations(entry, bl, br, rl, rr)
        rows.append((entry, bl, br, rl, rr, out_l, out_r, ser))

    for entry in ("create_measure", "create(tp=M)"):
        for bl in names:
            for br in names:
                for rl in tuples:
                    for rr in tuples:
                        run(entry, bl, br, rl, rr)
    for bl in names:
        for rl in tuples:
            run("create_rsp", bl, None, rl, (0, 0, 0))
        if bl is not None:
            run("create(tp=R)", bl, None, (0, 0, 0), (0, 0, 0))
    return rows


def generate():
    be, bld, qc = _imports()
    BS = qc.BellState
    lines = ["/- GENERATED by translate/corrections.py from /repo — do not edit. -/",
             "import NetqasmVerif.Model.BellLoop", "namespace NQ.Gen", "open NQ.Bell", ""]
    if sorted(m.name for m in BS) != ["PHI_MINUS", "PHI_PLUS", "PSI_MINUS", "PSI_PLUS"]:
        raise ValueError("BellState members changed")
    lines.append(f"def bellNumbering : Numbering := ⟨{BS.PHI_PLUS.value}, {BS.PSI_PLUS.value}, "
                 f"{BS.PSI_MINUS.value}, {BS.PHI_MINUS.value}⟩")
    (v1, g1), (v2, g2), (v3, g3) = single_pair()
    lines.append(f"def singlePair : SinglePair := ⟨{v1}, {g1[0]}, {v2}, {g2[0]}, {v3}, {g3[0]}, {g3[1]}⟩")
    lines.append(f"def layout : Layout := ⟨{be.SER_RESPONSE_KEEP_IDX_BELL_STATE}, {be.SER_RESPONSE_KEEP_LEN}, "
                 f"{bld.OK_FIELDS_K}⟩")
    lines.append(f"def measureLayoutLen : Int := {be.SER_RESPONSE_MEASURE_LEN}")
    lines.append(f"def targetWaitAll : Target := {target_of('generic', 'plain')}")
    lines.append(f"def targetPost : Target := {target_of('generic', 'seq')}")
    lines.append(f"def targetPostNonSeq : Target := {target_of('generic', 'post')}")
    lines.append(f"def targetPostNV : Target := {target_of('nv', 'seq')}")
    lines.append(f"def targetMove : Target := {target_of('nv', 'plain')}")
    lines.append("def data : Data := ⟨singlePair, layout, targetWaitAll, targetPost, targetMove⟩")

    def lb(v):
        return "true" if v else "false"
    cw = creator_corrects("generic", "plain")
    cp = creator_corrects("generic", "seq") or creator_corrects("generic", "post") or creator_corrects("nv", "seq")
    cm = creator_corrects("nv", "plain")
    def lo(v):
        return "none" if v is None else f'some "{v}"'

    def lr(t):
        return f"({t[0]}, {t[1]}, {t[2]})"
    probes = rotation_probes()
    lines.append("/-- (entry point, basis_local, basis_remote, rotations_local, rotations_remote given by the application; "
                 "rotations_local, rotations_remote of the request; request array slots 14..19) -/")
    lines.append("def rotProbes : List (String × Option String × Option String × Rot × Rot × Rot × Rot × List Nat) := [\n  "
                 + ",\n  ".join(f'("{e}", {lo(bl)}, {lo(br)}, {lr(rl)}, {lr(rr)}, {lr(ol)}, {lr(orr)}, '
                                 f'[{", ".join(map(str, ser))}])' for e, bl, br, rl, rr, ol, orr, ser in probes) + "]")
    hp = host_post_process()
    lines.append("/-- (API form, role, expect_phi_plus, `post_process` of the returned EprMeasureResult objects) -/")
    lines.append("def hostPostProcess : List (String × String × Bool × Bool) := [" + ", ".join(
        f'("{a}", "{r}", {lb(e)}, {lb(f)})' for a, r, e, f in hp) + "]")
    lines.append("/-- does `create_keep` emit Bell corrections on the wait-all / post-routine / move path -/")
    lines.append(f"def creatorData : CreatorData := ⟨{lb(cw)}, {lb(cp)}, {lb(cm)}⟩")
    # ---- bases
    B = be.EprMeasBasis
    names = [m.name for m in B]
    if sorted(names) != ["MX", "MY", "MZ", "X", "Y", "Z"]:
        raise ValueError("EprMeasBasis members changed")
    rots = {m.name: tuple(int(x) for x in be.basis_to_rotation(m)) for m in B}
    lines.append("/-- (name, `basis_to_rotation`, name `rotation_to_basis` gives back) -/")
    rows = []
    for nme in names:
        back = be.rotation_to_basis(rots[nme])
        backs = f'some "{back.name}"' if back is not None else "none"
        r = rots[nme]
        rows.append(f'("{nme}", ({r[0]}, {r[1]}, {r[2]}), {backs})')
    lines.append("def bases : List (String × (Nat × Nat × Nat) × Option String) := [" + ", ".join(rows) + "]")

    # ---- post-processing table
    def outcome(bell, rl, rr, raw, pp):
        r = be.EprMeasureResult(raw_measurement_outcome=_Fut(raw), measurement_basis_local=rl,
                                measurement_basis_remote=rr, post_process=pp, remote_node_id=_Fut(1),
                                generation_duration=_Fut(0), raw_bell_state=_Fut(bell))
        try:
            v = r.measurement_outcome
        except RuntimeError:
            return None
        if v not in (0, 1):
            raise ValueError(f"post-processed outcome {v!r}")
        return int(v)

    def opt(v):
        return "none" if v is None else f"some {v}"

    for flag, nm in ((True, "postTable"), (False, "postOffTable")):
        rows = []
        for bs in BS:
            for nme in names:
                for raw in (0, 1):
                    rows.append(f'({bs.value}, "{nme}", {raw}, {opt(outcome(bs.value, rots[nme], rots[nme], raw, flag))})')
        lines.append(f"/-- (Bell value, basis name (both sides), raw outcome, `measurement_outcome`; none = raises), "
                     f"post_process = {flag} -/")
        lines.append(f"def {nm} : List (Int × String × Nat × Option Nat) := [\n  " + ",\n  ".join(rows) + "]")
    # unequal named bases and unnamed (equal) rotations: count the combinations that do NOT raise
    bad_unequal = 0
    n_unequal = 0
    for bs in BS:
        for a in names:
            for c in names:
                if a == c:
                    continue
                for raw in (0, 1):
                    n_unequal += 1
                    if outcome(bs.value, rots[a], rots[c], raw, True) is not None:
                        bad_unequal += 1
    unnamed = [(1, 2, 3), (0, 16, 0), (8, 8, 0), (0, 0, 8), (4, 0, 0), (16, 16, 16), (32, 0, 0)]
    unnamed = [u for u in unnamed if u not in rots.values()]
    bad_unnamed = 0
    n_unnamed = 0
    for bs in BS:
        for u in unnamed:
            if be.rotation_to_basis(u) is not None:
                continue
            for raw in (0, 1):
                n_unnamed += 1
                if outcome(bs.value, u, u, raw, True) is not None:
                    bad_unnamed += 1
                n_unnamed += 1
                if outcome(bs.value, u, rots["Z"], raw, True) is not None:
                    bad_unnamed += 1
    lines.append(f"/-- combinations of unequal named bases tried / of those, how many did NOT raise -/")
    lines.append(f"def unequalTried : Nat := {n_unequal}")
    lines.append(f"def unequalNotRaising : Nat := {bad_unequal}")
    lines.append(f"def unnamedTried : Nat := {n_unnamed}")
    lines.append(f"def unnamedNotRaising : Nat := {bad_unnamed}")
    lines.append("")
    lines.append("end NQ.Gen")
    common.write_if_changed(OUT, "\n".join(lines) + "\n")
    return ["Gen.Corrections: singlePair", "Gen.Corrections: postTable (48 rows)",
            "Gen.Corrections: postOffTable (48 rows)", "Gen.Corrections: targets per path",
            "Gen.Corrections: bases", "Gen.Corrections: creatorData", "Gen.Corrections: hostPostProcess", "Gen.Corrections: rotProbes"]
