"""Translator T1: instruction tables and single-bit wire probes -> Gen/InstrTable.lean

Everything is read from the live classes of /repo:
  * rows (class, opcode, mnemonic, operand shape) of core + every flavour, in the
    order `Flavour.__init__` inserts them into its dicts;
  * for every class, where each single operand bit lands in `serialize()` output
    (encode probe) and which operand bit each single wire bit sets in
    `deserialize_from()` (decode probe).
The Lean side decides that the probes equal the canonical layout of the shape.
"""
import dataclasses
import json
import os

from vlib import common

KINDS = {"Register": "reg", "Address": "addr", "ArrayEntry": "entry", "ArraySlice": "slice"}
KIND_SIZE = {"reg": 1, "imm8": 1, "int32": 4, "addr": 4, "entry": 5, "slice": 6}


def _imports():
    common.use_repo()
    from netqasm.lang import operand as op
    from netqasm.lang.encoding import RegisterName
    from netqasm.lang.instr import flavour as fl

    return op, RegisterName, fl


def cls_name(c):
    return c.__module__.split(".")[-1] + "." + c.__name__


def operand_fields(c):
    return [f for f in dataclasses.fields(c) if f.name not in ("id", "mnemonic", "lineno")]


def zero_operand(kind, op, RN):
    if kind == "reg":
        return op.Register(RN(0), 0)
    if kind in ("imm8", "int32"):
        return op.Immediate(0)
    if kind == "addr":
        return op.Address(0)
    if kind == "entry":
        return op.ArrayEntry(op.Address(0), op.Register(RN(0), 0))
    if kind == "slice":
        return op.ArraySlice(op.Address(0), op.Register(RN(0), 0), op.Register(RN(0), 0))
    raise ValueError(kind)


def field_kind(c, f, op, RN):
    """Operand kind of a dataclass field; immediates are classified by behaviour."""
    tname = f.type if isinstance(f.type, str) else getattr(f.type, "__name__", str(f.type))
    tname = tname.split(".")[-1]
    if tname in KINDS:
        return KINDS[tname]
    if tname != "Immediate":
        raise ValueError(f"unknown operand type {f.type} in {c}")
    return None  # decided by probing


def shape_of(c, op, RN):
    fs = operand_fields(c)
    kinds = [field_kind(c, f, op, RN) for f in fs]
    # classify immediates: a one-byte immediate cannot hold 256 (raises or wraps to 0)
    for i, k in enumerate(kinds):
        if k is None:
            trial = ["imm8" if x is None else x for x in kinds]
            args = {f.name: zero_operand(t, op, RN) for f, t in zip(fs, trial)}
            base = bytes(c(**args).serialize())
            args[fs[i].name] = op.Immediate(256)
            try:
                b = bytes(c(**args).serialize())
                kinds[i] = "imm8" if b == base else "int32"
            except Exception:
                kinds[i] = "imm8"
    return kinds


def canonical_bits(shape):
    """[(slot, sub, bit, wirepos)] in wire order. sub: which sub-field of the operand."""
    out = []
    o = 1
    for j, k in enumerate(shape):
        if k == "reg":
            out += [(j, "bank", b, 8 * o + b) for b in range(2)]
            out += [(j, "idx", b, 8 * o + 2 + b) for b in range(4)]
        elif k == "imm8":
            out += [(j, "val", b, 8 * o + b) for b in range(8)]
        elif k in ("int32", "addr"):
            out += [(j, "val", b, 8 * o + b) for b in range(32)]
        elif k in ("entry", "slice"):
            out += [(j, "val", b, 8 * o + b) for b in range(32)]
            out += [(j, "bank0", b, 8 * (o + 4) + b) for b in range(2)]
            out += [(j, "idx0", b, 8 * (o + 4) + 2 + b) for b in range(4)]
            if k == "slice":
                out += [(j, "bank1", b, 8 * (o + 5) + b) for b in range(2)]
                out += [(j, "idx1", b, 8 * (o + 5) + 2 + b) for b in range(4)]
        o += KIND_SIZE[k]
    return out


def make_operand(kind, sub, bit, op, RN):
    """operand of `kind` with only (sub, bit) set (None: all zero)"""
    def i32(b):
        return -(2 ** 31) if b == 31 else (1 << b)

    def reg(bank_sub, idx_sub):
        bank = (1 << bit) if sub == bank_sub else 0
        idx = (1 << bit) if sub == idx_sub else 0
        return op.Register(RN(bank), idx)

    if kind == "reg":
        return reg("bank", "idx")
    if kind == "imm8":
        return op.Immediate((1 << bit) if sub == "val" else 0)
    if kind == "int32":
        return op.Immediate(i32(bit) if sub == "val" else 0)
    if kind == "addr":
        return op.Address(i32(bit) if sub == "val" else 0)
    a = op.Address(i32(bit) if sub == "val" else 0)
    if kind == "entry":
        return op.ArrayEntry(a, reg("bank0", "idx0"))
    return op.ArraySlice(a, reg("bank0", "idx0"), reg("bank1", "idx1"))


def operand_bits(kind, o, op):
    """dict (sub, bit) -> 0/1 of a decoded operand"""
    d = {}

    def put_reg(r, bs, ix):
        for b in range(2):
            d[(bs, b)] = (r.name.value >> b) & 1
        for b in range(4):
            d[(ix, b)] = (r.index >> b) & 1

    if kind == "reg":
        put_reg(o, "bank", "idx")
    elif kind == "imm8":
        for b in range(8):
            d[("val", b)] = (o.value >> b) & 1
    elif kind == "int32":
        for b in range(32):
            d[("val", b)] = ((o.value & 0xFFFFFFFF) >> b) & 1
    elif kind == "addr":
        for b in range(32):
            d[("val", b)] = ((o.address & 0xFFFFFFFF) >> b) & 1
    else:
        for b in range(32):
            d[("val", b)] = ((o.address.address & 0xFFFFFFFF) >> b) & 1
        if kind == "entry":
            put_reg(o.index, "bank0", "idx0")
        else:
            put_reg(o.start, "bank0", "idx0")
            put_reg(o.stop, "bank1", "idx1")
    return d


def probe_class(c, shape, op, RN):
    fs = operand_fields(c)
    zero = {f.name: zero_operand(k, op, RN) for f, k in zip(fs, shape)}
    base = bytes(c(**zero).serialize())
    canon = canonical_bits(shape)
    enc = []
    for (j, sub, bit, _pos) in canon:
        args = dict(zero)
        args[fs[j].name] = make_operand(shape[j], sub, bit, op, RN)
        b = bytes(c(**args).serialize())
        diff = [8 * i + k for i in range(max(len(b), len(base))) for k in range(8)
                if i >= len(b) or i >= len(base) or ((b[i] ^ base[i]) >> k) & 1]
        enc.append(diff)
    dec = []
    decv = []
    index = {(j, sub, bit): pos for (j, sub, bit, pos) in canon}
    for pos in range(8, 56):
        raw = bytearray(base)
        raw[pos // 8] ^= 1 << (pos % 8)
        inst = c.deserialize_from(bytes(raw))
        got = []
        ops = inst.operands
        for j, k in enumerate(shape):
            for (sub, bit), v in operand_bits(k, ops[j], op).items():
                if v:
                    got.append(index[(j, sub, bit)])
        dec.append(sorted(got))
        decv.append([v for o in ops for v in flat_values(o, op)])
    return list(base), enc, dec, decv


def flat_values(o, op):
    """decoded operand as plain integers (registers as bank, index)"""
    if isinstance(o, op.Register):
        return [o.name.value, o.index]
    if isinstance(o, op.Immediate):
        return [o.value]
    if isinstance(o, op.Address):
        return [o.address]
    if isinstance(o, op.ArrayEntry):
        return [o.address.address, o.index.name.value, o.index.index]
    if isinstance(o, op.ArraySlice):
        return [o.address.address, o.start.name.value, o.start.index, o.stop.name.value, o.stop.index]
    raise TypeError(o)


def collect():
    op, RN, fl = _imports()
    core = list(fl.CORE_INSTRUCTIONS)
    flavours = {
        "vanilla": fl.VanillaFlavour().instrs,
        "nv": fl.NVFlavour().instrs,
        "reids": fl.REIDSFlavour().instrs,
    }
    classes = []
    for c in core + [c for v in flavours.values() for c in v]:
        if c not in classes:
            classes.append(c)
    rows = {}
    probes = {}
    for c in classes:
        shape = shape_of(c, op, RN)
        rows[c] = (cls_name(c), c.id, c.mnemonic, shape)
        probes[c] = probe_class(c, shape, op, RN)
    return core, flavours, rows, probes


def lean_row(r):
    name, opc, mn, shape = r
    return "⟨%s, %d, %s, [%s]⟩" % (common.lean_str(name), opc, common.lean_str(mn),
                                    ", ".join("." + k for k in shape))


def nat_ll(ll):
    return "[" + ", ".join("[" + ", ".join(map(str, l)) + "]" for l in ll) + "]"


def int_ll(ll):
    return "[" + ", ".join("[" + ", ".join(common.lean_int(v) for v in l) + "]" for l in ll) + "]"


def generate():
    core, flavours, rows, probes = collect()
    known = []
    try:
        with open(common.KNOWN_FINDINGS) as f:
            for k in json.load(f).get("findings", []):
                if k.get("status") == "open" and k.get("kind") == "opcode-clash":
                    known.append(k["key"])
    except FileNotFoundError:
        pass
    L = []
    L.append("/- GENERATED by translate/instr_table.py from /repo — do not edit. -/")
    L.append("import NetqasmVerif.Model.Probe")
    L.append("namespace NQ.Gen")
    L.append("")
    L.append("def coreRows : Table := [")
    L.append(",\n".join("  " + lean_row(rows[c]) for c in core))
    L.append("]")
    for name, cl in flavours.items():
        L.append("")
        L.append(f"def {name}Specific : Table := [")
        L.append(",\n".join("  " + lean_row(rows[c]) for c in cl))
        L.append("]")
        L.append(f"def {name}Rows : Table := coreRows ++ {name}Specific")
    L.append("")
    L.append("/-- every instruction class once, with its all-zero encoding and its probes -/")
    L.append("def probes : List Probe := [")
    items = []
    for c, (base, enc, dec, decv) in probes.items():
        items.append("  { row := %s,\n    base := [%s],\n    enc := %s,\n    dec := %s,\n    decv := %s }" % (
            lean_row(rows[c]), ", ".join(map(str, base)), nat_ll(enc), nat_ll(dec), int_ll(decv)))
    L.append(",\n".join(items))
    L.append("]")
    L.append("")
    L.append("/-- opcode clashes recorded as open known findings (flavour, opcode, class, class) -/")
    L.append("def knownOpcodeClashes : List (String × Nat × String × String) := [")
    L.append(",\n".join("  (%s, %d, %s, %s)" % (common.lean_str(k["flavour"]), k["opcode"],
                                                common.lean_str(k["first"]), common.lean_str(k["second"]))
                        for k in known))
    L.append("]")
    L.append("")
    L.append("end NQ.Gen")
    common.write_if_changed(os.path.join(common.GEN_DIR, "InstrTable.lean"), "\n".join(L) + "\n")
    return []


if __name__ == "__main__":
    generate()
    print("ok")
