"""Translator T5: message struct layouts -> Gen/MsgLayouts.lean

Read from the live ctypes descriptors of netqasm/backend/messages.py (and OptionalInt /
Register / Address of netqasm/lang/encoding.py): for every message struct its `sizeof`
and its leaf fields as bit ranges (byte offset, bit-field offset and width taken from
`getattr(cls, name).offset/.size`; the structs are not packed, the real padding is what
is recorded), the TYPE byte of every class, both dispatch tables, and probes: the real
`bytes(m)` for walking-one field values and the real `deserialize_from` of the base bytes
with every single wire bit flipped.  The Lean side re-decides that the model reproduces
every probe and that every layout is well-formed.
"""
import ctypes
import inspect
import os

from vlib import common


def _imports():
    common.use_repo()
    from netqasm.backend import messages as M
    from netqasm.lang import encoding as E
    return M, E


def is_signed(ctype):
    return ctype(-1).value < 0


def leaves(cls, base_bit=0, prefix=()):
    """[(path tuple, start bit, width, signed)] in declaration order"""
    out = []
    seen = set()
    for klass in reversed(cls.__mro__):
        for f in klass.__dict__.get("_fields_", []):
            name, ctype = f[0], f[1]
            if name in seen:
                raise ValueError(f"field {name} declared twice in {cls}")
            seen.add(name)
            d = getattr(cls, name)
            if isinstance(ctype, type) and issubclass(ctype, ctypes.Structure):
                out += leaves(ctype, base_bit + 8 * d.offset, prefix + (name,))
            elif isinstance(ctype, type) and issubclass(ctype, ctypes.Array):
                raise ValueError(f"array field {name} in {cls}: not supported by the message model")
            elif len(f) == 3:
                width, bitofs = d.size >> 16, d.size & 0xFFFF
                if width != f[2]:
                    raise ValueError(f"bit-field descriptor of {cls}.{name} not understood")
                out.append((prefix + (name,), base_bit + 8 * d.offset + bitofs, width, is_signed(ctype)))
            else:
                out.append((prefix + (name,), base_bit + 8 * d.offset, 8 * d.size, is_signed(ctype)))
    return out


def get_leaf(obj, path):
    for p in path:
        obj = getattr(obj, p)
    return obj


def set_leaf(obj, path, v):
    for p in path[:-1]:
        obj = getattr(obj, p)
    setattr(obj, path[-1], v)


def read_leaves(obj, lv):
    return [int(get_leaf(obj, path)) for path, _, _, _ in lv]


def make_fixed(cls, lv, vals):
    """Build a real message of class `cls` whose leaves (in `lv` order) have `vals`, through
    the real constructor wherever it accepts the value; remaining leaves are assigned."""
    M, E = _imports()
    by = {path: v for (path, _, _, _), v in zip(lv, vals)}
    name = cls.__name__
    # the single payload leaf of the two enum-valued messages, whatever the ctypes field is called
    payload = [v for (path, _, _, _), v in zip(lv, vals) if path != ("type",)]
    if name == "ErrorMessage" and len(payload) == 1:
        code = payload[0]
        m = cls(M.ErrorCode(code)) if code in [e.value for e in M.ErrorCode] else cls(M.ErrorCode.GENERAL)
    elif name == "SignalMessage" and len(payload) == 1:
        sig = payload[0]
        m = cls(M.Signal(sig)) if sig in [e.value for e in M.Signal] else cls()
    elif name == "ReturnRegMessage":
        reg = E.Register.__new__(E.Register)  # avoid the range check: out-of-width probes are never used
        for (path, _, _, _) in lv:
            if path[0] == "register":
                setattr(reg, path[1], by[path])
        m = cls(reg, by[("value",)])
    else:
        params = [p for p in inspect.signature(cls.__init__).parameters if p != "self"]
        kw = {p: by[(p,)] for p in params if (p,) in by}
        if len(kw) != len(params):
            raise ValueError(f"constructor of {name} has parameters that are not fields: {params}")
        m = cls(**kw)
    for (path, _, _, _), v in zip(lv, vals):
        if int(get_leaf(m, path)) != v:
            set_leaf(m, path, v)
    return m


def probe_values(lv, ty):
    """leaf value lists: all-zero (type = ty), walking ones per leaf, all-max"""
    def base():
        return [ty if path == ("type",) else 0 for path, _, _, _ in lv]
    out = [base()]
    for k, (path, _, width, signed) in enumerate(lv):
        if path == ("type",):
            continue
        for b in range(width):
            v = base()
            v[k] = -(1 << (width - 1)) if (signed and b == width - 1) else (1 << b)
            out.append(v)
    mx = base()
    for k, (path, _, width, signed) in enumerate(lv):
        if path != ("type",):
            mx[k] = (1 << (width - 1)) - 1 if signed else (1 << width) - 1
    out.append(mx)
    return out


def collect():
    M, E = _imports()
    host = [(t.value, c) for t, c in M.MESSAGE_CLASSES.items()]
    ret = [(t.value, c) for t, c in M.RETURN_MESSAGE_CLASSES.items()]
    fixed = []
    for _, c in host + ret:
        if isinstance(c, type) and issubclass(c, ctypes.Structure):
            fixed.append(c)
    variable = [c for _, c in host + ret if c not in fixed]
    names = sorted(c.__name__ for c in variable)
    if names != ["ReturnArrayMessage", "SubroutineMessage"]:
        raise ValueError(f"unexpected variable-length message classes {names}")
    layouts = {}
    for c in fixed:
        lv = leaves(c)
        if lv != sorted(lv, key=lambda x: x[1]):
            raise ValueError(f"fields of {c.__name__} are not declared in increasing offset")
        layouts[c] = (ctypes.sizeof(c), lv, c.TYPE.value)
    hdr, opt = M.ReturnArrayMessageHeader, E.OptionalInt
    structs = {s: (ctypes.sizeof(s), leaves(s)) for s in (hdr, opt)}
    if [p[0] for p in structs[hdr][1]] != [("address", "address"), ("length",)]:
        raise ValueError("ReturnArrayMessageHeader no longer (address, length)")
    if len(structs[opt][1]) != 2 or structs[opt][1][0][0] != ("type",):
        raise ValueError("OptionalInt no longer (type, <integer>)")
    # probes
    enc, dec = [], []
    for c, (size, lv, ty) in layouts.items():
        for vals in probe_values(lv, ty):
            enc.append((c.__name__, vals, list(bytes(make_fixed(c, lv, vals)))))
        base = bytes(make_fixed(c, lv, probe_values(lv, ty)[0]))
        for pos in range(8 * size):
            raw = bytearray(base)
            raw[pos // 8] ^= 1 << (pos % 8)
            dec.append((c.__name__, list(raw), read_leaves(c.deserialize_from(bytes(raw)), lv)))
    senc = []
    for a in [0, 1, -1, 2 ** 31 - 1, -2 ** 31, 0x01020304]:
        for n in [0, 1, 255, 256, 2 ** 31 - 1, 0x0A0B0C0D]:
            senc.append((hdr.__name__, [a, n], list(bytes(hdr(address=E.Address(a), length=n)))))
    for v in [None, 0, 1, -1, 2 ** 31 - 1, -2 ** 31, 0x01020304, -0x01020304]:
        o = opt(v)
        tag = opt._NULL_TYPE if v is None else opt._INT_TYPE
        senc.append((opt.__name__, [tag, 0 if v is None else v], list(bytes(o))))
    return dict(M=M, E=E, host=host, ret=ret, layouts=layouts, structs=structs, hdr=hdr, opt=opt,
                enc=enc, dec=dec, senc=senc)


def lean_int(v):
    return str(v) if v >= 0 else f"({v})"


def lean_field(f):
    path, start, width, signed = f
    return "⟨%s, %d, %d, %s⟩" % (common.lean_str(".".join(path)), start, width, "true" if signed else "false")


def lean_layout(name, size, lv):
    return "⟨%s, %d, [%s]⟩" % (common.lean_str(name), size, ", ".join(lean_field(f) for f in lv))


def ints(l):
    return "[" + ", ".join(lean_int(v) for v in l) + "]"


def generate():
    d = collect()
    M, E = d["M"], d["E"]
    L = ["/- GENERATED by translate/msg_layouts.py from /repo — do not edit. -/",
         "import NetqasmVerif.Model.Msg", "namespace NQ.Gen", "open NQ.Msg", ""]
    L.append("def msgTables : Tables := {")
    L.append("  layouts := [")
    L.append(",\n".join("    ⟨%s, %d⟩" % (lean_layout(c.__name__, size, lv), ty)
                        for c, (size, lv, ty) in d["layouts"].items()))
    L.append("  ],")
    for key, tab in (("hostDispatch", d["host"]), ("returnDispatch", d["ret"])):
        L.append("  %s := [%s]," % (key, ", ".join("(%d, %s)" % (t, common.lean_str(c.__name__)) for t, c in tab)))
    L.append("  subroutineCls := %s," % common.lean_str(M.SubroutineMessage.__name__))
    L.append("  subroutineTy := %d," % M.SubroutineMessage.TYPE.value)
    L.append("  retArrCls := %s," % common.lean_str(M.ReturnArrayMessage.__name__))
    L.append("  retArrTy := %d," % M.ReturnArrayMessage.TYPE.value)
    for key, s in (("retArrHeader", d["hdr"]), ("optionalInt", d["opt"])):
        size, lv = d["structs"][s]
        L.append("  %s := %s," % (key, lean_layout(s.__name__, size, lv)))
    L.append("  nullTag := %d," % E.OptionalInt._NULL_TYPE)
    L.append("  intTag := %d" % E.OptionalInt._INT_TYPE)
    L.append("}")
    L.append("")
    L.append("/-- (class, leaf values, real `bytes(m)`) -/")
    L.append("def msgEncProbes : List (String × List Int × List Nat) := [")
    L.append(",\n".join("  (%s, %s, %s)" % (common.lean_str(c), ints(v), ints(b)) for c, v, b in d["enc"]))
    L.append("]")
    L.append("")
    L.append("/-- (class, wire bytes, leaf values of the real `deserialize_from`) -/")
    L.append("def msgDecProbes : List (String × List Nat × List Int) := [")
    L.append(",\n".join("  (%s, %s, %s)" % (common.lean_str(c), ints(b), ints(v)) for c, b, v in d["dec"]))
    L.append("]")
    L.append("")
    L.append("/-- (struct, leaf values, real bytes) for ReturnArrayMessageHeader and OptionalInt -/")
    L.append("def structEncProbes : List (String × List Int × List Nat) := [")
    L.append(",\n".join("  (%s, %s, %s)" % (common.lean_str(c), ints(v), ints(b)) for c, v, b in d["senc"]))
    L.append("]")
    L.append("")
    L.append("end NQ.Gen")
    common.write_if_changed(os.path.join(common.GEN_DIR, "MsgLayouts.lean"), "\n".join(L) + "\n")
    return ["NQ.MsgObl.msg_layouts_pinned", "NQ.MsgObl.layouts_wf", "NQ.MsgObl.structs_wf", "NQ.MsgObl.dispatch_ok",
            "NQ.MsgObl.enc_probes_match", "NQ.MsgObl.dec_probes_match", "NQ.MsgObl.struct_probes_match"]


if __name__ == "__main__":
    print(generate())
