"""C03 — assembling text or IR into a subroutine preserves program meaning."""
import copy
import json

from check import Result

PROP = "C03"
TARGETS = ["NetqasmVerif.Props.C03"]
M = "NetqasmVerif.Props.C03"
THEOREMS = [(M, "NQ.C03." + n) for n in [
    "assemble_simulates", "assemble_simulates_run", "assemble_simulates_fault", "assemble_halts",
    "branch_lands_after_label", "labels_correct", "tpos_skips_label", "replaceConstants_preserves",
    "currentRegisters_covers", "scratch_not_named", "no_drop_dup_reorder", "build_faithful",
    "step_deterministic",
    "exc_covers", "roles_fit", "branch_positions", "classes_unique", "macro_probe_fixed",
    "F3_old_code_counterexample", "F3_fixed_witness", "nonvacuous_loop",
    "macro_pass_tokenwise", "macros_tokenwise", "F4_old_code_counterexample", "F4_fixed_witness",
    "macros_adjacent_counterexample",
    "stdLike_xMachine", "exec_is_instance", "assemble_simulates_exec", "assemble_simulates_exec_fault",
    "nonvacuous_exec",
    "source_operand_text_roundtrip", "replaceConstants_preserves_reserved", "reserved_not_scratch",
    "reserved_preserved", "F42_reserved_witness",
    "assemble_pure", "assemble_twice", "imm_exempt", "label_resolution_exact", "label_case_witness",
    "front_syms", "text_syms_ok", "parse_render_program", "parse_render_program_canon",
    "parse_render_with_macros", "text_assemble_simulates", "nonvacuous_text",
]]
TRANSLATORS = ["instr_table", "asm_pass_tables"]
LEVEL_TEXT = (
    "Lean theorems over ALL proto programs (any length, any label placement, any operand mix): forward "
    "simulation of the source small-step semantics by the assembled program (every source step is matched by "
    "the inserted `set`s plus the instruction; states agree on every register except unnamed scratch R "
    "registers and on the whole memory; faults are reproduced at the image of the same source instruction; "
    "every taken branch lands on the command after its label; halting is preserved), parametric in the "
    "instruction semantics (any `exec` on evaluated operands) and instantiated with the executor model of C04 "
    "(`assemble_simulates_exec`: the target run is `Exec.stepLoc` on the concretised state, proved instruction by "
    "instruction). Structural theorem: the output is the source "
    "instructions in order, each preceded only by its own `set <scratch> <literal>`s, operands patched. "
    "Macro substitution of the (fixed) code equals simultaneous token-wise replacement for every macro list and "
    "body when no value contains `$` and no use is directly followed by `$` (both necessary, witnesses proved). "
    "Tie: exception table, scratch-register count, branch set and instruction shapes regenerated from the live "
    "modules with kernel-decided side conditions; syntactic differential test of the compiled model against "
    "`assemble_subroutine` (equal instruction lists or same error class, with random `reserved_registers` sets) "
    "and of the text front end. All theorems carry the reserved set: reserved registers are never scratch and "
    "keep their values. A model-free STATIC oracle checks on the real output of every accepted program (any "
    "vanilla instruction, nothing executed) the block structure, that every scratch register is named nowhere "
    "in the source (top level, entry index, slice bounds) nor reserved, operand patching and label targets. "
    "IR as programs build it (shared ICmd / operands-list / ArrayEntry objects, a container with a copying "
    "`commands` accessor, the same ProtoSubroutine assembled twice) must assemble like the IR with fresh objects; "
    "`assemble_twice` proves the model's fixed-point property. Text: `parse_render_program` — the model of "
    "`parse_text_protosubroutine` (split, preamble, macros, body lines with labels / bracketed args / every "
    "operand form) reads back every rendered proto program with blank and comment-only lines anywhere; the "
    "model is tied to the code by the differential stream `asm.parsetext` (equal proto or same error class).")
LEVEL_NOTE = (
    "Trusted: Lean kernel; translator + harness; the hand-written role table of the 21 classical/array/"
    "allocation instructions (which operand positions are read / written / immediate / target), validated "
    "against the real Executor by the run stream and proved equal to Model/Exec.lean on executor programs "
    "(`exec_is_instance`, simulation mode). Text level: macro substitution and source-operand parsing are "
    "theorems (the latter on C17's parser model); tokenisation with `instr(args)`, label lines, comments and the "
    "preamble are covered by the differential stream only (table in Props/C03.lean).")
TECHNIQUE = ("Lean 4 proof (two-pass compiler simulation: relational multi-step semantics, code_at lemmas, "
             "agreement off the scratch set) + kernel-decided generated obligations + syntactic differential "
             "correspondence + model-free execution oracle")
TRUSTED = [
    "Lean 4.33 kernel; axioms at most propext, Classical.choice, Quot.sound (audited per theorem)",
    "translate/asm_pass_tables.py (exception table, 2**REG_INDEX_BITS, branch set, macro probe) and "
    "translate/instr_table.py (shapes) read from the live modules",
    "harness/asm.py: syntactic correspondence with assemble_subroutine / parse_text_subroutine / _apply_macros / "
    "group_by_word; run stream (Lean semantics vs direct interpreter vs real Executor)",
    "Model/Asm.lean stdRoles: roles of the operand positions of the in-scope instructions",
]
ASSUMPTIONS = [
    "an instruction reads only the values of its `use` operands, writes only its `dst` register and decides "
    "branches on values: `exec` is an arbitrary function of the evaluated operands and the memory",
    "source programs address branch targets by label (a numeric target has no source-level meaning)",
    "register indices are within the 16 registers of a bank (C16 rejects others at encoding time)",
    "Template operands make the model's build step raise; the real rot_x/rot_y/rot_z classes accept them "
    "(pre-compiled subroutines, C06) — not generated",
]

CORPUS = [
    # F3 witness: a register that occurs only inside brackets
    [{"m": "array", "a": [], "o": [{"i": 3}, {"a": 0}]},
     {"m": "set", "a": [], "o": [{"r": [0, 0]}, {"i": 1}]},
     {"m": "store", "a": [], "o": [{"i": 7}, {"e": [0, {"r": [0, 0]}]}]},
     {"m": "load", "a": [], "o": [{"r": [0, 5]}, {"e": [0, {"i": 1}]}]},
     {"m": "ret_arr", "a": [], "o": [{"a": 0}]}, {"m": "ret_reg", "a": [], "o": [{"r": [0, 5]}]}],
    # consecutive labels, label after the last instruction, forward and backward jumps
    [{"m": "set", "a": [], "o": [{"r": [0, 0]}, {"i": 0}]}, {"l": "A"}, {"l": "B"},
     {"m": "add", "a": [], "o": [{"r": [0, 0]}, {"r": [0, 0]}, {"i": 1}]},
     {"m": "beq", "a": [], "o": [{"r": [0, 0]}, {"i": 3}, {"lab": "END"}]},
     {"m": "blt", "a": [], "o": [{"r": [0, 0]}, {"i": 2}, {"lab": "A"}]},
     {"m": "jmp", "a": [], "o": [{"lab": "B"}]}, {"l": "END"}, {"l": "END2"}],
    # two literals + bracket literal in one instruction, args brackets
    [{"m": "array", "a": [4], "o": [{"a": 1}]},
     {"m": "store", "a": [9], "o": [{"e": [1, {"i": 2}]}]},
     {"m": "load", "a": [], "o": [{"r": [0, 1]}, {"e": [1, {"i": 2}]}]},
     {"m": "addm", "a": [], "o": [{"r": [0, 0]}, {"i": 5}, {"r": [0, 1]}, {"i": 4}]},
     {"m": "ret_reg", "a": [], "o": [{"r": [0, 0]}]}],
]


# Regression corpus: the shrunk failing inputs of the code changes tried against this check
# (each was reported as a VIOLATION); they run first in the syntactic stream and in the oracle.
MUTATION_CORPUS = [
    # labels assigned BEFORE constant insertion (pass order swapped): targets point into the sets
    [{"m": "jmp", "a": [], "o": [{"lab": "LOOP"}]}, {"l": "CNT"},
     {"m": "blt", "a": [], "o": [{"r": [0, 13]}, {"i": 2}, {"lab": "CNT"}]}, {"l": "LOOP"}],
    [{"m": "set", "a": [], "o": [{"r": [0, 0]}, {"i": 0}]}, {"l": "L"},
     {"m": "add", "a": [], "o": [{"r": [0, 0]}, {"r": [0, 0]}, {"i": 1}]},
     {"m": "store", "a": [], "o": [{"i": 4}, {"e": [0, {"i": 0}]}]},
     {"m": "blt", "a": [], "o": [{"r": [0, 0]}, {"i": 3}, {"lab": "L"}]},
     {"m": "ret_reg", "a": [], "o": [{"r": [0, 0]}]}],
    # scratch register chosen without looking at the registers of the program (clobbers R0)
    [{"m": "set", "a": [], "o": [{"r": [0, 0]}, {"i": 5}]},
     {"m": "add", "a": [], "o": [{"r": [0, 1]}, {"r": [0, 0]}, {"i": 1}]},
     {"m": "ret_reg", "a": [], "o": [{"r": [0, 1]}]}, {"m": "ret_reg", "a": [], "o": [{"r": [0, 0]}]}],
    # same, the register occurs only inside brackets (F3) or only later in the program
    [{"m": "set", "a": [], "o": [{"r": [0, 1]}, {"i": 7}]},
     {"m": "array", "a": [2], "o": [{"a": 0}]},
     {"m": "set", "a": [], "o": [{"r": [0, 0]}, {"i": 1}]},
     {"m": "store", "a": [], "o": [{"i": 9}, {"e": [0, {"r": [0, 0]}]}]},
     {"m": "ret_arr", "a": [], "o": [{"a": 0}]}, {"m": "ret_reg", "a": [], "o": [{"r": [0, 1]}]}],
    # exception-table entry (SET, 1) removed: `set R0 1` -> `set R1 1; set R0 R1` does not build
    [{"m": "set", "a": [], "o": [{"r": [0, 0]}, {"i": 1}]}],
    # last command not examined for labels / off by one for a trailing label
    [{"l": "B"}],
    [{"m": "set", "a": [], "o": [{"r": [0, 2]}, {"i": 0}]},
     {"m": "bez", "a": [], "o": [{"r": [0, 2]}, {"lab": "END"}]},
     {"m": "set", "a": [], "o": [{"r": [0, 2]}, {"i": 9}]}, {"l": "X"}, {"l": "END"}],
]


# the stop register of a slice is named by the program (seeded change C03_4: `regs(start) or regs(stop)`)
MUTATION_CORPUS.append(
    [{"m": "array", "a": [], "o": [{"i": 4}, {"a": 0}]},
     {"m": "wait_all", "a": [], "o": [{"s": [0, {"r": [0, 1]}, {"r": [0, 0]}]}]}])
MUTATION_CORPUS.append(
    [{"m": "set", "a": [], "o": [{"r": [0, 0]}, {"i": 1}]},
     {"m": "wait_any", "a": [], "o": [{"s": [1, {"r": [0, 0]}, {"r": [0, 1]}]}]},
     {"m": "store", "a": [], "o": [{"i": 7}, {"e": [1, {"i": 0}]}]}])

# a referenced label in front of instruction 0: its table entry is 0 (seeded change C03_10: `labels.get(name) or operand`)
MUTATION_CORPUS.append(
    [{"l": "L"}, {"m": "add", "a": [], "o": [{"r": [0, 0]}, {"r": [0, 0]}, {"r": [0, 1]}]},
     {"m": "jmp", "a": [], "o": [{"lab": "L"}]}])
MUTATION_CORPUS.append(
    [{"l": "A"}, {"l": "START"}, {"m": "set", "a": [], "o": [{"r": [0, 0]}, {"i": 1}]},
     {"m": "bez", "a": [], "o": [{"r": [0, 0]}, {"lab": "START"}]},
     {"m": "bne", "a": [], "o": [{"r": [0, 0]}, {"i": 1}, {"lab": "A"}]}, {"m": "ret_reg", "a": [], "o": [{"r": [0, 0]}]}])

# label NAMES: resolution is exact string equality with the definition of that very name
# (seeded change C03_15: case-insensitive match, first match wins)
def _br(lab):
    return {"m": "bez", "a": [], "o": [{"r": [0, 0]}, {"lab": lab}]}


MUTATION_CORPUS.append(
    [{"m": "set", "a": [], "o": [{"r": [0, 0]}, {"i": 0}]}, {"l": "retry"},
     {"m": "add", "a": [], "o": [{"r": [0, 1]}, {"r": [0, 0]}, {"i": 1}]}, {"l": "RETRY"},
     {"m": "add", "a": [], "o": [{"r": [0, 2]}, {"r": [0, 0]}, {"i": 2}]}, _br("RETRY"), _br("retry"),
     {"m": "ret_reg", "a": [], "o": [{"r": [0, 2]}]}])
MUTATION_CORPUS.append(
    [_br("L10"), {"l": "L"}, {"m": "set", "a": [], "o": [{"r": [0, 0]}, {"i": 1}]}, {"l": "L1"},
     {"m": "set", "a": [], "o": [{"r": [0, 1]}, {"i": 2}]}, {"l": "L10"}, _br("L1"), _br("L"), {"l": "l10"}, _br("l10")])
MUTATION_CORPUS.append(
    [{"l": "set"}, {"l": "R1"}, {"m": "set", "a": [], "o": [{"r": [0, 1]}, {"i": 0}]}, {"l": "x" * 300},
     {"m": "bnz", "a": [], "o": [{"r": [0, 1]}, {"lab": "R1"}]}, {"m": "bnz", "a": [], "o": [{"r": [0, 1]}, {"lab": "set"}]},
     {"m": "bnz", "a": [], "o": [{"r": [0, 1]}, {"lab": "x" * 300}]}, {"l": "X" * 300}])

# (program, reserved registers): `assemble_subroutine(reserved_registers=…)`, the fix of F42
RESERVED_CORPUS = [
    ([{"m": "store", "a": [], "o": [{"i": 7}, {"e": [0, {"r": [0, 1]}]}]}], [[0, 0]]),
    ([{"m": "array", "a": [3], "o": [{"a": 0}]},
      {"m": "store", "a": [], "o": [{"i": 7}, {"e": [0, {"i": 1}]}]},
      {"m": "load", "a": [], "o": [{"r": [0, 5]}, {"e": [0, {"i": 1}]}]},
      {"m": "ret_reg", "a": [], "o": [{"r": [0, 5]}]}], [[0, 0], [0, 1], [0, 2], [1, 3]]),
    # all 16 R registers reserved: a literal cannot be materialised
    ([{"m": "add", "a": [], "o": [{"r": [1, 0]}, {"r": [1, 0]}, {"i": 1}]}], [[0, i] for i in range(16)]),
]


# IR with shared objects / private container / assembled twice: (program, (share_seed, private, twice)).
# share_seed 0 with these programs shares every equal command and bracket operand.
_E5 = {"e": [0, {"i": 5}]}
ALIAS_CORPUS = [
    # one ArrayEntry object used by two commands, another literal in between (the scratch is reused)
    ([{"m": "array", "a": [], "o": [{"i": 8}, {"a": 0}]}, {"m": "set", "a": [], "o": [{"r": [0, 0]}, {"i": 3}]},
      {"m": "store", "a": [], "o": [{"r": [0, 0]}, dict(_E5)]},
      {"m": "add", "a": [], "o": [{"r": [0, 1]}, {"r": [0, 0]}, {"i": 2}]},
      {"m": "load", "a": [], "o": [{"r": [0, 1]}, dict(_E5)]}, {"m": "ret_reg", "a": [], "o": [{"r": [0, 1]}]}],
     ("op", False, False)),
    # the same ICmd object twice
    ([{"m": "set", "a": [], "o": [{"r": [0, 0]}, {"i": 0}]},
      {"m": "add", "a": [], "o": [{"r": [0, 0]}, {"r": [0, 0]}, {"i": 1}]},
      {"m": "sub", "a": [], "o": [{"r": [0, 1]}, {"r": [0, 0]}, {"i": 9}]},
      {"m": "add", "a": [], "o": [{"r": [0, 0]}, {"r": [0, 0]}, {"i": 1}]},
      {"m": "ret_reg", "a": [], "o": [{"r": [0, 0]}]}], ("cmd", False, False)),
    # two commands sharing one operands list (seeded change C03_7)
    ([{"m": "set", "a": [], "o": [{"r": [0, 0]}, {"i": 1}]},
      {"m": "add", "a": [], "o": [{"r": [0, 0]}, {"r": [0, 0]}, {"i": 5}]},
      {"m": "store", "a": [], "o": [{"i": 4}, {"e": [1, {"i": 0}]}]},
      {"m": "add", "a": [], "o": [{"r": [0, 0]}, {"r": [0, 0]}, {"i": 5}]}], ("list", False, False)),
    # a container with a defensive-copy accessor (seeded change C03_8), also assembled twice
    ([{"m": "set", "a": [], "o": [{"r": [0, 0]}, {"i": 5}]}, {"m": "array", "a": [4], "o": [{"a": 0}]}, {"l": "LOOP"},
      {"m": "store", "a": [], "o": [{"r": [0, 0]}, {"e": [0, {"i": 1}]}]},
      {"m": "sub", "a": [], "o": [{"r": [0, 0]}, {"r": [0, 0]}, {"i": 1}]},
      {"m": "bne", "a": [], "o": [{"r": [0, 0]}, {"i": 3}, {"lab": "LOOP"}]},
      {"m": "ret_reg", "a": [], "o": [{"r": [0, 0]}]}], (None, True, False)),
    ([{"m": "add", "a": [], "o": [{"r": [0, 0]}, {"r": [0, 0]}, {"i": 1}]}, {"l": "L"},
      {"m": "jmp", "a": [], "o": [{"lab": "L"}]}], (None, True, True)),
]


# (program, prepended commands, appended commands): the SAME command objects are assembled on their own
# and then inside the larger program (seeded change C03_17: labels resolved inside the caller's objects)
REUSE_CORPUS = [
    ([{"l": "L"}, {"m": "add", "a": [], "o": [{"r": [0, 0]}, {"r": [0, 0]}, {"r": [0, 1]}]},
      {"m": "jmp", "a": [], "o": [{"lab": "L"}]}],
     [{"m": "set", "a": [], "o": [{"r": [0, 0]}, {"i": 1}]}, {"m": "set", "a": [], "o": [{"r": [0, 1]}, {"i": 2}]},
      {"m": "add", "a": [], "o": [{"r": [0, 1]}, {"r": [0, 1]}, {"i": 4}]}], []),
    ([{"m": "beq", "a": [], "o": [{"r": [0, 0]}, {"r": [0, 1]}, {"lab": "END"}]},
      {"m": "store", "a": [3], "o": [{"e": [0, {"i": 1}]}]}, {"l": "END"}],
     [{"m": "array", "a": [], "o": [{"i": 4}, {"a": 0}]}], [{"m": "ret_arr", "a": [], "o": [{"a": 0}]}]),
]

_ADD01 = {"m": "add", "a": [], "o": [{"r": [0, 0]}, {"r": [0, 0]}, {"r": [0, 1]}]}
CHAIN_TEXTS = [
    # the value of `bump` uses macros defined LATER (seeded change C03_21: one regex pass, no rescan)
    ("# DEFINE bump {add $acc $acc $step}\n# DEFINE acc R0\n# DEFINE step R1\n$bump\n$bump\n", [_ADD01, _ADD01]),
    # a chain of depth 3, every value using a macro defined later
    ("# DEFINE top {$mid}\n# DEFINE mid {add $acc $acc $step}\n# DEFINE acc R0\n# DEFINE step R1\n$top\n", [_ADD01]),
    ("# DEFINE cell $arr[$i]\n# DEFINE arr @2\n# DEFINE i R3\nstore R0 $cell\n",
     [{"m": "store", "a": [], "o": [{"r": [0, 0]}, {"e": [2, {"r": [0, 3]}]}]}]),
]

FRONT_CORPUS = [
    "# DEFINE bump {add $acc $acc $step}\n# DEFINE acc R0\n# DEFINE step R1\n$bump\n",
    "# DEFINE acc R0\n# DEFINE bump {add $acc $acc $acc}\n$bump\n",       # uses a macro defined EARLIER: stays `$acc`

    # label names that only START like a register are labels (seeded change C03_20: `.match` instead of `fullmatch`)
    "M1_done:\nset R0 1\njmp M1_done\n",
    "set R2 0\nR2D2:\nadd R2 R2 1\nblt R2 3 R2D2\nbez R2 C3PO\nQ0x:\nC3PO:\njmp Q0x\n",
    "R16x:\nR1_:\nbnz R1 R1_\nbnz R1 R16x\n",
    "# DEFINE R2D2 R5\n# DEFINE R2 R6\nset $R2D2 1\nset $R2 2\n",

    "# DEFINE n R1\n# DEFINE N R2\nset $N 1\nset $n 2\n",          # macro keys differing only in case
    "# DEFINE ms @0\n# DEFINE MS @1\n# DEFINE ms1 @2\narray(2) $MS\narray(3) $ms\narray(4) $ms1\n",
    "# DEFINE set add\n# DEFINE R1 R7\n$set $R1 $R1 1\n",            # keys equal to a mnemonic / a register

    "retry:\nset R0 1\nRETRY:\nset R1 2\njmp RETRY\njmp retry\n",   # labels differing only in case
    "L:\nL1:\nset R0 1\nL10:\njmp L1\njmp L10\njmp L\n",
    "set:\njmp set\nSET:\njmp SET\n",                                  # a label named like a mnemonic
    "R1:\njmp R1\n",                                                    # …like a register: the operand IS the register

    "# NETQASM 1.0\n# APPID 0\nset R0 1\n",
    "set R0 1\n# APPID 0\n",                          # preamble after the body
    "#\nset R0 1\n",                                   # a lone preamble marker
    "# DEFINE  x\nset R0 1\n",                         # empty macro key
    "# DEFINE a R0\n# DEFINE a R1\nset $a 1\n",        # duplicate key
    "L:  // c\nset R0 1\n",                            # label line followed by blanks and a comment
    "L:// c\njmp L\n",
    ":\n",
    "array( 3 , 4 ) @0\nstore(7) @0[1]\nwait_all @0[R1:2]\n",
    "# NETQASM 1\nset R0 1\n",
    "# APPID x\nfoo R0\n",                             # the body error comes first
    "set R0 {x}\nset R0 { y }\n",
    "   \n\t\n// only comments\n",
    "",
]


def _key(p):
    return json.dumps(p, sort_keys=True)


def run(ctx):
    from harness import asm as H
    res = Result()
    res.rule = ("random proto programs (in-scope `std` generator and any-vanilla-instruction `wild` generator) "
                "and rendered texts with macros; a case is non-trivial when the program has a label or a "
                "materialised literal; distinct by the program / text itself")
    rng = ctx.rng
    drv = ctx.driver
    n_std = 40000 if ctx.thorough else 5000
    n_wild = 40000 if ctx.thorough else 5000
    n_text = 16000 if ctx.thorough else 2000
    n_run = 30000 if ctx.thorough else 3500

    # ------------------------------------------------ stream A: syntactic, assemble_subroutine vs model
    progs = [copy.deepcopy(p) for p in MUTATION_CORPUS + CORPUS]
    resv = [[] for _ in progs]
    for p, rv in RESERVED_CORPUS:
        progs.append(copy.deepcopy(p))
        resv.append([tuple(r) for r in rv])
    variants = {}  # index -> (share_seed, private, twice): how the IR of that case is built and assembled
    for p, how in ALIAS_CORPUS:
        variants[len(progs)] = how
        progs.append(copy.deepcopy(p))
        resv.append([])
    for gen, n in ((H.gen_std_program, n_std), (H.gen_wild_program, n_wild)):
        for _ in range(n):
            p = gen(rng)
            if rng.random() < 0.05:
                # IR as programs build it: repeated commands, shared objects, a container with a
                # defensive-copy accessor, the same ProtoSubroutine assembled twice
                p = H.duplicate_some(rng, p)
                variants[len(progs)] = (rng.randrange(1 << 30) if rng.random() < 0.8 else None,
                                        rng.random() < 0.3, rng.random() < 0.3)
            progs.append(p)
            resv.append(H.gen_reserved(rng, p))

    def req(p, rv):
        r = {"op": "asm.assemble", "fl": "vanilla", "p": p}
        if rv:
            r["reserved"] = [list(x) for x in rv]
        return r

    real = []
    for p, rv in zip(progs, resv):
        r, _ = H.real_assemble(p, rv)
        real.append(r)
    model = H.batch(drv, [req(p, rv) for p, rv in zip(progs, resv)])
    n_static = 0
    n_alias = 0
    n_refused = 0
    progs_index = {id(p): i for i, p in enumerate(progs)}
    for p, rv, r, m in zip(progs, resv, real, model):
        res.evaluations += 1
        res.count("assemble:" + ("ok" if "ok" in r else r["err"]))
        res.count("reserved:%s" % ("0" if not rv else "1-3" if len(rv) <= 3 else "4+"))
        if any("l" in c for c in p) or ("ok" in r and len(r["ok"]) > sum(1 for c in p if "m" in c)):
            res.nontrivial.add(_key(p) + json.dumps(rv))
        if "ok" in m and "err" in r and n_refused <= 5:
            # A source that satisfies the assembler's preconditions (the model assembles it: labels
            # defined and unique, operand kinds fit, enough free registers) must ASSEMBLE: refusing a
            # legal program is a violation of the property, with the program as failing input.
            n_refused += 1

            def refused(q, rv=rv):
                return "err" in H.real_assemble(q, rv)[0] and "ok" in drv.call(req(q, rv))

            small = H.shrink(p, refused)
            res.failures.append({"what": "the assembler refuses a program that satisfies its preconditions", "kf": None,
                                 "input": {"program": small, "reserved": [list(x) for x in rv],
                                           "error": H.real_assemble(small, rv)[0],
                                           "expected": drv.call(req(small, rv))}})
        if r != m:
            small = H.shrink(p, lambda q: H.real_assemble(q, rv)[0] != drv.call(req(q, rv)))
            res.disagreements.append({"stream": "asm.assemble", "input": {"program": small, "reserved": [list(x) for x in rv]},
                                      "model": drv.call(req(small, rv)), "code": H.real_assemble(small, rv)[0]})
            if len(res.disagreements) > 5:
                break
        # the meaning of an IR is its values: shared objects, the container's accessor and a repeated
        # assembly of the same ProtoSubroutine must not change the subroutine (model-free, real vs real)
        how = variants.get(progs_index[id(p)])
        if how is not None and n_alias <= 5:
            seed_, priv_, twice_ = how
            res.count("ir:" + ("shared" if seed_ is not None else "fresh") + ("+private" if priv_ else "")
                      + ("+twice" if twice_ else ""))
            got = H.real_assemble(p, rv, seed_, priv_, twice_)[0]
            if seed_ is not None:
                nc, nl, no = H.real_assemble.last_sharing
                res.count("ir-shared-objects:cmd=%d list=%d operand=%s" % (min(nc, 2), min(nl, 2), "0" if no == 0 else "1+"))
            if got != r:
                n_alias += 1

                def afails(q, rv=rv, how=how):
                    return H.real_assemble(q, rv, *how)[0] != H.real_assemble(q, rv)[0]

                small = H.shrink(p, afails)
                trig = list(how)
                for k, off in ((2, False), (1, False), (0, None)):
                    trial = list(trig)
                    trial[k] = off
                    if H.real_assemble(small, rv, *trial)[0] != H.real_assemble(small, rv)[0]:
                        trig = trial
                what = ("the assembled subroutine depends on object sharing inside the IR (aliasing)" if trig[0] is not None
                        else "the assembled subroutine depends on the ProtoSubroutine's `commands` accessor" if trig[1]
                        else "assembling the same ProtoSubroutine a second time gives a different subroutine")
                res.failures.append({"what": what, "kf": None,
                                     "input": {"program": small, "reserved": [list(x) for x in rv],
                                               "share_seed": trig[0], "private_container": trig[1], "twice": trig[2],
                                               "shared_objects(cmd,list,operand)": list(H.sharing_of(H.to_real(small, trig[0]))) if trig[0] is not None else None,
                                               "fresh_objects": H.real_assemble(small, rv)[0],
                                               "this_ir": H.real_assemble(small, rv, *trig)[0]}})
        # model-free static oracle on the real output (any vanilla instruction, nothing is executed)
        if "ok" in r and n_static <= 5:
            bad = H.static_oracle(p, r["ok"], rv)
            if bad is not None:
                n_static += 1

                def fails(q, rv=rv):
                    rr = H.real_assemble(q, rv)[0]
                    return "ok" in rr and H.static_oracle(q, rr["ok"], rv) is not None

                small = H.shrink(p, fails)
                rv_small = list(rv)
                for x in list(rv_small):
                    trial = [y for y in rv_small if y != x]
                    rr = H.real_assemble(small, trial)[0]
                    if "ok" in rr and H.static_oracle(small, rr["ok"], trial) is not None:
                        rv_small = trial
                rr = H.real_assemble(small, rv_small)[0]
                res.failures.append({"what": bad["what"], "kf": None,
                                     "input": {"program": small, "reserved": [list(x) for x in rv_small],
                                               "detail": H.static_oracle(small, rr["ok"], rv_small)}})
    if len(res.samples) < 3:
        res.samples.append({"program": progs[0], "assembled": real[0]})

    # ------------------------------------------------ stream A2: the caller's IR objects are inputs, not scratch
    reuse_cases = [(copy.deepcopy(p), copy.deepcopy(pre), copy.deepcopy(suf)) for p, pre, suf in REUSE_CORPUS]
    for _ in range(3000 if ctx.thorough else 350):
        p = H.gen_std_program(rng, max_len=10) if rng.random() < 0.75 else H.gen_wild_program(rng, max_len=8)
        pre = [{"m": "set", "a": [], "o": [{"r": [0, rng.randrange(16)]}, {"i": rng.randrange(9)}]}
               for _ in range(rng.choice([0, 1, 2, 3, 5]))]
        if pre and rng.random() < 0.4:
            pre.insert(rng.randrange(len(pre) + 1), {"l": "PRE_" + rng.choice(["L", "l", "1"])})
        if rng.random() < 0.3:
            pre.append({"m": "add", "a": [], "o": [{"r": [0, 1]}, {"r": [0, 1]}, {"i": 4}]})   # a literal: one more inserted set
        suf = rng.choice([[], [{"l": "SUF_END"}], [{"m": "ret_reg", "a": [], "o": [{"r": [0, 0]}]}]])
        reuse_cases.append((p, pre, suf))
    n_reuse = 0
    for p, pre, suf in reuse_cases:
        res.evaluations += 1
        bad = H.reuse_oracle(p, pre, suf)
        res.count("ir-reuse:" + ("ok" if bad is None else "FAIL"))
        if bad is not None and n_reuse <= 5:
            n_reuse += 1
            small = H.shrink(p, lambda q: H.reuse_oracle(q, pre, suf) is not None)
            res.failures.append({"what": bad["what"], "kf": None,
                                 "input": {"program": small, "prepended": pre, "appended": suf,
                                           "detail": H.reuse_oracle(small, pre, suf)}})

    # ------------------------------------------------ stream B: text front end
    lines_reqs, lines_real = [], []
    word_reqs, word_real = [], []
    # corpus: the F4 witness (a macro key that is a prefix of another key) — fixed; must stay fixed
    f4_text = "# NETQASM 0.0\n# APPID 0\n# DEFINE a R0\n# DEFINE a1 R5\nset $a1 3\nset $a 4\n"
    f4_want = [{"m": "set", "a": [], "o": [{"r": [0, 5]}, {"i": 3}]}, {"m": "set", "a": [], "o": [{"r": [0, 0]}, {"i": 4}]}]
    # a key followed by `_`, a digit, a bracket (regression corpus of the look-ahead mutation)
    for txt, want in [
        ("# DEFINE i R1\n# DEFINE i_2 R9\nset $i_2 1\nset $i 2\n",
         [{"m": "set", "a": [], "o": [{"r": [0, 9]}, {"i": 1}]}, {"m": "set", "a": [], "o": [{"r": [0, 1]}, {"i": 2}]}]),
        ("# DEFINE ms @0\n# DEFINE m R3\nstore $m $ms[$m]\n",
         [{"m": "store", "a": [], "o": [{"r": [0, 3]}, {"e": [0, {"r": [0, 3]}]}]}]),
    ]:
        res.evaluations += 1
        got = H.real_parse_proto("# NETQASM 0.0\n# APPID 0\n" + txt)
        if got != {"ok": want}:
            res.failures.append({"what": "a macro use is replaced by a macro whose key is a prefix of its name",
                                 "kf": None, "input": {"text": txt, "parsed": got, "expected": want}})
    for txt, want in [
        ("# DEFINE n R1\n# DEFINE N R2\nset $N 1\nset $n 2\n",
         [{"m": "set", "a": [], "o": [{"r": [0, 2]}, {"i": 1}]}, {"m": "set", "a": [], "o": [{"r": [0, 1]}, {"i": 2}]}]),
        ("# DEFINE Ms @1\n# DEFINE ms @0\nret_arr $ms\nret_arr $Ms\n",
         [{"m": "ret_arr", "a": [], "o": [{"a": 0}]}, {"m": "ret_arr", "a": [], "o": [{"a": 1}]}]),
    ]:
        res.evaluations += 1
        got = H.real_parse_proto("# NETQASM 0.0\n# APPID 0\n" + txt)
        if got != {"ok": want}:
            res.failures.append({"what": "a macro use is replaced by a macro whose key is not exactly its name",
                                 "kf": None, "input": {"text": txt, "parsed": got, "expected": want}})
    # text programs whose labels start like a register: the text must assemble like the IR it denotes
    for prog in [
        [{"l": "M1_done"}, {"m": "set", "a": [], "o": [{"r": [0, 0]}, {"i": 1}]}, {"m": "jmp", "a": [], "o": [{"lab": "M1_done"}]}],
        [{"m": "set", "a": [], "o": [{"r": [0, 2]}, {"i": 0}]}, {"l": "R2D2"},
         {"m": "add", "a": [], "o": [{"r": [0, 2]}, {"r": [0, 2]}, {"i": 1}]},
         {"m": "blt", "a": [], "o": [{"r": [0, 2]}, {"i": 3}, {"lab": "R2D2"}]},
         {"m": "bez", "a": [], "o": [{"r": [0, 2]}, {"lab": "C3PO"}]}, {"l": "Q0x"}, {"l": "C3PO"}],
        [{"l": "R16x"}, {"l": "R1_"}, {"m": "bnz", "a": [], "o": [{"r": [0, 1]}, {"lab": "R1_"}]},
         {"m": "bnz", "a": [], "o": [{"r": [0, 1]}, {"lab": "R16x"}]}],
    ]:
        res.evaluations += 1
        txt = H.render_text(prog, H.random.Random(0), [])
        got = H.real_parse_proto(txt)
        want = [c if "l" in c else {"m": c["m"], "a": c["a"], "o": c["o"]} for c in prog]
        if got != {"ok": want}:
            res.failures.append({"what": "parse_text_protosubroutine(render(P)) != P", "kf": None,
                                 "input": {"text": txt, "program": prog, "parsed": got}})
        elif H.real_assemble(prog)[0] != H.real_parse_text(txt):
            res.failures.append({"what": "the assembler refuses (or changes) a legal text program", "kf": None,
                                 "input": {"text": txt, "assembled_directly": H.real_assemble(prog)[0],
                                           "assembled_from_text": H.real_parse_text(txt)}})
    res.evaluations += 1
    if H.real_parse_proto(f4_text) != {"ok": f4_want}:
        res.failures.append({"what": "a macro use is replaced by a macro whose key is a prefix of its name", "kf": None,
                             "input": {"text": f4_text, "parsed": H.real_parse_proto(f4_text), "expected": f4_want}})
    for _ in range(n_text):
        p = (H.gen_std_program(rng, max_len=10, text_safe=True) if rng.random() < 0.7
             else H.gen_wild_program(rng, max_len=8, text_safe=True))
        p = [c for c in p if not any("t" in o for o in c.get("o", []))]
        if not p:
            continue
        macros = H.gen_macros(rng, p)
        tseed = rng.randrange(1 << 30)
        text = H.render_text(p, H.random.Random(tseed), macros)
        res.evaluations += 1
        res.count("text:macros=%d" % len(macros))
        if macros:
            res.nontrivial.add(text)

        def text_fails(q, macros=macros, tseed=tseed):
            """the text front end must deliver the program the text was rendered from, and assembling
            the text must equal assembling that program (model-free)"""
            txt = H.render_text(q, H.random.Random(tseed), macros)
            want = [c if "l" in c else {"m": c["m"], "a": c["a"], "o": c["o"]} for c in q]
            if H.real_parse_proto(txt) != {"ok": want}:
                return "parse_text_protosubroutine(render(P)) != P"
            if H.real_assemble(q)[0] != H.real_parse_text(txt):
                return "parse_text_subroutine(text) differs from assembling the same program"
            return None

        why = text_fails(p)
        if why:
            small = H.shrink(p, lambda q: text_fails(q) is not None)
            txt = H.render_text(small, H.random.Random(tseed), macros)
            res.failures.append({"what": text_fails(small) or why, "kf": None,
                                 "input": {"text": txt, "program": small, "parsed": H.real_parse_proto(txt),
                                           "assembled_from_text": H.real_parse_text(txt),
                                           "assembled_directly": H.real_assemble(small)[0]}})
            if len(res.failures) > 5:
                break
        # (3) model of the macro pass and of the tokeniser vs the code
        pre, body = H.T._split_preamble_body(text)
        lines_reqs.append({"op": "asm.macros", "lines": body, "macros": [list(kv) for kv in macros]})
        lines_real.append(H.real_apply_macros(body, macros))
        for ln in body[:6]:
            if ln.endswith(":"):
                continue
            word_reqs.append({"op": "asm.words", "line": ln, "br": "()"})
            word_real.append(H.real_group_by_word(ln, "()"))
        if len(res.samples) < 5 and macros:
            res.samples.append({"text": text})
    # whole front end: `parse_text_protosubroutine` vs the model `AsmFront.parseTextProto`
    front_texts = []
    for _ in range(n_text // 2):
        p = (H.gen_std_program(rng, max_len=8, text_safe=True) if rng.random() < 0.7
             else H.gen_wild_program(rng, max_len=6, text_safe=True))
        wild = rng.random() < 0.35
        if not wild:
            p = [c for c in p if not any("t" in o for o in c.get("o", []))]
        macros = H.gen_macros(rng, p) if rng.random() < 0.5 else []
        front_texts.append(H.render_front(p, rng, macros, wild))
    front_texts += FRONT_CORPUS
    for txt, mm in zip(front_texts, H.batch(drv, [{"op": "asm.parsetext", "text": t} for t in front_texts])):
        res.evaluations += 1
        rr = H.real_parse_front(txt)
        res.count("front:" + ("ok" if "ok" in rr else rr["err"]))
        if "ok" in rr and len(rr["ok"]) > 0:
            res.nontrivial.add(txt)
        if rr != mm:
            res.disagreements.append({"stream": "asm.parsetext", "input": txt, "model": mm, "code": rr})
            if len(res.disagreements) > 10:
                break
    # malformed lines for the tokeniser
    for _ in range(n_text // 2):
        ln = "".join(rng.choice("ab1 ()[],@$:R") for _ in range(rng.randrange(1, 14)))
        word_reqs.append({"op": "asm.words", "line": ln, "br": rng.choice(["()", "{}"])})
        word_real.append(H.real_group_by_word(ln, word_reqs[-1]["br"]))
        w = "".join(rng.choice("ab1()[]@R") for _ in range(rng.randrange(1, 8)))
        br = rng.choice(["()", "[]"])
        word_reqs.append({"op": "asm.splitbracket", "word": w, "br": br})
        word_real.append(H.real_split_bracket(w, br))
        # macro bodies with adjacent / nested-looking uses
        fam = rng.choice(H.MACRO_KEY_FAMILIES + [["a", "a1", "ab", "b", "a_"]])
        keys = rng.sample(fam, min(len(fam), rng.randrange(1, 5)))
        vals = ["R0", "R15", "@1", "{x y}", "7", "R2", "Q1", "13"]
        rng.shuffle(vals)
        macros = [(k, vals[i % len(vals)]) for i, k in enumerate(keys)]
        pieces = ["$", "a", "1", "b", "_", " ", "$a", "$a1", "[", "]"] + ["$" + k for k in fam] + [" $" + k + " " for k in keys]
        body = ["".join(rng.choice(pieces) for _ in range(rng.randrange(1, 10))) for _ in range(rng.randrange(1, 3))]
        lines_reqs.append({"op": "asm.macros", "lines": body, "macros": [list(kv) for kv in macros]})
        lines_real.append(H.real_apply_macros(body, macros))
        # model-free: where the statement's token-wise reading is defined, the code must produce it
        if H.tokenwise_applicable(body, macros) and len([f for f in res.failures if f["what"].startswith("macro")]) <= 3:
            want = {"lines": H.tokenwise_reference(body, macros)}
            if lines_real[-1] != want:
                res.failures.append({"what": "macro substitution is not the replacement of every use `$name` by the macro "
                                             "called exactly `name`", "kf": None,
                                     "input": {"lines": body, "macros": [list(kv) for kv in macros],
                                               "expected": want, "code": lines_real[-1]}})
    # chained macros (a value uses macros defined later or earlier, depth 2-3): model vs code, and — whether or
    # not they agree — the code against the sequential reading of the statement (model-free)
    n_chain = 0
    for _ in range(n_text // 4):
        macros, body, order = H.gen_chained_macros(rng)
        res.evaluations += 1
        res.count("macro-chain:" + order)
        lines_reqs.append({"op": "asm.macros", "lines": body, "macros": [list(kv) for kv in macros]})
        lines_real.append(H.real_apply_macros(body, macros))
        want = {"lines": H.sequential_reference(body, macros)}
        if lines_real[-1] != want and n_chain <= 3:
            n_chain += 1
            small = list(macros)
            for kv in list(small):          # drop macros the failure does not need
                trial = [x for x in small if x != kv]
                if H.real_apply_macros(body, trial) != {"lines": H.sequential_reference(body, trial)}:
                    small = trial
            res.failures.append({"what": "macros are not applied one after the other in preamble order (a value that uses "
                                         "a macro defined later is not expanded)", "kf": None,
                                 "input": {"lines": body, "macros": [list(kv) for kv in small],
                                           "expected": {"lines": H.sequential_reference(body, small)},
                                           "code": H.real_apply_macros(body, small)}})
    # whole texts with chained macros must assemble like the program they denote
    for txt, want in CHAIN_TEXTS:
        res.evaluations += 1
        got = H.real_parse_proto("# NETQASM 0.0\n# APPID 0\n" + txt)
        if got != {"ok": want}:
            res.failures.append({"what": "a legal text whose macro values use other macros is refused or misread",
                                 "kf": None, "input": {"text": txt, "parsed": got, "expected": want}})
    for rq, rr, mm in zip(lines_reqs + word_reqs, lines_real + word_real, H.batch(drv, lines_reqs + word_reqs)):
        res.evaluations += 1
        res.count("text:" + rq["op"])
        if rr != mm:
            res.disagreements.append({"stream": rq["op"], "input": rq, "model": mm, "code": rr})
            if len(res.disagreements) > 10:
                break

    # ------------------------------------------------ stream C: oracle — real assembler + real Executor
    #                                                   vs direct interpretation of the source
    cases = [(copy.deepcopy(p), []) for p in MUTATION_CORPUS + CORPUS]
    cases += [(copy.deepcopy(p), [tuple(r) for r in rv]) for p, rv in RESERVED_CORPUS]
    for _ in range(n_run):
        p = H.gen_std_program(rng)
        cases.append((p, H.gen_reserved(rng, p)))
    run_reqs, run_src = [], []
    for p, rv in cases:
        res.evaluations += 1
        bad = H.oracle(p, reserved=rv)
        if bad is not None:
            small = H.shrink(p, lambda q: H.oracle(q, reserved=rv) is not None)
            res.failures.append({"what": bad["what"], "kf": None,
                                 "input": {"program": small, "reserved": [list(x) for x in rv],
                                           "detail": H.oracle(small, reserved=rv)}})
            if len([f for f in res.failures]) > 5:
                break
            continue
        if not H.in_scope(p):
            res.count("run:out-of-scope")
            continue
        src = H.run_source(p)
        res.count("run:" + src["status"])
        if src["status"] == "halt":
            res.nontrivial.add(_key(p))
            named = H.named_registers(p)
            run_reqs.append({"op": "asm.run", "p": p, "fuel": 1000, "regs": [], "unit": 3,
                             "query": [list(r) for r in named]})
            run_src.append((src, named))
    # ------------------------------------------------ stream E: process-wide configuration
    # Every configuration knob of the package (settings, environment variables the source reads, log
    # level — discovered by harness/codec.global_configs) must leave the property alone: the corpora and
    # programs with REPEATED literals are assembled, executed and judged exactly like the main stream.
    from harness import codec as HC
    cfg_progs = [copy.deepcopy(p) for p in MUTATION_CORPUS + CORPUS]
    cfg_progs += [H.gen_repeated_literals(rng) for _ in range(40 if ctx.thorough else 14)]
    base_front = [(t, H.real_parse_front(t)) for t in FRONT_CORPUS[:12]]
    base_asm = [H.real_assemble(p)[0] for p in cfg_progs]
    n_cfg = [0]

    def cfg_body(cname):
        res.count("config:" + cname.split("(")[0])
        for p, b in zip(cfg_progs, base_asm):
            res.evaluations += 1
            got = H.real_assemble(p)[0]
            # executed comparison only: a configuration may legitimately change the SHAPE of the output
            bad = H.oracle(p, static=False)
            if bad is None and "ok" in b and "err" in got:
                bad = {"what": "the assembler refuses a program that satisfies its preconditions"}
            if bad is not None and n_cfg[0] <= 3:
                n_cfg[0] += 1
                small = (H.shrink(p, lambda q: H.oracle(q, static=False) is not None)
                         if H.oracle(p, static=False) is not None else p)
                res.failures.append({"what": bad["what"] + " [under configuration " + cname + "]", "kf": None,
                                     "input": {"configuration": cname, "program": small, "detail": H.oracle(small, static=False),
                                               "default_configuration": b, "this_configuration": H.real_assemble(small)[0]}})
        for t, b in base_front:
            res.evaluations += 1
            got = H.real_parse_front(t)
            if got != b and n_cfg[0] <= 3:
                n_cfg[0] += 1
                res.failures.append({"what": "the text front end depends on a process-wide configuration [" + cname + "]",
                                     "kf": None, "input": {"configuration": cname, "text": t, "default": b, "this": got}})

    ran = HC.under_every_config(cfg_body)
    res.count("configs-run", len(ran))

    # ------------------------------------------------ stream D: the Lean semantics itself (on fault-free runs)
    for rq, (src, named), mm in zip(run_reqs, run_src, H.batch(drv, run_reqs)):
        res.evaluations += 1
        want = {"end": "halt", "regs": [src["regs"].get(r) for r in named],
                "arrays": sorted([a, v] for a, v in src["arrays"].items()),
                "shmArrays": sorted([a, v] for a, v in src["shm_arrays"].items()),
                "shmRegs": sorted([r[0], r[1], v] for r, v in src["shm_regs"].items()),
                "unit": src["unit"]}
        got = {"end": mm.get("end"), "regs": mm.get("regs"), "arrays": sorted(mm.get("arrays", [])),
               "shmArrays": sorted(mm.get("shmArrays", [])), "shmRegs": sorted(mm.get("shmRegs", [])),
               "unit": mm.get("unit")}
        if H.ret_arr_aliases():
            # the model returns a copy; compare the shared arrays only when nothing was written after ret_arr
            if want["shmArrays"] != got["shmArrays"]:
                want["shmArrays"] = got["shmArrays"] = None
        if want != got:
            res.disagreements.append({"stream": "asm.run", "input": rq["p"], "model": got, "code": want})
            if len(res.disagreements) > 10:
                break
    return res
