"""C20 — toolbox circuits implement their documented operators."""
import itertools
import math

import numpy as np

from check import Result

PROP = "C20"
M = "NetqasmVerif.Props.C20"
TARGETS = [M]
THEOREMS = [(M, "NQ.C20." + n) for n in [
    "toffoli_eq", "toffoliMat_is_ccx", "t_inverse_eq", "t_eighth_power", "conj_tables_ok",
    "parity_cases_match_model", "parity_cases_cover", "parity_observable_ancilla",
    "parity_observable_single", "basis_change_involutive", "cnots_target_ancilla",
    "single_flip_is_layer", "parity_meas_sound", "set_state", "rot_compose", "set_state_shape_ok",
    "set_state_angles_ok", "parity_call_restores_allocation", "parity_meas_repeated",
    "parity_stored_match_model", "parity_outcome_on_controller"]]
TRANSLATORS = ["toolbox"]
LEVEL_TEXT = (
    "Lean theorems: toffoli_eq / t_inverse_eq — the gate sequences the controller really received (recorded by "
    "running the real toolbox through SDK -> bytes -> real Executor) equal the 8x8 Toffoli up to a scalar / equal "
    "T-dagger exactly, in Z[zeta_8], decided by the kernel; parity_meas_sound — FOR EVERY NUMBER OF QUBITS and "
    "every signed Pauli string, about a Lean model of parity_meas's circuit construction: the measured observable "
    "pulled back through the emitted circuit in a Pauli-conjugation calculus is exactly the requested string "
    "(x Z on the fresh ancilla), the gates after the measurement are the basis-change layer again and that layer is "
    "an involution on every Pauli string, the CNOTs only target the ancilla, a leading minus flips the returned "
    "bit; every row of the conjugation tables (X,Y,Z,H,K,S; CNOT) is kernel-checked against the exact matrices; "
    "set_state — ring identity R_z(phi)R_y(theta)|0> = e^{-i phi/2}(cos|0> + e^{i phi} sin|1>). Tie: the model's "
    "event trace and returned values equal the recorded ones on all 168 signed strings of length <= 3 (kernel) "
    "and on random longer strings (differential stream); the calculus is compared with numpy conjugation. "
    "parity_outcome_on_controller: the returned handle is a controller-side array entry holding the SIGNED parity "
    "(kind and raw shared-memory value of all 168 cases kernel-checked), so host reads at any time, feed-forward, "
    "controller-side add and raw memory reads agree; parity_meas_repeated: any number of calls, allocation restored.")
LEVEL_NOTE = (
    "Trusted: Lean kernel; Heisenberg-picture measurement (measuring Z after C = measuring C^dagger Z C before); "
    "locality of conjugation on tensor factors; Z[zeta_8] embeds in C; angle addition for (cos, sin) pairs; "
    "translator + pipeline harness (state-vector back end written for the check). set_qubit_state's closeness "
    "to the float angles is C19's subject; here the emitted shape (Y rotations then Z rotations) is checked and "
    "the oracle measures the prepared state.")
TECHNIQUE = ("Lean 4 proof (generic induction in a Pauli-conjugation calculus with kernel-checked tables; kernel-decided "
             "exact operator identities over recorded sequences; ring identity) + differential correspondence + "
             "full-pipeline state-vector oracle")
TRUSTED = [
    "Lean 4.33 kernel; axioms at most propext, Classical.choice, Quot.sound (audited per theorem)",
    "Heisenberg picture: measuring Z on a qubit after a circuit C equals measuring C^dagger Z C before it",
    "conjugation by a gate on qubit q acts on the q-th tensor factor only; Z[zeta_8] -> C injective",
    "translate/toolbox.py + harness/pipeline_sv.py: trace of what the real Executor receives after real serialisation",
    "numpy state-vector back end of the oracle (closed-form gate matrices)",
]
ASSUMPTIONS = [
    "data qubits of parity_meas are distinct live qubits; the ancilla is freshly initialised to |0>",
    "set_qubit_state is called on a qubit in |0>, with non-negative angles; tolerance = the SDK's default "
    "angle tolerance (1e-4 in units of pi per rotation axis)",
    "create_ghz (multi_node.py) is outside the property statement",
]

PAULI = {"I": np.eye(2, dtype=complex), "X": np.array([[0, 1], [1, 0]], dtype=complex),
         "Y": np.array([[0, -1j], [1j, 0]], dtype=complex), "Z": np.array([[1, 0], [0, -1]], dtype=complex)}


def pauli_matrix(s):
    out = np.eye(1, dtype=complex)
    for ch in s:
        out = np.kron(out, PAULI[ch])
    return out


def rand_state(rng, n):
    v = np.array([rng.gauss(0, 1) + 1j * rng.gauss(0, 1) for _ in range(2 ** n)])
    return v / np.linalg.norm(v)


def phase_dist(a, b):
    ov = np.vdot(b, a)
    if abs(ov) < 1e-12:
        return float(np.linalg.norm(a - b))
    return float(np.linalg.norm(a - (ov / abs(ov)) * b))


def _tb():
    from vlib import common
    common.use_repo()
    from netqasm.sdk import toolbox
    return toolbox


def fmt_state(v):
    return [f"{complex(x):.6g}" for x in v]


# ------------------------------------------------------------------ oracle: full pipeline

def run_unitary(fn, nq, psi):
    from harness import pipeline_sv as P
    s = P.Session(simulate=True)
    try:
        qs = s.qubits(nq)
        s.set_state(psi)
        fn(*qs)
        s.flush()
        return s.state()
    finally:
        s.close()


def oracle_gates(ctx, res):
    tb = _tb()
    rng = ctx.rng
    tof = np.eye(8, dtype=complex)
    tof[[6, 7]] = tof[[7, 6]]
    tdag = np.diag([1, np.exp(-1j * math.pi / 4)])
    n_rand = 12 if ctx.thorough else 3
    for name, fn, nq, target in (("toffoli_gate", tb.toffoli_gate, 3, tof), ("t_inverse", tb.t_inverse, 1, tdag)):
        inputs = [("basis %d" % j, np.eye(2 ** nq, dtype=complex)[j]) for j in range(2 ** nq)]
        inputs += [("random", rand_state(rng, nq)) for _ in range(n_rand)]
        # a relative-phase-sensitive input
        inputs.append(("uniform", np.ones(2 ** nq, dtype=complex) / math.sqrt(2 ** nq)))
        ref_phase = None
        for label, psi in inputs:
            res.evaluations += 1
            res.count("oracle:" + name)
            res.nontrivial.add((name, label, tuple(np.round(psi, 6))))
            out = run_unitary(fn, nq, psi)
            want = target @ psi
            d = phase_dist(out, want)
            # the global phase must also be the same for every input (operator, not just states)
            ov = np.vdot(want, out)
            ph = ov / abs(ov) if abs(ov) > 1e-9 else None
            if ref_phase is None:
                ref_phase = ph
            phase_bad = ph is not None and ref_phase is not None and abs(ph - ref_phase) > 1e-7
            if d > 1e-9 or phase_bad:
                res.failures.append({"what": f"{name} does not implement its operator", "kf": None,
                                     "input": {"function": name, "input_state": label, "psi": fmt_state(psi),
                                               "got": fmt_state(out), "expected": fmt_state(want),
                                               "distance": d, "relative_phase_between_inputs": bool(phase_bad)}})


def oracle_set_state(ctx, res):
    tb = _tb()
    rng = ctx.rng
    n = 200 if ctx.thorough else 40
    tol = math.pi * 1e-4 * 1.1 + 1e-9
    cases = [(0.0, 0.0), (math.pi, 0.0), (math.pi / 2, math.pi / 2), (math.pi / 2, math.pi), (1.0, 2.0)]
    cases += [(rng.uniform(0, math.pi), rng.uniform(0, 2 * math.pi)) for _ in range(n)]
    # the documented state is defined for every real (theta, phi): negative angles, angles beyond
    # 2 pi and below -2 pi, exact multiples
    cases += [(-math.pi / 3, 1.0), (1.0, -math.pi / 3), (-2 * math.pi - math.pi / 3, 0.5),
              (math.pi / 2, -5 * math.pi / 2), (7 * math.pi + 0.25, 9 * math.pi - 0.5), (-4 * math.pi, 4 * math.pi),
              (2 * math.pi, 0.3), (0.3, 2 * math.pi)]
    cases += [(rng.uniform(-25, 25), rng.uniform(-25, 25)) for _ in range(n // 2)]
    for theta, phi in cases:
        res.evaluations += 1
        res.count("oracle:set_qubit_state")
        res.nontrivial.add(("set_state", round(theta, 9), round(phi, 9)))
        try:
            out = run_unitary(lambda q: tb.set_qubit_state(q, phi=phi, theta=theta), 1,
                              np.array([1, 0], dtype=complex))
        except Exception as exc:  # a finite angle must be realised, not rejected
            res.failures.append({"what": "set_qubit_state raises for finite angles", "kf": None,
                                 "input": {"theta": theta, "phi": phi,
                                           "error": f"{type(exc).__name__}: {str(exc)[:200]}"}})
            continue
        want = np.array([math.cos(theta / 2), np.exp(1j * phi) * math.sin(theta / 2)])
        d = phase_dist(out, want)
        if d > tol:
            res.failures.append({"what": "set_qubit_state does not prepare the documented state within tolerance",
                                 "kf": None, "input": {"theta": theta, "phi": phi, "got": fmt_state(out),
                                                       "expected": fmt_state(want), "distance": d, "tolerance": tol}})


def run_parity(bases, negative, psi, forced):
    """-> (returned m, (p0, p1) or None, post state, trace)"""
    from harness import pipeline_sv as P
    tb = _tb()
    s = P.Session(simulate=True, max_qubits=10)
    try:
        qs = s.qubits(len(bases))
        s.set_state(psi)
        s.ex.script = [] if forced is None else [forced]
        m = tb.parity_meas(qs, ("-" if negative else "") + bases)
        s.flush()
        probs = s.ex.meas_probs[0] if s.ex.meas_probs else None
        raw = [e[2] for e in s.ex.trace if e[0] == "meas"]
        return int(m), probs, s.state(), (raw[0] if raw else None), list(s.ex.trace)
    finally:
        s.close()


def oracle_parity(ctx, res, strings):
    rng = ctx.rng
    for bases in strings:
        n = len(bases)
        P_ = pauli_matrix(bases)
        for negative in (False, True):
            signed = -P_ if negative else P_
            inputs = [("random", rand_state(rng, n))]
            if ctx.thorough:
                inputs.append(("random", rand_state(rng, n)))
            j = rng.randrange(2 ** n)
            inputs.append(("basis %d" % j, np.eye(2 ** n, dtype=complex)[j]))
            for label, psi in inputs:
                first = run_parity(bases, negative, psi, None)
                runs = [first]
                if first[1] is not None:
                    other = 1 - first[3]
                    if first[1][other] > 1e-9:
                        runs.append(run_parity(bases, negative, psi, other))
                seen_prob = 0.0
                for (m, probs, post, raw, _trace) in runs:
                    res.evaluations += 1
                    res.count("oracle:parity_meas")
                    res.count("parity-len:%d" % n)
                    res.nontrivial.add(("parity", bases, negative, label, raw))
                    proj = (np.eye(2 ** n) + (-1) ** m * signed) / 2
                    want = proj @ psi
                    p_want = float(np.vdot(want, want).real)
                    p_got = 1.0 if probs is None else probs[raw]
                    seen_prob += p_got
                    bad = None
                    if abs(p_got - p_want) > 1e-9:
                        bad = f"outcome {m} returned with probability {p_got:.9f}, the observable gives {p_want:.9f}"
                    elif p_want > 1e-12 and phase_dist(post, want / math.sqrt(p_want)) > 1e-8:
                        bad = f"post-measurement state for outcome {m} is not the projection onto the eigenspace"
                    if bad:
                        res.failures.append({"what": "parity_meas does not measure the requested signed Pauli string",
                                             "kf": None,
                                             "input": {"bases": ("-" if negative else "") + bases,
                                                       "input_state": label, "psi": fmt_state(psi),
                                                       "detail": bad, "returned": m,
                                                       "post_state": fmt_state(post)}})
                if len(runs) == 2 and abs(seen_prob - 1) > 1e-9:
                    res.failures.append({"what": "parity_meas outcome probabilities do not sum to 1", "kf": None,
                                         "input": {"bases": bases, "negative": negative, "psi": fmt_state(psi)}})


def oracle_parity_sequences(ctx, res, strings):
    """Several parity measurements on ONE connection (the documented operator must not depend on
    what was measured before): each step is judged like a single measurement, with the state the
    previous step left behind as its input."""
    from harness import pipeline_sv as P
    tb = _tb()
    rng = ctx.rng
    n_seq = 60 if ctx.thorough else 14
    multi = [b for b in strings if sum(c != "I" for c in b) >= 2] or list(strings)
    for _ in range(n_seq):
        n = rng.choice([2, 3])
        pool = [b for b in multi if len(b) == n]
        if not pool:
            continue
        steps = [(rng.choice(pool), rng.random() < 0.5, rng.randrange(2)) for _ in range(rng.choice([2, 3]))]
        s = P.Session(simulate=True, max_qubits=10)
        try:
            qs = s.qubits(n)
            psi = rand_state(rng, n)
            s.set_state(psi)
            for k, (bases, negative, forced) in enumerate(steps):
                signed = (-1 if negative else 1) * pauli_matrix(bases)
                before = len(s.ex.meas_probs)
                proj_f = (np.eye(2 ** n) + (-1) ** forced * signed) / 2
                # force the ancilla outcome that corresponds to the wanted parity if it is possible
                s.ex.script = []
                m = tb.parity_meas(qs, ("-" if negative else "") + bases)
                s.flush()
                res.evaluations += 1
                res.count("oracle:parity-sequence-step")
                res.nontrivial.add(("parity-seq", tuple(steps[:k + 1])))
                m = int(m)
                try:
                    post = s.state()
                except P.ExtraQubitsEntangled as exc:
                    res.failures.append({"what": "parity_meas leaves the measured qubits entangled with a kept qubit",
                                         "kf": None, "input": {"steps": steps[:k + 1], "detail": str(exc)}})
                    break
                want = ((np.eye(2 ** n) + (-1) ** m * signed) / 2) @ psi
                p_want = float(np.vdot(want, want).real)
                if p_want < 1e-12 or phase_dist(post, want / math.sqrt(p_want)) > 1e-8:
                    res.failures.append({"what": "parity_meas does not measure the requested signed Pauli string "
                                                 "when used repeatedly on one connection", "kf": None,
                                         "input": {"steps": [list(x) for x in steps[:k + 1]], "psi": fmt_state(psi),
                                                   "returned": m, "post_state": fmt_state(post),
                                                   "probability_of_returned_outcome": p_want}})
                    break
                psi = post
                del before, proj_f
        finally:
            s.close()


def _true_bit(signed, psi, post):
    """the signed-parity bit b with post = P_b psi / |P_b psi| (model-free: read off the state)"""
    n2 = len(psi)
    best, bestd = None, None
    for b in (0, 1):
        want = ((np.eye(n2) + (-1) ** b * signed) / 2) @ psi
        p = float(np.vdot(want, want).real)
        if p < 1e-12:
            continue
        d = phase_dist(post, want / math.sqrt(p))
        if bestd is None or d < bestd:
            best, bestd = b, d
    return best, bestd


def oracle_parity_consumption(ctx, res, strings):
    """Every way an outcome of parity_meas can be consumed, and WHEN the host reads it.
    One connection, several subroutines. In the subroutine of each call the outcome is additionally
    (a) fed forward (`with m.if_eq(1): fresh.X()`, the fresh qubit is measured), (b) added into an array
    entry on the controller; after the flush (c) the raw array entry / register is read from shared memory.
    Each handle is read by the host EITHER right after its own flush OR for the first time only after all
    later subroutines (which measure other things, also into registers) have run. The reference bit is
    read off the post-measurement state. (Re-reading a handle is not exercised: F41, C05.)"""
    from harness import pipeline_sv as P
    from netqasm.sdk.futures import Future, RegFuture
    from netqasm.sdk.qubit import Qubit
    tb = _tb()
    rng = ctx.rng
    n_seq = 120 if ctx.thorough else 30

    def fail(what, steps, k, detail):
        res.failures.append({"what": what, "kf": None,
                             "input": {"steps": [list(x) for x in steps], "failing_step": k, **detail}})

    for it in range(n_seq):
        n = rng.choice([1, 2, 3])
        pool = [b for b in strings if len(b) == n]
        steps = [(rng.choice(pool), rng.random() < 0.5, rng.choice(["none", "feed", "sum", "both"]),
                  (rng.random() < 0.5) if it % 2 else (k > 0))  # read immediately?
                 for k in range(rng.choice([2, 3]))]
        s = P.Session(simulate=True, max_qubits=10)
        deferred = []
        try:
            conn = s.conn
            qs = s.qubits(n)
            psi = rand_state(rng, n)
            s.set_state(psi)
            for k, (bases, negative, consume, read_now) in enumerate(steps):
                signed = (-1 if negative else 1) * pauli_matrix(bases)
                m = tb.parity_meas(qs, ("-" if negative else "") + bases)
                handles = {}
                if isinstance(m, (Future, RegFuture)):
                    if consume in ("feed", "both"):
                        f = Qubit(conn)
                        with m.if_eq(1):
                            f.X()
                        handles["feed-forward (conditional X on a fresh qubit, measured)"] = f.measure()
                    if consume in ("sum", "both"):
                        acc = conn.new_array(1, init_values=[0]).get_future_index(0)
                        acc.add(m.reg if isinstance(m, RegFuture) else m)
                        handles["controller-side add into an array entry"] = acc
                s.flush()
                res.evaluations += 1
                res.count("oracle:parity-consumption:" + consume)
                res.count("oracle:parity-read:" + ("immediate" if read_now else "late"))
                res.nontrivial.add(("parity-consume", it, k, bases, negative, consume, read_now))
                post = s.state()
                bit, dist = _true_bit(signed, psi, post)
                if bit is None or dist > 1e-8:
                    fail("parity_meas does not measure the requested signed Pauli string when used repeatedly "
                         "on one connection", steps[:k + 1], k, {"psi": fmt_state(psi), "post_state": fmt_state(post)})
                    break
                psi = post
                # (c) what the controller itself holds for the returned handle
                if isinstance(m, Future) and isinstance(m._index, int):
                    raw = conn.shared_memory.get_array_part(address=m._address, index=m._index)
                    if raw != bit:
                        fail("the controller-side value of a parity_meas outcome is not the signed parity",
                             steps[:k + 1], k, {"consumed_by": "raw array entry in shared memory", "got": raw,
                                                "expected": bit})
                checks = [("host read of the returned handle", m)] + list(handles.items())
                if read_now:
                    _judge_reads(res, checks, bit, steps[:k + 1], k, "right after its own flush", fail)
                else:
                    deferred.append((k, checks, bit))
            else:
                # later subroutines that measure other things, into a register and into an array
                want1 = 1 - deferred[0][2] if deferred else rng.randrange(2)
                for rounds in range(rng.choice([1, 2])):
                    d1, d2 = Qubit(conn), Qubit(conn)
                    if want1:
                        d1.X()
                    else:
                        d2.X()
                    d1.measure(store_array=False)
                    d2.measure()
                    s.flush()
                for k, checks, bit in deferred:
                    _judge_reads(res, checks, bit, steps, k, "first read after later subroutines", fail)
        finally:
            s.close()


def _judge_reads(res, checks, bit, steps, k, when, fail):
    for how, h in checks:
        got = h if isinstance(h, int) and not hasattr(h, "value") else h.value
        if got != bit:
            what = ("a parity_meas outcome read by the host for the first time after later subroutines is not "
                    "the measured parity" if when.startswith("first") and how.startswith("host")
                    else "a parity_meas outcome consumed on the controller does not carry the signed parity"
                    if not how.startswith("host") else
                    "parity_meas returns a bit that is not the measured signed parity")
            fail(what, steps, k, {"consumed_by": how, "read": when, "got": got, "expected": bit})


def _session_with_ids(n_alloc, free_idx, role_order, nv=False):
    """a session whose live qubits have chosen virtual ids: allocate `n_alloc` qubits (ids 0..), measure the
    ones in `free_idx` destructively (their ids become free again: the next allocation — the ancilla of
    parity_meas — takes the LOWEST free id), and return the others in `role_order` (a permutation)"""
    from harness import pipeline_sv as P
    s = P.Session(simulate=True, max_qubits=10, nv=nv)
    qs = s.qubits(n_alloc)
    for i in free_idx:
        qs[i].measure()
    if free_idx:
        s.flush()
    kept = [q for i, q in enumerate(qs) if i not in free_idx]
    s.qs = [kept[i] for i in role_order]
    s.ex.trace.clear()
    s.ex.meas_probs.clear()
    return s


def oracle_role_permutations(ctx, res):
    """ROLE / ID PERMUTATIONS: the documented operators are stated in terms of the ROLES of the arguments
    (control1, control2, target; i-th letter of the string <-> i-th qubit), whatever virtual ids the qubits
    happen to have. Every order of ids relative to roles is exercised: the two-qubit SDK gates for every
    ordered id pair, toffoli_gate for all 6 role assignments of three qubits (also with gaps in the ids),
    parity_meas with the data qubits in every id order and the ancilla id below / between / above them
    (alloc-free-alloc histories)."""
    import itertools as it
    tb = _tb()
    rng = ctx.rng
    cnot = np.array([[1, 0, 0, 0], [0, 1, 0, 0], [0, 0, 0, 1], [0, 0, 1, 0]], dtype=complex)
    cz = np.diag([1, 1, 1, -1]).astype(complex)
    tof = np.eye(8, dtype=complex)
    tof[[6, 7]] = tof[[7, 6]]

    def judge(name, s, roles_desc, psi, target, fn):
        ids = [q.qubit_id for q in s.qs]
        res.evaluations += 1
        res.count("oracle:roles:" + name)
        res.nontrivial.add(("roles", name, tuple(ids), tuple(np.round(psi, 6))))
        try:
            s.set_state(psi)
            fn(*s.qs)
            s.flush()
            out = s.state()
        except Exception as exc:  # the real code raises for a legal input: that is the failing input
            res.failures.append({"what": f"{name} raises / makes the controller fault for a legal input (qubit ids "
                                         "not in the order of their roles)", "kf": None,
                                 "input": {"function": name, "virtual_ids_by_role": dict(zip(roles_desc, ids)),
                                           "error": f"{type(exc).__name__}: {str(exc)[:200]}"}})
            return
        finally:
            s.close()
        want = target @ psi
        d = phase_dist(out, want)
        if d > 1e-9:
            res.failures.append({"what": f"{name} does not implement its operator when the qubits' virtual ids "
                                         "are not in the order of their roles", "kf": None,
                                 "input": {"function": name, "virtual_ids_by_role": dict(zip(roles_desc, ids)),
                                           "psi": fmt_state(psi), "got": fmt_state(out),
                                           "expected": fmt_state(want), "distance": d}})

    # (1) the SDK's two-qubit gates, every ordered pair of ids out of three qubits
    for a, b in it.permutations(range(3), 2):
        for name, mat, meth in (("Qubit.cnot", cnot, "cnot"), ("Qubit.cphase", cz, "cphase")):
            s = _session_with_ids(3, [], [a, b, 3 - a - b])
            psi = rand_state(rng, 3)
            judge(name, s, ["control", "target", "spectator"], psi, np.kron(mat, np.eye(2)),
                  lambda c, t, _sp, meth=meth: getattr(c, meth)(t))
    # (2) toffoli_gate: all 6 role assignments; contiguous ids and ids with a gap (id 0 or 1 freed)
    n_rand = 3 if ctx.thorough else 1
    for free in ([], [0], [1]):
        for perm in it.permutations(range(3)):
            inputs = [np.eye(8, dtype=complex)[j] for j in ((6, 7, 3, 5) if not free else (6, 5))]
            inputs += [rand_state(rng, 3) for _ in range(n_rand)]
            for psi in inputs:
                s = _session_with_ids(3 + len(free), free, list(perm))
                judge("toffoli_gate", s, ["control1", "control2", "target"], psi, tof, tb.toffoli_gate)
    # (2b) the same under the NV flavour: connection compiled with NVSubroutineTranspiler, controller decoding
    # NV instructions; virtual id 0 (the electron) in EVERY role (control1 / control2 / target)
    for perm in it.permutations(range(3)):
        inputs = [np.eye(8, dtype=complex)[j] for j in (6, 7)] + [rand_state(rng, 3) for _ in range(n_rand)]
        for psi in inputs:
            s = _session_with_ids(3, [], list(perm), nv=True)
            judge("toffoli_gate [NV transpiler]", s, ["control1", "control2", "target"], psi, tof, tb.toffoli_gate)
    # (3) parity_meas: data qubits in every id order; ancilla id below, between, above the data ids
    strings2 = ["XX", "ZZ", "XZ", "YX", "ZY"]
    strings3 = ["XYZ", "ZZI", "IXX", "YIZ"]
    histories = [(2, [], "above"), (3, [0], "below"), (3, [1], "between"),
                 (3, [], "above"), (4, [0], "below"), (4, [1], "between"), (4, [2], "between")]
    # under the NV transpiler only histories in which virtual id 0 is live when the CNOTs run (carbon-carbon
    # gates borrow it): ancilla ON id 0 (carbon -> electron CNOTs) and ancilla above data qubits 0, 1(, 2)
    histories = [(a, f, w, False) for a, f, w in histories] + \
        [(3, [0], "below", True), (2, [], "above", True), (3, [], "above", True), (4, [0], "below", True)]
    for n_alloc, free, where, nv in histories:
        n = n_alloc - len(free)
        for perm in it.permutations(range(n)):
            for bases in (strings2 if n == 2 else strings3):
                negative = rng.random() < 0.5
                if not ctx.thorough and rng.random() < (0.0 if n == 2 else 0.5):
                    continue
                s = _session_with_ids(n_alloc, free, list(perm), nv=nv)
                ids = [q.qubit_id for q in s.qs]
                psi = rand_state(rng, n)
                signed = (-1 if negative else 1) * pauli_matrix(bases)
                res.evaluations += 1
                res.count("oracle:roles:parity_meas:ancilla-" + where + (":nv" if nv else ""))
                res.nontrivial.add(("roles", "parity", bases, negative, tuple(ids), nv))
                try:
                    s.set_state(psi)
                    m = tb.parity_meas(s.qs, ("-" if negative else "") + bases)
                    s.flush()
                    anc = [e[1][0] for e in s.ex.trace if e[0] == "qalloc"]
                    trace = list(s.ex.trace)
                    m = int(m)
                    post = s.state()
                    probs = s.ex.meas_probs[0] if s.ex.meas_probs else None
                    raw = [e[2] for e in s.ex.trace if e[0] == "meas"]
                except Exception as exc:  # the real code raises for a legal input: that is the failing input
                    res.failures.append({"what": "parity_meas raises / makes the controller fault for a legal input "
                                                 "(qubit ids not in the order of their roles)", "kf": None,
                                         "input": {"bases": ("-" if negative else "") + bases,
                                                   "virtual_ids_of_data_qubits_in_string_order": ids,
                                                   "flavour": "NV (compiler=NVSubroutineTranspiler)" if nv else "vanilla",
                                                   "history":
                                                   f"allocate {n_alloc} qubits, measure+free {free}, then parity_meas",
                                                   "error": f"{type(exc).__name__}: {str(exc)[:200]}"}})
                    continue
                finally:
                    s.close()
                # tie: relabelled by ROLE (i-th data qubit -> i, ancilla -> n) the real trace is the model's
                relabel = {vid: i for i, vid in enumerate(ids)}
                for a_id in anc:
                    relabel.setdefault(a_id, n)
                try:
                    code_trace = [ev_json((mn, [relabel[q] for q in qs_], a_, b_)) for mn, qs_, a_, b_ in trace]
                except KeyError:
                    code_trace = "touches a qubit that is neither a data qubit nor the ancilla"
                model_trace = ctx.driver.call({"op": "toolbox.parity", "bases": bases})["trace"]
                if not nv and code_trace != model_trace:
                    res.disagreements.append({"stream": "parity-model-by-role",
                                              "input": {"bases": bases, "virtual_ids": ids, "ancilla": anc},
                                              "model": model_trace, "code": code_trace})
                want = ((np.eye(2 ** n) + (-1) ** m * signed) / 2) @ psi
                p_want = float(np.vdot(want, want).real)
                p_got = 1.0 if probs is None else probs[raw[0]]
                bad = None
                if abs(p_got - p_want) > 1e-9:
                    bad = f"outcome {m} returned with probability {p_got:.9f}, the observable gives {p_want:.9f}"
                elif p_want > 1e-12 and phase_dist(post, want / math.sqrt(p_want)) > 1e-8:
                    bad = f"post-measurement state for outcome {m} is not the projection onto the eigenspace"
                if bad:
                    res.failures.append({"what": "parity_meas does not measure the requested signed Pauli string when "
                                                 "the qubits' virtual ids are not in the order of their roles",
                                         "kf": None,
                                         "input": {"bases": ("-" if negative else "") + bases,
                                                   "virtual_ids_of_data_qubits_in_string_order": ids,
                                                   "ancilla_virtual_id": anc,
                                                   "flavour": "NV (compiler=NVSubroutineTranspiler)" if nv else "vanilla",
                                                   "history":
                                                   f"allocate {n_alloc} qubits, measure+free {free}, then parity_meas",
                                                   "psi": fmt_state(psi), "detail": bad, "returned": m,
                                                   "post_state": fmt_state(post)}})


# ------------------------------------------------------------------ correspondence

def ev_json(e):
    mn, qs, n, d = e
    if mn in ("qalloc", "init", "meas", "qfree"):
        return {"e": mn, "q": qs[0]}
    return {"e": "gate", "i": {"g": mn, "q": qs, "n": n, "d": d}}


def stream_parity_model(ctx, res, strings):
    """real event trace / returned values vs the Lean model `parityMeas` (driver)"""
    from translate import toolbox as T
    reqs = [{"op": "toolbox.parity", "bases": b} for b in strings]
    outs = ctx.driver.batch(reqs)
    for bases, out in zip(strings, outs):
        for neg in (False, True):
            t0, v0 = T.run_parity(bases, neg, 0)
            k0, c0 = T.LAST_STORED[0]
            t1, v1 = T.run_parity(bases, neg, 1)
            k1, c1 = T.LAST_STORED[0]
            res.evaluations += 1
            res.count("model:parity-len:%d" % len(bases))
            res.nontrivial.add(("parity-model", bases, neg))
            # host-side values AND what the controller holds for the returned handle (kind, raw value)
            code = {"trace": [ev_json(e) for e in t0], "res": [v0, v1], "kind": [k0, k1], "stored": [c0, c1]}
            model = {"trace": out["trace"], "res": out["res"][1 if neg else 0],
                     "kind": [out["kind"], out["kind"]], "stored": out["stored"][1 if neg else 0]}
            if [ev_json(e) for e in t1] != code["trace"]:
                res.failures.append({"what": "parity_meas circuit depends on the measurement outcome", "kf": None,
                                     "input": {"bases": bases}})
            if code != model:
                res.disagreements.append({"stream": "parity-model", "input": {"bases": bases, "negative": neg},
                                          "model": model, "code": code})
        if len(res.samples) < 4 and len(bases) >= 4:
            res.samples.append({"stream": "parity-model", "bases": bases, "pre_len": len(out["pre"]),
                                "ancilla": out["ancilla"]})


def stream_parity_sequence(ctx, res, n_seq):
    """repeated use: the real trace of several consecutive parity_meas calls in ONE session equals the
    concatenation of the model traces (`parityMeasSeq`, theorem parity_meas_repeated), and each returned
    value is the model's for the forced outcome"""
    from harness import pipeline_sv as P
    tb = _tb()
    rng = ctx.rng
    for _ in range(n_seq):
        n = rng.choice([1, 2, 3, 4])
        calls = [("".join(rng.choice("IXYZ") for _ in range(n)), rng.random() < 0.5, rng.randrange(2))
                 for _ in range(rng.choice([2, 3, 4]))]
        outs = ctx.driver.batch([{"op": "toolbox.parity", "bases": b} for b, _, _ in calls])
        model_trace, model_vals, script = [], [], []
        for (b, neg, o), out in zip(calls, outs):
            model_trace += out["trace"]
            model_vals.append(out["res"][1 if neg else 0][o])
            if out["measured"] is not None:
                script.append(o)
        s = P.Session(simulate=False, max_qubits=10)
        try:
            qs = s.qubits(n)
            s.ex.script = list(script)
            ms = [tb.parity_meas(qs, ("-" if neg else "") + b) for b, neg, _ in calls]
            s.flush()
            code_trace = [ev_json(e) for e in s.ex.trace]
            code_vals = [int(m) for m in ms]
        finally:
            s.close()
        res.evaluations += 1
        res.count("model:parity-sequence-calls:%d" % len(calls))
        res.nontrivial.add(("parity-sequence", tuple(calls)))
        if code_trace != model_trace or code_vals != model_vals:
            res.disagreements.append({"stream": "parity-sequence", "input": {"n": n, "calls": calls},
                                      "model": {"trace": model_trace, "res": model_vals},
                                      "code": {"trace": code_trace, "res": code_vals}})


def oracle_parity_repeated(ctx, res):
    """model-free: with room for exactly ONE ancilla (max_qubits = n + 1) many consecutive calls must all
    succeed — every call has to give its ancilla back"""
    from harness import pipeline_sv as P
    tb = _tb()
    rng = ctx.rng
    for n in (2, 3):
        calls = ["".join(rng.choice("XYZ") for _ in range(n)) for _ in range(6)]
        res.evaluations += 1
        res.count("oracle:parity-repeated")
        res.nontrivial.add(("parity-repeated", n, tuple(calls)))
        s = P.Session(simulate=False, max_qubits=n + 1)
        done = 0
        try:
            qs = s.qubits(n)
            for b in calls:
                tb.parity_meas(qs, b)
                s.flush()
                done += 1
        except Exception as exc:  # the property fails on the real code: record the failing history
            res.failures.append({"what": "repeated parity_meas on the same qubits stops working", "kf": None,
                                 "input": {"qubits": n, "max_qubits": n + 1, "calls": calls,
                                           "failed_at_call": done + 1,
                                           "error": f"{type(exc).__name__}: {str(exc)[:160]}"}})
        finally:
            s.close()


def gate_unitary(seq, nq):
    from harness import nvgates as G
    return G.seq_unitary(seq, nq)


def stream_pullback(ctx, res, strings):
    """the conjugation calculus vs numpy: C^dagger O C for the recorded parity circuits and for
    random Clifford circuits"""
    from harness import nvgates as G
    rng = ctx.rng
    reqs, meta = [], []
    outs0 = ctx.driver.batch([{"op": "toolbox.parity", "bases": b} for b in strings])
    for bases, out in zip(strings, outs0):
        if out["measured"] is None:
            continue
        n = len(bases) + (1 if out["ancilla"] else 0)
        ps = "".join("Z" if i == out["measured"] else "I" for i in range(n))
        seq = [(g["g"], g["q"], g["n"], g["d"]) for g in out["pre"]]
        reqs.append({"op": "pauli.pullback", "seq": out["pre"], "neg": False, "ps": ps})
        meta.append((seq, n, False, ps, "parity:" + bases))
    n_rand = 400 if ctx.thorough else 80
    for _ in range(n_rand):
        n = rng.choice([1, 2, 3, 4])
        seq = []
        for _ in range(rng.randrange(1, 9)):
            if n >= 2 and rng.random() < 0.4:
                c, t = rng.sample(range(n), 2)
                seq.append(("cnot", [c, t], 0, 0))
            else:
                seq.append((rng.choice(["h", "k", "s", "x", "y", "z"]), [rng.randrange(n)], 0, 0))
        ps = "".join(rng.choice("IXYZ") for _ in range(n))
        neg = rng.random() < 0.5
        reqs.append({"op": "pauli.pullback", "neg": neg, "ps": ps,
                     "seq": [{"g": g, "q": q, "n": a, "d": b} for g, q, a, b in seq]})
        meta.append((seq, n, neg, ps, "random"))
    outs = ctx.driver.batch(reqs)
    for (seq, n, neg, ps, kind), out in zip(meta, outs):
        res.evaluations += 1
        res.count("pullback:" + kind.split(":")[0])
        res.nontrivial.add(("pullback", tuple((g, tuple(q)) for g, q, _, _ in seq), neg, ps))
        u = G.seq_unitary(seq, n)
        o = (-1 if neg else 1) * pauli_matrix(ps)
        code = u.conj().T @ o @ u
        if out is None:
            res.disagreements.append({"stream": "pullback", "input": {"seq": seq, "ps": ps}, "model": None,
                                      "code": "defined"})
            continue
        model = (-1 if out["neg"] else 1) * pauli_matrix(out["ps"])
        if np.max(np.abs(code - model)) > 1e-9:
            res.disagreements.append({"stream": "pullback", "input": {"seq": seq, "neg": neg, "ps": ps},
                                      "model": out, "code": "numpy conjugation differs"})


def all_strings(n):
    return ["".join(t) for t in itertools.product("IXYZ", repeat=n)]


def run(ctx):
    import logging
    logging.disable(logging.CRITICAL)
    res = Result()
    res.rule = ("oracle: toolbox function x input state (all computational-basis states, uniform, random) x forced "
                "measurement outcome through the full pipeline; parity-model / pullback: signed Pauli string (all of "
                "length <= 3, random of length 4..6) and random Clifford circuits; distinct by (function or string, "
                "sign, input, outcome); all cases are non-trivial except the all-identity strings")
    rng = ctx.rng
    short = all_strings(1) + all_strings(2) + all_strings(3)
    longer = ["".join(rng.choice("IXYZ") for _ in range(rng.choice([4, 5, 6]))) for _ in range(300 if ctx.thorough else 25)]
    longer += ["IIII", "IIZI", "XIIII", "YYYYYY", "ZZZZ", "XYZXYZ"]
    oracle_gates(ctx, res)
    oracle_set_state(ctx, res)
    oracle_parity(ctx, res, short + (all_strings(4) + longer[:40] if ctx.thorough else longer[:6]))
    oracle_parity_sequences(ctx, res, short)
    oracle_parity_repeated(ctx, res)
    oracle_parity_consumption(ctx, res, short)
    oracle_role_permutations(ctx, res)
    stream_parity_model(ctx, res, (short if ctx.thorough else short[::4]) + longer)
    stream_parity_sequence(ctx, res, 400 if ctx.thorough else 60)
    stream_pullback(ctx, res, short + [s for s in longer if len(s) <= 4])
    return res


def replay(ctx, payload):
    import logging
    logging.disable(logging.CRITICAL)
    res = Result()
    oracle_gates(ctx, res)
    oracle_set_state(ctx, res)
    oracle_parity(ctx, res, all_strings(1) + all_strings(2) + all_strings(3))
    oracle_parity_sequences(ctx, res, all_strings(1) + all_strings(2) + all_strings(3))
    oracle_parity_repeated(ctx, res)
    oracle_parity_consumption(ctx, res, all_strings(1) + all_strings(2) + all_strings(3))
    oracle_role_permutations(ctx, res)
    want = (payload.get("failure") or {}).get("what")
    still = [f for f in res.failures if want is None or f["what"] == want]
    for f in still[:3]:
        print("REPRODUCED:", f["what"], f["input"])
    return 1 if still else 0
