"""C04 — executor implements the NetQASM classical semantics and faults precisely."""
import copy
import json

from check import Result

PROP = "C04"
TARGETS = ["NetqasmVerif.Props.C04"]
M = "NetqasmVerif.Props.C04"
THEOREMS = [(M, "NQ.C04." + n) for n in [
    "fault_atomic", "fault_atomic_inv", "fault_atomic_reachable", "fault_atomic_interleaved",
    "fault_atomic_strict", "fault_stops", "fault_names_line", "fault_lifts",
    "store_undefined_faults", "load_undefined_faults", "ret_undefined_faults",
    "addm_bad_modulus_faults", "subm_bad_modulus_faults", "double_alloc_faults",
    "free_unallocated_faults", "store_past_end_faults", "load_past_end_faults", "undef_past_end_faults",
    "step_frame", "step_frame_apps", "step_frame_global", "store_cell",
    "add_spec", "sub_spec", "residue_spec", "addm_spec", "subm_spec", "residue_fits",
    "jmp_spec", "bez_spec", "bnz_spec", "beq_spec", "bne_spec", "blt_spec", "bge_spec", "nonbranch_pc",
    "set_overflow_faults", "lea_overflow_faults", "add_overflow_faults", "sim_never_overflows",
    "run_iff_steps", "run_of_xsteps", "run_det", "run_fuel_mono", "runAll_frame_apps",
    "set_spec", "lea_spec", "load_spec", "undef_spec", "array_spec", "qalloc_spec", "qfree_spec",
    "meas_spec", "hw_written_fits", "ret_reg_spec", "ret_reg_copy", "ret_arr_spec_partial", "ret_arr_frozen_partial",
    "ret_arr_alias_counterexample"]]
TRANSLATORS = []
LEVEL_TEXT = ("Lean theorems about the reference interpreter Model/Exec.lean (the instruction semantics written "
              "from the statement, Python corner cases included), for every state, program and instruction: "
              "a faulting instruction changes nothing and the reported line is the current program counter "
              "(one lemma per fault cause of the statement); footprint/frame of every instruction; add/sub/"
              "addm/subm = exact result resp. mathematical residue in [0,m) for every modulus >= 1 and operands "
              "of either sign; each branch taken iff its predicate, pc = target else pc+1 for arbitrary targets; "
              "fuel monotonicity; ret_reg copies. ret_arr: only the partial statement holds (finding F25, "
              "counter-example proved). Tie: differential correspondence real Executor vs compiled model after "
              "every subroutine (registers, arrays, shared memory, unit module, used set, visited program "
              "counters, exception class and line), simulation and hardware mode, also through the "
              "QNodeController message handlers.")
LEVEL_NOTE = ("Trusted: Lean kernel; Model/Exec.lean as the specification of the instruction semantics; the "
              "harness (subclass of Executor overriding only the documented hooks). EPR/wait instructions are "
              "out of scope here (C11/C12). KeyError paths of set.remove are modelled for qfree only.")
TECHNIQUE = "Lean 4 proof (case analysis over the instruction set, induction over fuel) + differential correspondence"
TRUSTED = [
    "Lean 4.33 kernel; axioms at most propext, Classical.choice, Quot.sound (audited per theorem)",
    "Model/Exec.lean: hand-written reference semantics of the core instructions (specification)",
    "harness/exec.py: TraceExecutor overrides only node_id, the _do_* quantum hooks, _do_wait, "
    "_wait_to_handle_epr_responses, and observes via _execute_command/_clear_subroutine/_initialize_array/"
    "_instr_ret_arr wrappers that delegate to the base class",
]
ASSUMPTIONS = [
    "register operands are those of binary-encodable instructions (4 banks x 16 indices); array-entry indices are registers",
    "the hardware-mode flag is constant during the life of an executor",
    "several executors in one process share nothing in the model (independent copies); that is what the "
    "multi-executor stream checks of the real class",
    "arrays longer than 400 entries are not exercised on the real code (allocation guard); the model is unbounded",
    "quantum instructions are a recorded trace with scripted measurement outcomes (base executor hooks)",
]

F25_WITNESS = {
    "hw": False, "apps": [0], "addrs": [0], "ops": [
        {"k": "init", "a": 0, "n": 1},
        {"k": "sub", "a": 0, "fuel": 20, "or": [], "p": [["set", 0, 0, 1], ["array", 0, 0, 0], ["ret_arr", 0]]},
        {"k": "sub", "a": 0, "fuel": 20, "or": [], "p": [["set", 0, 0, 0], ["set", 0, 1, 7],
                                                        ["store", 0, 1, 0, 0, 0]]}]}


def _directed():
    """one scenario per fault cause of the statement + branch senses + negative modular arithmetic"""
    def sc(progs, n=2, hw=False):
        return {"hw": hw, "apps": [0], "addrs": [0, 1], "ops": [{"k": "init", "a": 0, "n": n}] + [
            {"k": "sub", "a": 0, "fuel": 60, "or": [1, 0], "p": p} for p in progs]}
    R0, R1, R2, R3, Q0 = [0, 0], [0, 1], [0, 2], [0, 3], [2, 0]
    out = [
        sc([[["set"] + R0 + [2], ["array"] + R0 + [0], ["store"] + R1 + [0] + R0]]),          # store undefined
        sc([[["set"] + R0 + [2], ["array"] + R0 + [0], ["set"] + R0 + [1], ["load"] + R1 + [0] + R0]]),  # load undefined
        sc([[["set"] + R0 + [0], ["set"] + R1 + [5], ["addm"] + R2 + R1 + R1 + R0]]),           # modulus 0
        sc([[["set"] + R0 + [-3], ["set"] + R1 + [5], ["subm"] + R2 + R1 + R1 + R0]]),          # modulus < 0
        sc([[["set"] + Q0 + [0], ["qalloc"] + Q0, ["qalloc"] + Q0]]),                           # double alloc
        sc([[["set"] + Q0 + [1], ["qfree"] + Q0]]),                                             # free unallocated
        sc([[["set"] + R0 + [2], ["array"] + R0 + [0], ["set"] + R1 + [9], ["store"] + R1 + [0] + R0]]),  # index past end
        sc([[["set"] + R0 + [-7], ["set"] + R1 + [-8], ["set"] + R2 + [3], ["addm"] + R3 + R0 + R1 + R2,
             ["ret_reg"] + R3, ["subm"] + R3 + R0 + R1 + R2, ["sub"] + R3 + R0 + R1, ["add"] + R3 + R3 + R0]]),
        sc([[["set"] + R0 + [1], ["set"] + R1 + [1], ["blt"] + R0 + R1 + [5], ["bge"] + R0 + R1 + [6],
             ["jmp", 9], ["set"] + R2 + [50], ["set"] + R2 + [60], ["beq"] + R0 + R1 + [-1]]]),
        sc([[["set"] + R0 + [2147483647], ["set"] + R1 + [1], ["add"] + R2 + R0 + R1]], hw=True),  # overflow
        F25_WITNESS,
        # re-declaring an array (same size) gives fresh undefined entries, also across subroutines
        sc([[["set"] + R0 + [2], ["array"] + R0 + [0], ["set"] + R1 + [1], ["store"] + R1 + [0] + R1,
             ["array"] + R0 + [0], ["load"] + R2 + [0] + R1],
            [["set"] + R0 + [2], ["array"] + R0 + [0], ["set"] + R1 + [0], ["store"] + R0 + [0] + R1, ["ret_arr", 0]],
            [["set"] + R0 + [2], ["array"] + R0 + [0], ["ret_arr", 0]]]),
    ]
    # qalloc/qfree bookkeeping with holes in the physical pool (non-LIFO frees, re-allocation)
    Q1, Q2 = [2, 1], [2, 2]

    def al(reg, v):
        return [["set"] + reg + [v], ["qalloc"] + reg]

    def fr(reg, v):
        return [["set"] + reg + [v], ["qfree"] + reg]
    out += [
        sc([al(Q0, 0) + al(Q1, 1) + fr(Q0, 0) + al(Q0, 0) + fr(Q1, 1) + fr(Q0, 0)], n=2),
        sc([al(Q0, 0) + al(Q1, 1), fr(Q0, 0), al(Q0, 0), fr(Q0, 0) + fr(Q1, 1)], n=2),       # across subroutines
        sc([al(Q0, 0) + al(Q1, 1) + al(Q2, 2) + fr(Q1, 1) + fr(Q0, 0) + al(Q2, 3) + al(Q0, 1) + al(Q1, 0)
            + fr(Q2, 2) + fr(Q2, 3) + fr(Q0, 1) + fr(Q1, 0)], n=4),
        sc([al(Q0, -1) + al(Q1, 0) + fr(Q1, 0) + al(Q2, 1) + al(Q1, 0) + fr(Q0, 2) + fr(Q2, 1)], n=3),
    ]
    # recording `_handle_command_exception` hook (simulators log and go on): execution must still stop
    # at the faulting instruction, with exactly one report
    out += [dict(sc([[["set"] + R0 + [0], ["set"] + R1 + [5], ["addm"] + R2 + R1 + R1 + R0, ["set"] + R3 + [9]]]),
                 lenient=True),
            dict(sc([al(Q0, 0) + al(Q0, 0) + fr(Q0, 0)], n=2), lenient=True)]
    # two executors in one process, alice suspended inside her subroutine 0 while bob runs his
    prog = [["set"] + R0 + [0], ["set"] + R1 + [1], ["add"] + R0 + R0 + R1, ["set"] + Q0 + [0], ["qalloc"] + Q0,
            ["qfree"] + Q0, ["ret_reg"] + R0]
    ticks = [{"k": "tick", "ex": ex, "i": 0} for ex in [0] * 5 + [1] * 2 + [0] * 4 + [1] * 6]
    out.append({"hw": False, "nex": 2, "apps": [0], "addrs": [0], "ops": [
        {"k": "init", "ex": 0, "a": 0, "n": 1}, {"k": "init", "ex": 1, "a": 0, "n": 1},
        {"k": "spawn", "ex": 0, "a": 0, "p": list(prog)}, {"k": "spawn", "ex": 1, "a": 0, "p": list(prog)}] + ticks})
    return out


def _f25_rule(H, driver, sc, failure):
    """narrow known-finding rule: the shrunk failing scenario contains a store/undef to the returned
    address, and the failure disappears when exactly those instructions are replaced by no-ops."""
    ad = failure["address"]

    def fails(c):
        ob = H.ReturnObserver()
        H.run_real(c, [ob])
        return any(f["address"] == ad for f in ob.failures)
    small = H.shrink(sc, fails, budget=150)
    feature = [(oi, j) for oi, o in enumerate(small["ops"]) if o["k"] in ("sub", "spawn")
               for j, ins in enumerate(o["p"]) if (ins[0] == "store" and ins[3] == ad) or (ins[0] == "undef" and ins[1] == ad)]
    if not feature:
        return small, False
    c = copy.deepcopy(small)
    for oi, j in feature:
        c["ops"][oi]["p"][j] = ["jmp", j + 1]
    return small, not fails(c)


def run(ctx):
    from harness import exec as H
    res = Result()
    res.rule = ("random subroutines over the core set (unstructured targets, all banks, arrays 0..40, undefined "
                "entries, negative/32-bit-boundary values), 1-4 subroutines per application, step bound 40/120; "
                "every 3rd scenario in hardware mode, every 7th through the QNodeController message handlers, every "
                "6th on an executor subclass whose _handle_command_exception hook records and returns (exactly one "
                "report, pc at the faulting line, subroutine ends), plus histories with 2-3 Executor instances in one "
                "process whose subroutines are advanced interleaved across executors; every "
                "5th an allocation pattern (several qubit registers, non-LIFO frees leaving holes, re-allocation "
                "across subroutines); "
                "a scenario is non-trivial when at least 3 instructions were executed; distinct by scenario JSON")
    rng = ctx.rng
    n_random = 90000 if ctx.thorough else 5000
    drv = ctx.driver

    def differs(c):
        return H.compare(c, drv)[2] is not None

    def check(sc, tag):
        ret = H.ReturnObserver()
        real, model, d = H.compare(sc, drv, [ret])
        res.evaluations += 1
        nsteps = 0
        for o, st in zip(sc["ops"], model[:len(real)]):
            r = st["r"]
            if o["k"] == "sub":
                nsteps += len(r["visited"])
                out = r["out"]
                res.count("outcome:" + out["o"] + (":" + out["kind"] if "kind" in out else ""))
                for pcv in r["visited"]:
                    k = pcv if pcv >= 0 else pcv + len(o["p"])
                    if 0 <= k < len(o["p"]):
                        res.count("exec:" + o["p"][k][0].split(":")[0])
            elif o["k"] in ("tick",):
                if r.get("o") in ("live", "halted", "fault"):
                    nsteps += 1
                res.count("tick:" + str(r.get("kind") or r.get("o")))
        for o, rs in zip(sc["ops"], real):
            rr = rs["r"].get("out", rs["r"])
            if rr.get("o") == "fault-repeated":
                res.failures.append({"what": "execution does not stop at the faulting instruction: the fault was "
                                             "reported %d times to a recording _handle_command_exception hook" % rr["n"],
                                     "kf": None, "input": {"scenario": sc, "readable": H.describe(sc),
                                                           "reported": [rr["cls"], rr["line"]]}})
                break
        res.count("mode:" + ("hw" if sc["hw"] else "sim") + ("+msg" if sc.get("msg") else "")
                  + ("+recording-hook" if sc.get("lenient") else "") + ("+%dexec" % sc["nex"] if sc.get("nex") else ""))
        if nsteps >= 3:
            res.nontrivial.add(json.dumps(sc, sort_keys=True))
        if len(res.samples) < 4 and nsteps >= 8 and tag == "random":
            res.samples.append({"scenario": H.describe(sc), "model_final": model[-1]["r"] if model else None})
        if d:
            small = H.shrink(sc, differs, budget=300)
            _, _, d2 = H.compare(small, drv)
            d2 = d2 or d
            res.disagreements.append({"stream": "exec." + tag, "input": small, "model": d2[2], "code": d2[3],
                                      "where": f"op {d2[0]} {d2[1]}"})
            res.failures.append({"what": "executor deviates from the reference semantics at " + d2[1],
                                 "kf": None, "input": {"scenario": small, "readable": H.describe(small),
                                                       "op_index": d2[0], "reference": d2[2], "executor": d2[3]}})
        for f in ret.failures[:1]:
            small, is_f25 = _f25_rule(H, drv, sc, f)
            res.failures.append({"what": "host-visible array changed without ret_arr (shared memory aliases the "
                                         "executor's list)", "kf": "F25" if is_f25 else None,
                                 "input": {"scenario": small, "readable": H.describe(small), "detail": f}})

    for sc in _directed():
        check(sc, "corpus")
    stop_after_failures = 5
    for k in range(n_random):
        hw = k % 3 == 2
        msg = k % 7 == 6
        g = H.Gen(rng, hw=hw, encodable=msg)
        sc = g.alloc_scenario() if k % 5 == 4 else g.c04_scenario()
        if msg:
            sc["msg"] = True
        elif k % 6 == 1:
            sc["lenient"] = True   # executor subclass whose fault hook records and returns
        check(sc, "random")
        if len([f for f in res.failures if f["kf"] is None]) >= stop_after_failures:
            break
    # several Executor instances in one process, subroutines advanced interleaved across them
    n_multi = 5000 if ctx.thorough else 250
    for k in range(n_multi):
        check(H.multi_scenario(rng, rng.choice([15, 30, 60]), "c04"), "multi-executor")
        if len([f for f in res.failures if f["kf"] is None]) >= stop_after_failures:
            break
    return res


def replay(ctx, payload):
    from harness import exec as H
    inp = payload.get("failure", {}).get("input", {})
    sc = inp.get("scenario")
    if sc is None:
        return 2
    ret = H.ReturnObserver()
    _, _, d = H.compare(sc, ctx.driver, [ret])
    print("replay:", "\n".join(H.describe(sc)))
    print("difference:", d, "return-observer:", ret.failures[:1])
    return 1 if (d or ret.failures) else 0
