"""C17 — printed assembly parses back to the same instruction."""
import json

from check import Result

PROP = "C17"
TARGETS = ["NetqasmVerif.Props.C17"]
M_ = "NetqasmVerif.Props.C17"
THEOREM_NAMES = ["parse_print_tokens", "parse_print_tokens_one", "vanilla_rows_ok", "nv_rows_ok", "reids_rows_ok",
                 "syms_ok", "int_str_roundtrip", "operand_roundtrip", "parse_print", "vanilla_parse_print",
                 "nv_parse_print", "reids_parse_print", "text_binary_text", "nv_text_binary_text",
                 "reids_text_binary_text", "vanilla_text_binary_text_partial",
                 "vanilla_text_binary_text_counterexample", "tokeniser_bridge", "src_syms_ok",
                 "printed_line_tokenises", "source_line_text_roundtrip", "observe_id",
                 "print_depends_on_current_values", "parse_print_after_update", "parse_print_rows",
                 "parse_unaffected_by_edits",
                 "custom_flavour_last_wins"]
THEOREMS = [(M_, "NQ.C17." + n) for n in THEOREM_NAMES]
TRANSLATORS = ["instr_table", "asm_tables"]
LEVEL_TEXT = ('Lean theorems at CHARACTER level: parse_print — for every flavour table and every list of instructions '
              'with in-range operands (negative integers, entries, slices with register indices of every bank) '
              'the printed text, one str(instr) per line, lexes (word splitting, is_number/int, register, address, '
              'index and slice parsing) and assembles (constant replacement, name map, from_operands) back to '
              'exactly these instructions; includes int(str(v)) = v for every integer by induction on the digits. '
              'Instantiated without side condition for vanilla, NV and REIDS (vanilla/nv/reids_parse_print). '
              'source_line_text_roundtrip / tokeniser_bridge: single SOURCE lines with every proto operand form of C03 '
              '(label operands, integer indices) are read back by the same lexer, and the model of group_by_word '
              '(C03) cuts the same words as parseLine on bracket-free lines. text_binary_text: with C01, text -> binary -> text is stable for whole subroutines (NV, REIDS '
              'unconditional; vanilla outside the recorded opcode clash, counter-example proved). Tie: '
              'generated obligations rowTextOk (mnemonic -> class via GenericInstr + flavour name map, every '
              'immediate position in _REPLACE_CONSTANTS_EXCEPTION) and symsOk (symbols.py, bank letters) '
              're-decided by the kernel; differential stream: str(instr) vs Lean printer (equal strings), '
              'parse_text_subroutine vs Lean parser incl. error classes on malformed source.')
LEVEL_NOTE = ('Trusted: Lean kernel; translators + harness; Python str/int/split/strip/find as modelled '
              '(List Char functions, validated by the correspondence). The parser model covers label-free, '
              'macro-free, argument-free, comment-free body lines (what the printer produces; other forms are '
              'reported unsupported and skipped in the malformed stream). Open finding F1 (C01) makes text -> '
              'binary -> text unstable for vanilla meas_basis.')
TECHNIQUE = ('Lean 4 proof (induction over operand and instruction lists) + kernel-decided generated '
             'obligations + differential correspondence (printer strings, parser results, error classes)')
TRUSTED = [
    "Lean 4.33 kernel; axioms at most propext, Classical.choice, Quot.sound (audited per theorem)",
    "translate/instr_table.py (rows of the live classes) and translate/asm_tables.py (GenericInstr names, "
    "_REPLACE_CONSTANTS_EXCEPTION, symbols, register bank letters)",
    "harness/text.py correspondence stream: str(instr) and parse_text_subroutine vs the compiled Lean model",
]
ASSUMPTIONS = [
    "an instruction is modelled as (class, operand values); lineno is ignored (it is not printed)",
    "the parser model covers label-free, macro-free, argument-free, comment-free body lines (what the "
    "printer produces); other source forms are reported `unsupported` by the model and skipped",
]


def _instrs_json(instrs, H):
    return [H.instr_to_json(i) for i in instrs]


def run(ctx):
    from harness import codec as H
    from harness import text as X
    res = Result()
    res.rule = ("every class of every flavour x boundary operand valuations (0, 1, max, min, negative, walking "
                "values, entries/slices with every register bank) x 3 flavours: printed string and parse result; "
                "whole random subroutines: text -> objects -> binary -> objects -> text; object histories: instructions "
                "printed (str/debug_str/str(subroutine)), updated in place (field assignment, property setters line/"
                "qreg/angle_num/..., instantiate, NV transpiler re-targeting branches) and printed again, judged "
                "against the current object; parser histories (parse, edit the parsed operands / nested registers / "
                "instruction lists in place, parse the same and other texts again, fresh-interpreter parse); user flavours (subclass hook appending classes that re-use a mnemonic "
                "and/or opcode, core overrides, double replacements) with the model table built in the same "
                "order; binary leg through Deserializer and deserialize(); malformed stream: "
                "single/double edits of printed lines (deleted/inserted characters, doubled spaces, swapped/"
                "dropped/added operands, wrong/unknown/other-flavour mnemonics, literals in register slots, "
                "integer indices, bracket damage), alone or embedded in programs. Non-trivial = some operand "
                "non-zero / any malformed line; distinct by (flavour, text)")
    rng = ctx.rng
    thorough = ctx.thorough
    n_random = 30 if thorough else 6
    per_class = 600 if thorough else 60
    cases = []
    for fname in H.FLAVOURS:
        for c in H.flavour_classes(fname):
            for inst in H.instances_of(c, rng, n_random, per_class):
                cases.append((fname, inst))

    # -------------------------------------------------- stream A: printer, parser, oracle per instruction
    pm = ctx.driver.batch([{"op": "text.print", "fl": f, "i": H.instr_to_json(i)} for f, i in cases])
    strs = [X.real_print(i) for _, i in cases]
    qm = ctx.driver.batch([{"op": "text.parse", "fl": f, "lines": [s]} for (f, _), s in zip(cases, strs)])
    for (fname, inst), s, mp, mq in zip(cases, strs, pm, qm):
        j = H.instr_to_json(inst)
        res.evaluations += 1
        res.count("class:" + j["c"])
        if any(v != 0 for o in j["o"] for v in (list(o.values())[0] if isinstance(list(o.values())[0], list)
                                                else [list(o.values())[0]])):
            res.nontrivial.add((fname, s))
        if mp.get("s") != s:
            res.disagreements.append({"stream": "text.print", "input": {"fl": fname, "i": j},
                                      "model": mp.get("s"), "code": s})
        rp, sub = X.real_parse(fname, [s])
        if rp != mq:
            res.disagreements.append({"stream": "text.parse", "input": {"fl": fname, "text": s},
                                      "model": mq, "code": rp})
        # oracle: parse_text_subroutine(str(i), flavour=f).instructions == [i]
        if sub is None or list(sub.instructions) != [inst]:
            res.failures.append({"what": "parse_text_subroutine(str(i), flavour=f).instructions != [i]",
                                 "kf": None, "input": {"fl": fname, "i": j, "text": s, "parsed": rp}})
        if len(res.samples) < 4 and res.evaluations % 131 == 0:
            res.samples.append({"fl": fname, "i": j, "text": s})

    # -------------------------------------------------- stream B: whole subroutines, text -> binary -> text
    n_subs = 8000 if thorough else 600
    subs = []
    # corpus: the witness of the open finding first
    from netqasm.lang import operand as op
    from netqasm.lang.encoding import RegisterName
    from netqasm.lang.instr import core
    mb = core.MeasBasisInstruction(reg0=op.Register(RegisterName.Q, 1), reg1=op.Register(RegisterName.M, 2),
                                   imm0=op.Immediate(3), imm1=op.Immediate(4), imm2=op.Immediate(5),
                                   imm3=op.Immediate(6))
    subs.append(("vanilla", [mb]))
    subs.append(("nv", [mb]))
    subs.append(("reids", [mb]))
    for _ in range(n_subs):
        fname = rng.choice(list(H.FLAVOURS))
        n = rng.choice([0, 1, 2, 3, 5, 8, 13, rng.randrange(40)])
        subs.append((fname, [H.random_instr(fname, rng) for _ in range(n)]))
    sm = ctx.driver.batch([{"op": "text.parse", "fl": f, "lines": [X.real_print(i) for i in instrs]}
                           for f, instrs in subs])

    def _deserialize_default(raw):
        from netqasm.lang.parsing.binary import deserialize
        try:
            return deserialize(bytes(raw))
        except Exception:
            return None

    def tbt(fname, instrs):
        """text -> objects -> binary -> objects -> text on the real code; None if stable"""
        lines = [X.real_print(i) for i in instrs]
        rp, sub = X.real_parse(fname, lines, preamble=True)
        if sub is None or list(sub.instructions) != list(instrs):
            return {"stage": "text->objects", "parsed": rp}
        raw = H.real_encode_sub(list(sub.instructions), 0, (0, 0))
        if raw is not None and rng.random() < 0.15:
            # the binary leg from bytearray / memoryview inputs whose buffer is overwritten afterwards
            prob = H.decode_buffer_alias_problem(fname, raw, rng)
            if prob is not None:
                return {"stage": "binary (input buffer types)", "detail": prob}
        # the binary leg through every public entry point: the Deserializer class, the function
        # `deserialize(data, flavour=f)` and, for vanilla, its default-flavour form `deserialize(data)`
        entries = [("Deserializer(flavour)", H.real_decode_sub), ("deserialize(data, flavour)", H.real_decode_sub_fn)]
        if fname == "vanilla":
            entries.append(("deserialize(data)", lambda f, r: _deserialize_default(r)))
        for ename, dec in entries:
            back = dec(fname, raw) if raw is not None else None
            if back is None:
                return {"stage": "binary", "entry": ename, "bytes": raw}
            lines2 = [X.real_print(i) for i in back.instructions]
            if lines2 != lines:
                diff = [k for k, (a, b) in enumerate(zip(lines, lines2)) if a != b]
                return {"stage": "binary->text", "entry": ename, "differs_at": diff[:5],
                        "first": [lines[diff[0]], lines2[diff[0]]] if diff else None}
        return None

    for (fname, instrs), mq in zip(subs, sm):
        res.evaluations += 1
        res.count("subroutine-len:%d" % min(len(instrs), 20))
        lines = [X.real_print(i) for i in instrs]
        if instrs:
            res.nontrivial.add((fname, "\n".join(lines)))
        rp, sub = X.real_parse(fname, lines)
        if rp != mq:
            res.disagreements.append({"stream": "text.parse-subroutine", "input": {"fl": fname, "lines": lines},
                                      "model": str(mq)[:300], "code": str(rp)[:300]})
        bad = tbt(fname, instrs)
        if bad is not None:
            # narrow known-finding rule (DESIGN 3.2-6): vanilla, the only unstable lines are meas_basis
            # printed back as mov (opcode 41), and the failure disappears without exactly these lines
            kf = None
            if fname == "vanilla" and bad.get("stage") == "binary->text":
                idx = [k for k, i in enumerate(instrs) if type(i).__name__ == "MeasBasisInstruction"]
                rest = [i for k, i in enumerate(instrs) if k not in idx]
                if idx and bad["first"] and bad["first"][0].startswith("meas_basis ") and \
                        bad["first"][1].startswith("mov ") and tbt(fname, rest) is None:
                    kf = "F1"
            res.failures.append({"what": "text -> binary -> text is not stable", "kf": kf,
                                 "input": {"fl": fname, "lines": lines, "detail": bad}})

    # -------------------------------------------------- stream H: object histories
    # an instruction object is printed (str / debug_str), its operands are updated in place (field
    # assignment or a property setter such as line, qreg, angle_num), it is printed again: the text must
    # parse to the instruction as it is NOW
    import copy
    from netqasm.lang.instr import core as _core
    jmp = _core.JmpInstruction(imm=op.Immediate(3))
    hists = [("vanilla", jmp, [({"u": "obs"}, ("obs",)),
                               ({"u": "set", "k": 0, "o": {"i": -7}}, ("set", "line", op.Immediate(-7))),
                               ({"u": "obs"}, ("obs",))], "hist:C17_4-witness")]
    n_hist = 12000 if thorough else 2500
    for _ in range(n_hist):
        fname, inst = rng.choice(cases)
        inst = copy.deepcopy(inst)   # operand objects are edited in place: nothing shared with other cases
        hists.append((fname, inst, X.gen_instr_history(inst, rng, rng.randrange(1, 7)), "hist:instr"))
    hm = ctx.driver.batch([{"op": "text.hist", "fl": f, "i": H.instr_to_json(i), "us": [u for u, _ in st]}
                           for f, i, st, _ in hists])
    for (fname, inst, steps, tag), mh in zip(hists, hm):
        res.evaluations += 1
        res.count(tag)
        start = H.instr_to_json(inst)
        res.nontrivial.add(("hist", fname, json.dumps([start, [u for u, _ in steps]], sort_keys=True)))
        bad = None
        for k, (u, act) in enumerate(steps):
            X.apply_instr(inst, act, k)
            if act[0] == "mutop":
                res.count("hist-operand-object-edit")
            if act[0] == "set":
                res.count("hist-set-via:" + ("field" if act[1] in [f.name for f in H.T.operand_fields(type(inst))]
                                             else act[1]))
            if act[0] == "obs" and bad is None:
                bad = X.own_text_ok(fname, inst)
                if bad is not None:
                    bad["after_steps"] = k + 1
        if bad is None:
            bad = X.own_text_ok(fname, inst)
        cur, text = H.instr_to_json(inst), X.real_print(inst)
        if mh.get("i") != cur or mh.get("s") != text:
            res.disagreements.append({"stream": "text.history",
                                      "input": {"fl": fname, "start": start, "updates": [u for u, _ in steps]},
                                      "model": mh, "code": {"i": cur, "s": text}})
        if bad is not None:
            res.failures.append({"what": "after in-place updates the printed text does not parse to the current "
                                         "instruction", "kf": None,
                                 "input": {"fl": fname, "start": start,
                                           "updates": [dict(u, via=a[1]) if a[0] == "set" else
                                                       (dict(u, edit_operand_object=a[2]) if a[0] == "mutop" else u)
                                                       for u, a in steps],
                                           "detail": bad}})
        if tag.endswith("witness"):
            res.samples.append({"fl": fname, "start": start, "updates": [u for u, _ in steps], "text": text})

    # whole subroutines: str(sub), then in-place edits / instantiate / NV transpilation (re-targets
    # branches in place), then every printed line must parse to the current instruction and
    # text -> binary -> text must be stable
    from netqasm.lang.operand import Template
    from netqasm.lang.subroutine import Subroutine
    from netqasm.lang.instr import vanilla as _vanilla
    from netqasm.sdk.transpile import NVSubroutineTranspiler
    from netqasm.lang.parsing.text import parse_text_subroutine

    def judge_sub(kind, fname, instrs, extra):
        res.evaluations += 1
        res.count("hist-sub:" + kind)
        res.nontrivial.add(("hist-sub", kind, fname, "\n".join(map(str, extra.get("id", [])))))
        bad = tbt(fname, instrs)
        if bad is not None:
            kf = None
            if fname == "vanilla" and bad.get("stage") == "binary->text":
                idx = [k for k, i in enumerate(instrs) if type(i).__name__ == "MeasBasisInstruction"]
                rest = [copy.copy(i) for k, i in enumerate(instrs) if k not in idx]
                if idx and bad["first"] and bad["first"][0].startswith("meas_basis ") and \
                        bad["first"][1].startswith("mov ") and tbt(fname, rest) is None:
                    kf = "F1"
            res.failures.append({"what": "subroutine printed before it was modified: text no longer agrees with "
                                         "the current instructions / binary", "kf": kf,
                                 "input": dict(extra, kind=kind, fl=fname, detail=bad)})

    n_hs = 1500 if thorough else 300
    for t in range(n_hs):
        fname = rng.choice(list(H.FLAVOURS))
        instrs = [copy.copy(H.random_instr(fname, rng)) for _ in range(rng.randrange(1, 12))]
        sub = Subroutine(instructions=instrs, app_id=0, netqasm_version=(0, 0))
        before = [X.real_print(i) for i in instrs] if t % 2 else str(sub).split("\n")
        edits = []
        for _ in range(rng.randrange(1, 5)):
            k = rng.randrange(len(instrs))
            st = [s_ for s_ in X.gen_instr_history(instrs[k], rng, 2) if s_[1][0] == "set"]
            for u, act in st:
                X.apply_instr(instrs[k], act, 0)
                edits.append([k, dict(u, via=act[1])])
        judge_sub("edit", fname, sub.instructions, {"id": before, "edits": edits})
    for t in range(200 if thorough else 40):  # templates filled in by instantiate
        cls = rng.choice([_vanilla.RotXInstruction, _vanilla.RotYInstruction, _vanilla.RotZInstruction])
        instrs = [H.random_instr("vanilla", rng) for _ in range(rng.randrange(0, 4))]
        instrs.insert(rng.randrange(len(instrs) + 1),
                      cls(reg=op.Register(RegisterName.Q, rng.randrange(16)), imm0=Template("n"),
                          imm1=op.Immediate(rng.randrange(256))))
        sub = Subroutine(instructions=instrs, netqasm_version=(0, 0))
        before = str(sub)
        n = rng.randrange(256)
        sub.instantiate(0, {"n": n})
        judge_sub("instantiate", "vanilla", sub.instructions, {"id": [before], "n": n})
    for t in range(600 if thorough else 120):  # NV transpiler patches branch targets in place
        src = X.branchy_source(rng)
        try:
            sub = parse_text_subroutine(X.PREAMBLE + "\n".join(src), flavour=H.FLAVOURS["vanilla"]())
            logged = str(sub) + "".join(str(i) + i.debug_str for i in sub.instructions)
            nvsub = NVSubroutineTranspiler(sub).transpile()
        except Exception as e:
            res.count("hist-sub:transpile-raises:" + type(e).__name__)
            continue
        judge_sub("transpile", "nv", nvsub.instructions, {"id": src, "source": src})

    # -------------------------------------------------- stream U: user flavours
    # flavours beyond the three stock ones, built through the documented subclass hook with classes
    # that re-use a mnemonic and/or an opcode; the model table is built in the same insertion order
    # (core, then `instrs`) and resolves with "last wins" (`lastBy` = dict.update)
    for uname, factory in X.CUSTOM_FLAVOURS.items():
        classes, rows, by_mn, by_id = X.custom_table(factory)
        ucases = []
        for c in classes:
            for inst in H.instances_of(c, rng, 2, 12 if thorough else 4):
                ucases.append(inst)
        strs = [X.real_print(i) for i in ucases]
        pm_u = ctx.driver.batch([{"op": "text.print", "rows": rows, "i": H.instr_to_json(i)} for i in ucases])
        tm_u = ctx.driver.batch([{"op": "text.tbt", "rows": rows, "lines": [s_]} for s_ in strs])
        for inst, s_, mp, mt in zip(ucases, strs, pm_u, tm_u):
            c = type(inst)
            res.evaluations += 1
            res.count("user-flavour:" + uname)
            res.nontrivial.add(("user", uname, s_))
            if mp.get("s") != s_:
                res.disagreements.append({"stream": "text.print-user-flavour", "input": {"flavour": uname, "text": s_},
                                          "model": mp.get("s"), "code": s_})
            rt = X.real_tbt_custom(factory, [s_])
            cmp_keys = ("err", "is", "is2", "lines2")
            if {k: rt.get(k) for k in cmp_keys} != {k: mt.get(k) for k in cmp_keys}:
                res.disagreements.append({"stream": "text.tbt-user-flavour",
                                          "input": {"flavour": uname, "rows_tail": rows[30:], "text": s_},
                                          "model": str(mt)[:400], "code": str(rt)[:400]})
            if "entry_points_differ" in rt:
                res.failures.append({"what": "Deserializer(flavour) and deserialize(data, flavour) disagree",
                                     "kf": None, "input": {"flavour": uname, "text": s_, "detail": rt}})
            # oracle, for the classes the flavour's maps must resolve to (last class with the mnemonic /
            # opcode, the documented dict.update order); shadowed classes cannot be written by construction
            j = H.instr_to_json(inst)
            if by_mn[c.mnemonic] is c and rt.get("is") != [j]:
                res.failures.append({"what": "user flavour: parse_text_subroutine(str(i), flavour=f).instructions "
                                             "!= [i] for the class the flavour registers last for this mnemonic",
                                     "kf": None, "input": {"flavour": uname, "instrs": [H.T.cls_name(k) for k in
                                                                                       factory().instrs],
                                                           "i": j, "text": s_, "parsed": rt}})
            elif by_mn[c.mnemonic] is c and by_id[c.id] is c and rt.get("lines2") != [s_]:
                res.failures.append({"what": "user flavour: text -> binary -> text is not stable", "kf": None,
                                     "input": {"flavour": uname, "i": j, "text": s_, "result": rt}})

    # -------------------------------------------------- printer histories through the assembler
    # the operands are printed while they still are proto-subroutine operands (integer indices), then the
    # assembler rewrites them: the text printed afterwards must be that of the current operands
    for t in range(1500 if thorough else 300):
        fname = rng.choice(list(H.FLAVOURS))
        src, prob = X.proto_print_history(fname, rng)
        res.evaluations += 1
        res.count("proto-print-history")
        res.nontrivial.add(("proto-print", fname, "\n".join(src)))
        if prob is not None:
            res.failures.append({"what": "printer history (proto form printed, assembled, printed again): " + prob["what"],
                                 "kf": None, "input": {"fl": fname, "source": src, "detail": prob}})
    # -------------------------------------------------- process-wide configurations
    # every class of every flavour: print -> parse -> binary -> print under every configuration knob
    per_fl = {f: [H.instances_of(c, rng, 1, 2)[-1] for c in H.flavour_classes(f)] for f in H.FLAVOURS}

    def _cfg_pass(cname):
        for f, insts in per_fl.items():
            res.evaluations += 1
            res.count("config:" + cname.split("(")[0].split("=")[0])
            keep = [i for i in insts if not (f == "vanilla" and type(i).id == 41)]   # F1 is judged above
            for i in insts:
                bad = X.own_text_ok(f, i)
                if bad is not None:
                    res.failures.append({"what": "str(i) does not parse back to i under a process-wide configuration",
                                         "kf": None, "input": {"config": cname, "fl": f, "detail": bad}})
                    break
            bad = tbt(f, keep)
            if bad is not None:
                res.failures.append({"what": "text -> binary -> text is not stable under a process-wide configuration",
                                     "kf": None, "input": {"config": cname, "fl": f, "detail": bad}})
    H.under_every_config(_cfg_pass)

    # -------------------------------------------------- binary-leg histories
    # text -> bytes -> decode -> print, the decoded objects edited in place, the same bytes decoded again
    # (long-lived Deserializer, fresh one, module-level deserialize()): same text, same bytes
    from netqasm.lang.parsing.binary import Deserializer as _Des
    keepers = {f: _Des(H.FLAVOURS[f]()) for f in H.FLAVOURS}
    for t in range(2000 if thorough else 400):
        fname = rng.choice(list(H.FLAVOURS))
        desc, prob = X.binary_leg_history(fname, rng, keepers[fname])
        res.evaluations += 1
        res.count("binary-leg-history")
        res.nontrivial.add(("binleg", fname, json.dumps(desc, sort_keys=True, default=str)[:1500]))
        if prob is not None:
            res.failures.append({"what": "binary-leg history: " + prob["what"], "kf": None,
                                 "input": dict(desc, detail=prob)})

    # -------------------------------------------------- stream P: parser histories
    # parse(text) must be a function of the text only: parse, edit the parsed objects in place (operand
    # objects with their nested registers / addresses, operand fields, instruction lists), parse the same
    # and other texts again -- every parse equals the model's parse of its text, an edit of one result
    # shows in no other result, and at the end a fresh interpreter parses the same texts identically
    ppool = []
    seen_txt = set()
    fav = [(f, i) for f, i in cases if any(k in ("entry", "slice") for k in H.shape_of(type(i)))]
    for _ in range(400 if thorough else 120):
        fname, inst = rng.choice(fav) if rng.random() < 0.7 else rng.choice(cases)
        lines = [X.real_print(inst)]
        r = rng.random()
        if r < 0.3:
            lines = lines + lines                       # the same line twice in one text
        elif r < 0.6:
            lines += [X.real_print(rng.choice(fav)[1]) for _ in range(rng.randrange(1, 3))]
        # only lines every flavour's table knows are mixed: keep the flavour of the first
        lines = [ln for ln in lines if ln.split(" ")[0] in {c.mnemonic for c in H.flavour_classes(fname)}]
        if (fname, tuple(lines)) not in seen_txt:
            seen_txt.add((fname, tuple(lines)))
            ppool.append([fname, lines, None])
    # source forms with integer indices share operand strings with the printed ones
    for t in (["store R0 @3[R1]"], ["store R0 @3[5]", "load R2 @3[R1]"], ["wait_all @3[R1:R2]", "wait_all @3[R1:R2]"],
              ["undef @3[R1]", "store R0 @3[R1]"]):
        ppool.append(["vanilla", t, None])
    refs = ctx.driver.batch([{"op": "text.parse", "fl": f, "lines": ls} for f, ls, _ in ppool])
    ppool = [(f, ls, r["is"]) for (f, ls, _), r in zip(ppool, refs) if "is" in r]
    # the witness of seeded change C17_13 first: parse, rename the index register in the copy, parse again
    wit = [p_ for p_ in ppool if p_[1] == ["store R0 @3[R1]"]]
    n_ph = 1500 if thorough else 300
    for t in range(n_ph):
        res.evaluations += 1
        res.count("parser-history")
        if t == 0 and wit:
            from netqasm.lang import operand as _op
            from netqasm.lang.encoding import RegisterName as _RN
            steps, problems = [], []
            rp1, sub1 = X.real_parse("vanilla", wit[0][1])
            if sub1 is not None:
                sub1.instructions[0].operands[1].index = _op.Register(_RN.R, 12)
            rp2, _s2 = X.real_parse("vanilla", wit[0][1])
            steps = [{"parse": wit[0][1]}, {"mutate": "operand-object", "attr": "index", "value": [0, 12]},
                     {"parse": wit[0][1]}]
            if rp1 != {"is": wit[0][2]} or rp2 != {"is": wit[0][2]}:
                problems.append({"what": "a parse differs from the reference parse of the same text",
                                 "reference": wit[0][2], "first": rp1, "second": rp2})
        else:
            steps, problems = X.run_parse_history(ppool, rng, rng.randrange(3, 9))
        res.nontrivial.add(("phist", json.dumps(steps, sort_keys=True)[:2000]))
        if problems:
            res.failures.append({"what": "parser history: " + problems[0]["what"], "kf": None,
                                 "input": {"steps": steps[:30], "problems": problems[:3]}})
    # the same texts in a fresh interpreter (no history) vs this process (after all histories)
    probe = [[f, ls] for f, ls, _ in ppool[:60]]
    fresh = X.fresh_interpreter_parse(probe)
    if fresh is None:
        res.disagreements.append({"stream": "text.parse-fresh-interpreter", "input": "probe", "model": "runs",
                                  "code": "the fresh-interpreter probe failed"})
    else:
        for (f, ls), fr in zip(probe, fresh):
            res.evaluations += 1
            res.count("parser-fresh-interpreter")
            here, _sub = X.real_parse(f, ls)
            if here != fr:
                res.failures.append({"what": "a text parses differently in this process (after earlier parses and "
                                             "edits of their results) than in a fresh interpreter", "kf": None,
                                     "input": {"fl": f, "text": ls, "here": here, "fresh_interpreter": fr}})

    # -------------------------------------------------- stream C: malformed / differently formed source
    all_mn = sorted({c.mnemonic for f in H.FLAVOURS for c in H.flavour_classes(f)})
    n_mal = 120000 if thorough else 10000
    mal = []
    # corpus: no register left for a replaced constant (RuntimeError)
    full = ["add R%d R%d R%d" % (k, k + 1, k + 2) for k in range(0, 14)]
    mal.append(("vanilla", full + ["add R0 R1 5"], "no-register-left"))
    mal.append(("vanilla", full[:-1] + ["add R0 R1 5"], "one-register-left"))
    for _ in range(n_mal):
        fname, inst = rng.choice(cases)
        line, kind = X.mutate(X.real_print(inst), rng, all_mn)
        if rng.random() < 0.3:
            line, k2 = X.mutate(line, rng, all_mn)
            kind += "+" + k2
        lines = [line]
        if rng.random() < 0.3:
            pre = [X.real_print(rng.choice(cases)[1]) for _ in range(rng.randrange(3))]
            post = [X.real_print(rng.choice(cases)[1]) for _ in range(rng.randrange(3))]
            lines = pre + lines + post
        mal.append((fname, lines, kind))
    mo = ctx.driver.batch([{"op": "text.parse", "fl": f, "lines": ls} for f, ls, _ in mal])
    for (fname, lines, kind), mq in zip(mal, mo):
        res.evaluations += 1
        rp, _ = X.real_parse(fname, lines)
        if mq.get("err") == "unsupported" or str(rp.get("err", "")).startswith("unsupported"):
            res.count("malformed:outside-model")
            continue
        res.count("malformed:" + (rp.get("err") or "parses"))
        res.nontrivial.add((fname, "\n".join(lines)))
        if rp != mq:
            res.disagreements.append({"stream": "text.parse-malformed",
                                      "input": {"fl": fname, "lines": lines, "edit": kind},
                                      "model": str(mq)[:300], "code": str(rp)[:300]})
    return res
