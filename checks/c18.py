"""C18 — thread sockets deliver every message once and in order under any schedule."""
import multiprocessing
import time

from check import Result

PROP = "C18"
M = "NetqasmVerif.Props.C18"
TARGETS = [M]
THEOREMS = [(M, "NQ.C18." + n) for n in [
    "chan_inv", "plain_got", "exactly_once_fifo", "no_stale", "recv_returns_head", "pop_never_crashes",
    "recv_nonblock_empty", "recv_nonblock_nonempty", "lock_inv", "rendezvous_inv", "rendezvous_stable",
    "rendezvous", "callback_registered_while_open", "callback_inv", "f20_schedule_fixed",
    "queue_path_fifo", "paths_partition", "callback_matches_incarnation", "send_path_matches_incarnation",
    "mixed_key_not_globally_fifo",
    "structured_roundtrip", "recvWires_eq_gotOf", "sent_results", "compile_noCb", "socket_exactly_once_fifo",
    "socket_queue_path", "bsend_progress", "bsend_abort", "broadcast_delivers_each_once",
    "broadcast_recv_nonblocking_one_round", "send_snapshots_value"]]
TRANSLATORS = []
LEVEL_TEXT = (
    "Lean theorems about a transition system of _SocketHub at shared-access granularity (one step = one source "
    "line touching _open_sockets/_remote_sockets/_messages/callback registries/_lock), for ANY number of endpoint "
    "threads with ANY programs and EVERY interleaving (induction over reachable states): per directed channel and "
    "socket id sent = delivered ++ queue (exactly once, FIFO), a recv returns the head of the queue and the results "
    "of the receiving thread are exactly the popped prefix (no stale message), pop(0) never hits an empty list, "
    "non-blocking recv on an empty queue reports emptiness and changes nothing, the lock has the holder the code "
    "intends, rendezvous: once the peer executed open.add the waiting side leaves _wait_for_remote within one loop "
    "iteration whatever the others do (also after the peer disconnected), keys of ANY history (callback and plain incarnations, disconnects, reconnects): the queue path is "
    "exactly-once FIFO (queued = popped ++ queue, recv results = popped) and sent is an interleaving of the queue path and "
    "the callback path for every program; whenever the key is visible in _open_sockets a callback is registered iff the "
    "open incarnation uses callbacks (for owners that do not connect a key twice without a disconnect), so a send takes "
    "the path of the open incarnation; the global identity sent = delivered ++ queue is proved FALSE for a "
    "plain-then-callback key (kernel-decided trace, lock-step checked); callback sockets (after the F20 fix): a "
    "key visible in _open_sockets has its callback registered, and the callback storage is the delivered sequence. "
    "Tie: LOCK-STEP correspondence: the real hub runs real threads under a deterministic scheduler (sys.settrace "
    "parks each thread in front of every such line, located by AST pattern), the compiled model runs the same "
    "schedule, and after EVERY step the shared state, every thread's position, results, callback storage and the "
    "set of enabled threads must be equal. Oracle: sent vs delivered sequences on the real hub, also in a "
    "model-free stream in which EVERY line of socket_hub.py (any function) is a scheduling point.")
LEVEL_NOTE = (
    "The socket layer (ThreadSocket send/recv/send_structured/recv_structured/*_silent/wait, connect/disconnect) and the "
    "broadcast channel (send to all remotes, blocking recv polling them) are modelled in Model/ThreadSocket.lean as "
    "programs of hub operations plus a local view of the outcome; wires are text | json(header, payload); theorems "
    "socket_exactly_once_fifo, structured_roundtrip, sent_results, bsend_progress/bsend_abort, "
    "broadcast_delivers_each_once; the lock-step tie compares SOCKET-LEVEL results (the harness sends socket-level "
    "programs, the driver compiles them). F48 (fixed): BroadcastChannel.recv(block=False) now polls every socket once "
    "(broadcast_recv_nonblocking_one_round). "
    "PARTIAL (labelled): below statement granularity (preemption inside a source line / inside C code), timeouts, "
    "sleep (set to 0), garbage-collection driven __del__ and dead WeakMethods are not modelled; atomicity of single "
    "set/dict/list operations under the GIL and of threading.Lock is assumed; one thread per endpoint (a key is "
    "used by its owner thread only). callback_inv (callback storage = sent, nothing queued) is stated for callback keys that are never connected plain and never disconnected (CbOnlyProg); callback_matches_incarnation / send_path_matches_incarnation cover every history in which the owner does not connect a key twice without a disconnect (LifeOk); queue_path_fifo, paths_partition and the plain-channel theorems are unconditional. Messages queued for an incarnation that closed without receiving them stay in _messages[key]: a later plain incarnation pops them first, a later callback incarnation never sees them (stated, mixed_key_not_globally_fifo). Bounded "
    "exhaustive / random schedules only validate the model (tie), the theorems cover all schedules.")
TECHNIQUE = ("Lean 4 proof (invariants by induction over all interleavings of a transition system) + lock-step "
             "differential correspondence against real threads under a deterministic scheduler")
TRUSTED = [
    "Lean 4.33 kernel; axioms at most propext, Classical.choice, Quot.sound (audited per theorem)",
    "harness/hub.py: AST location of the shared-access lines (raises when a pattern is not found or an unmodelled "
    "access to shared state appears), sys.settrace scheduler, canonicalisation of the hub state",
    "CPython: one bytecode line executes atomically with respect to the other (parked) threads in the harness",
]
ASSUMPTIONS = [
    "atomicity of single set/dict/list operations under the GIL and of threading.Lock",
    "OS preemption inside C code, timeouts, sleep and GC-driven __del__ / dead WeakMethod are not modelled",
    "one thread per endpoint; a socket key is operated by its owner thread only",
    "assigning a public property of the live socket (use_callbacks — every property of ThreadSocket with a setter is "
    "discovered at run time) is no hub operation in the code as it is: the harness performs such assignments at "
    "arbitrary points of the schedules, the model has no step for them; the every-line stream also explores the "
    "connect phase (one side's whole lifetime inside the other side's connect polling)",
    "value-snapshot semantics: in the model a send carries values (send_snapshots_value); that the real sockets take "
    "the snapshot at send time is checked by the value_snapshot_histories stream (one StructuredMessage object reused "
    "and mutated by the sender, scribbling receiver); plain `send` only accepts immutable str",
    "runs in one process are separated by reset_socket_hub(); the harness asserts after every reset that the hub the "
    "sockets use (ThreadSocket._SOCKET_HUB) is empty, and judges two-run histories by the oracle on run 2 alone",
    "message payloads are abstract identities in the model; the harness maps id 0 to the empty string (falsy payload), "
    "other ids to 'm<id>' / StructuredMessage(payload=id)",
    "callback theorems: the callback key is never connected without callbacks and never disconnected (CbOnlyProg)",
    "is_connected (two reads of _open_sockets in one source line) is one atomic step",
]

N_PROCS = 6


def _merge(res, sm, stream):
    res.evaluations += sm["evaluations"]
    for d in sm["nontrivial"]:
        res.nontrivial.add(d)
    for k, v in sm["dist"].items():
        res.count(k, v)
    res.count("steps-compared", sm["steps"])
    for d in sm["disagreements"]:
        d["stream"] = stream
        res.disagreements.append(d)
    if sm["n_disagreements_more"]:
        res.count("further-disagreements", sm["n_disagreements_more"])
    res.failures.extend(sm["failures"])
    for s in sm["samples"]:
        if len(res.samples) < 4:
            res.samples.append(s)
    res.count("program-pairs-exhausted", sm["pairs_complete"])
    res.count("program-pairs-cut-by-deadline", sm["pairs_partial"])


def run(ctx):
    from harness import hub as H
    res = Result()
    res.rule = ("a case = endpoint programs + the schedule actually executed on the real hub; compared with the model "
                "after every step; non-trivial when at least one message was sent or received; distinct by "
                "(programs, schedule)")
    rng = ctx.rng
    # the AST tie: if the hub no longer has the shape the model was written from, the tie is broken
    try:
        H.LOCATED = None
        H.ensure_located()
    except H.TieBroken as e:
        res.disagreements.append({"stream": "hub.locate", "input": "socket_hub.py", "model": H.EXPECTED_ORDER,
                                  "code": str(e)})
        H.LOCATED = H.locate(strict=False)   # still run the oracle below on the real hub
    strict_ok = not res.disagreements

    # ---- corpus: the F20 schedule shapes (forced), in this process
    corpus = []
    n_stuck = [0]

    def _rc(*a, **kw):
        """run_case for the corpus; once the real hub got stuck twice (a thread blocked inside the hub for good) the
        remaining corpus cases are skipped — the failures found so far and the other streams carry the report"""
        if n_stuck[0] >= 2:
            raise H.Stuck("skipped: the hub already blocked threads for good in earlier corpus cases")
        try:
            return H.run_case(*a, **kw)
        except H.Stuck:
            n_stuck[0] += 1
            raise
    progs = H.f20_case()
    # an EMPTY-STRING message between two others, plain delivery, blocking and non-blocking receives
    empty_progs = [[("c", 1, 0, 0), ("s", 1, 0, 1), ("s", 1, 0, 0), ("s", 1, 0, 2)],
                   [("c", 0, 0, 0), ("r", 0, 0, 1), ("r", 0, 0, 0), ("r", 0, 0, 1), ("r", 0, 0, 0)]]
    for pol in (H.preemptive_policy({}, []), H.preemptive_policy({3: 1, 9: 0}, []), H.forced([0, 1] * 80),
                H.forced([1, 1, 1, 0, 0, 0] * 30)):
        sched = "policy"
        try:
            corpus.append(_rc(empty_progs, pol))
        except H.Stuck as e:
            res.failures.append({"what": "harness could not drive the real hub: %s" % e, "kf": None,
                                 "input": {"progs": empty_progs, "schedule": sched}})
    # ---- the socket layer and the broadcast channel (Model/ThreadSocket.lean): socket-level results vs the model
    scen = H.socket_layer_scenarios()
    for name, sp in scen.items():
        pols = [H.preemptive_policy({}, [])] + [H.random_policy(rng, 200, 40) for _ in range(12 if ctx.thorough else 5)]
        for pol in pols:
            try:
                corpus.append(_rc(sp, pol, (), max_steps=700))
            except H.Stuck as e:
                res.failures.append({"what": "harness could not drive the real hub: %s" % e, "kf": None,
                                     "input": {"progs": sp}})
    # ---- F48 (fixed): the witness of the non-blocking broadcast receive that never polled
    try:
        corpus.append(_rc(H.f48_case(), H.preemptive_policy({}, [])))
    except H.Stuck as e:
        res.failures.append({"what": "harness could not drive the real hub: %s" % e, "kf": None, "input": "f48_case"})
    for hp in H.history_pairs():   # the delivery mode of a key changes across a disconnect / reconnect
        for pol in (H.preemptive_policy({}, []), H.forced([0] * 12 + [1] * 40 + [0, 1] * 60)):
            try:
                corpus.append(_rc(hp, pol))
            except H.Stuck as e:
                res.failures.append({"what": "harness could not drive the real hub: %s" % e, "kf": None,
                                     "input": {"progs": hp}})
    for sched in ([1, 1] + [0] * 7 + [1, 1] + [0] * 3 + [1] * 3,          # the recorded F20 schedule (unfixed order)
                  [1, 1, 1, 1] + [0] * 9 + [1] * 3,                          # callbacks, publish, then A runs
                  [1, 1, 1] + [0] * 3 + [1] + [0] * 6 + [1] * 3,            # B publishes only open, A connects+sends
                  [0, 0, 0, 0, 1, 1, 1, 1, 0, 0] + [0, 1] * 6):             # A first, waits; alternate
        pol = H.forced(sched)
        try:
            corpus.append(_rc(progs, pol))
        except H.Stuck as e:
            res.failures.append({"what": "harness could not drive the real hub: %s" % e, "kf": None,
                                 "input": {"progs": progs, "schedule": sched}})
    # ---- lifecycle across runs in one process: leftovers of run 1, reset_socket_hub(), run 2 with the same names
    try:
        run2_cases, two_fails = H.two_run_histories()
        corpus.extend(run2_cases)
        for f in two_fails:
            res.failures.append({"what": f["what"], "kf": None,
                                 "input": {"progs": f["progs"], "previous_run": f["previous_run"], "key": f["key"]}})
        res.count("two-run-histories", len(run2_cases))
    except H.Stuck as e:
        res.failures.append({"what": "two-run history could not be driven on the real hub: %s" % e, "kf": None,
                             "input": "two_run_histories"})
    # ---- broadcast channels: 1, 2, 3 remotes x block True / False x empty / non-empty, with a watchdog
    try:
        n_b, b_fails = H.broadcast_matrix()
        res.evaluations += n_b
        res.count("broadcast-matrix-cases", n_b)
        for f in b_fails:
            res.failures.append({"what": f["what"], "kf": None, "input": f["input"]})
    except Exception as e:  # noqa
        res.failures.append({"what": "broadcast matrix crashed: %r" % (e,), "kf": None, "input": "broadcast_matrix"})
    # ---- every parameter of the public receive API (block, timeout, maxsize, … enumerated from the signatures)
    try:
        n_a, a_fails = H.api_parameter_histories(rng, 6 if ctx.thorough else 1)
        res.evaluations += n_a
        res.count("api-parameter-histories", n_a)
        for f in a_fails[:8]:
            res.failures.append({"what": f["what"], "kf": None, "input": f["input"]})
    except Exception as e:  # noqa
        res.failures.append({"what": "API-parameter history crashed: %r" % (e,), "kf": None,
                             "input": "api_parameter_histories"})
    # ---- value-snapshot semantics: one StructuredMessage object reused / mutated by the sender, scribbling receiver
    try:
        n_hist, snap_fails = H.value_snapshot_histories(rng, 40 if ctx.thorough else 8)
        res.evaluations += n_hist
        res.count("value-snapshot-histories", n_hist)
        for f in snap_fails:
            res.failures.append({"what": f["what"], "kf": None, "input": f["input"]})
    except Exception as e:  # noqa
        res.failures.append({"what": "value-snapshot history crashed: %r" % (e,), "kf": None,
                             "input": "value_snapshot_histories"})
    from vlib import common
    sm = H._new_summary()
    drv = common.Driver()
    if strict_ok:
        H._check_cases(corpus, drv, sm, 0)
    else:
        for c in corpus:
            sm["evaluations"] += 1
            for f in H.oracle(c, 0):
                sm["failures"].append({"what": f["what"], "kf": None,
                                       "input": {"progs": c["progs"], "schedule": c["schedule"], "key": f["key"]}})
    drv.close()
    H._report_resets(sm)
    sm["nontrivial"] = sorted(sm["nontrivial"])
    _merge(res, sm, "hub.lockstep.corpus")

    ctxm = multiprocessing.get_context("fork")
    # ---- random schedules: 2-3 endpoints, <= 4 sends/receives each, plain / structured / callback
    n_cases = 6000 if ctx.thorough else 1200
    per = n_cases // N_PROCS
    jobs = [(rng.randrange(1 << 30), per, 80, 12) for _ in range(N_PROCS)]
    with ctxm.Pool(N_PROCS) as pool:
        sums = pool.map(H.worker_random, jobs)
        for sm in sums:
            if sm["error"]:
                if sm["error"].startswith("TieBroken"):
                    continue
                raise RuntimeError("hub worker failed:\n" + sm["error"])
            _merge(res, sm, "hub.lockstep.random")
        # ---- model-free stream at EVERY-LINE granularity (independent of the model's table of shared accesses):
        # concurrent senders towards callback / plain receivers, every line of socket_hub.py (any function, also
        # ones the model does not know) is a scheduling point; all schedules with one forced switch + random
        # ones with two; judged by the oracle only. Larger when the AST tie is already broken.
        n_scen = len(H.coarse_scenarios())
        n_two = 400 if ctx.thorough else (150 if not strict_ok else 20)
        cdeadline = time.time() + (240 if ctx.thorough else 40)
        cjobs = [([i], n_two, rng.randrange(1 << 30), cdeadline) for i in range(n_scen)]
        for sm in pool.map(H.worker_coarse, cjobs):
            if sm["error"]:
                raise RuntimeError("hub worker failed:\n" + sm["error"])
            _merge(res, sm, "hub.coarse")
        # ---- bounded-exhaustive: 2 endpoints x <= 2 operations, <= 2 preemptions
        small = H.small_programs()
        pairs = [(a, b) for a in small for b in small]
        rng.shuffle(pairs)
        core = [((0, ("s", "s"), 0), (1, (), 0)), ((1, ("s", "rn"), 1), (1, ("s",), 1)),
                ((0, ("s", "s"), 1), (0, ("rb", "rn"), 0)), ((0, ("rn", "s"), 0), (0, ("rb", "s"), 1))]
        core = [("progs", hp) for hp in H.history_pairs()] + [("progs", scen["bcast2"]), ("progs", scen["mixed"])] + core
        if ctx.thorough:
            budget, chosen = 420, core + pairs
        else:
            budget, chosen = 14, core + pairs[:40]
        deadline = time.time() + budget
        chunks = [chosen[i::N_PROCS] for i in range(N_PROCS)]
        sums = pool.map(H.worker_explore, [(ch, 2, deadline) for ch in chunks])
        for sm in sums:
            if sm["error"]:
                if sm["error"].startswith("TieBroken"):
                    continue
                raise RuntimeError("hub worker failed:\n" + sm["error"])
            _merge(res, sm, "hub.lockstep.exhaustive")
    res.count("program-pairs-total", len(chosen))
    # concrete message-level failures first, "the harness could not drive the hub" reports last
    res.failures.sort(key=lambda f: ("could not drive" in f["what"]) or ("could not be driven" in f["what"]))
    return res
