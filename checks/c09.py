"""C09 — SDK and controller agree on which virtual qubits exist."""
import json

from check import Result

PROP = "C09"
TARGETS = ["NetqasmVerif.Props.C09", "NetqasmVerif.Props.C09Bridge"]
M = "NetqasmVerif.Props.C09"
THEOREMS = [(M, "NQ.C09." + n) for n in [
    "inv_init", "agree_preserved_partial", "agree_step_partial", "no_alloc_fault", "agree_after_flush",
    "step_alloc_ok", "step_use_ok", "step_free_ok",
    "id_reuse_free", "id_reuse_meas", "id_choice",
    "f12_fixed_witness", "f29_fixed_witness", "nv_context_fixed_witness",
    "f28_counterexample", "f30_counterexample", "retry_exhausted_witness",
    "connections_independent", "agree_preserved_two_partial"]]
MB = "NetqasmVerif.Props.C09Bridge"
THEOREMS += [(MB, "NQ.C09Bridge." + n) for n in [
    "event_step_refines_exec", "event_ok_iff_exec_ok", "exec_inv_preserved", "events_safe_on_exec",
    "events_fault_on_exec", "flush_qsafe", "sdk_programs_qsafe", "qalloc_step_ok", "qfree_step_ok"]]
TRANSLATORS = []
LEVEL_TEXT = (
    "Lean theorems over histories of ANY length (induction over the operation list): the joint "
    "invariant of SDK bookkeeping and controller unit module (pending instructions run without "
    "allocation fault and end in exactly the SDK's active id set; ids pairwise distinct, inside the "
    "unit module, within the budget) is preserved by creation, gates, in-place/destructive "
    "measurement, free, EPR keep, sequential keep with post routine, context blocks (both roles, "
    "any number of pairs, loops proved by induction over the pairs), the min-fidelity retry forms "
    "of keep (try-until-success over the keep operation with its clean-up, any number of too slow "
    "attempts), flush and close on generic and "
    "NV configurations with and without the transpiler, incl. the NV relocation with its peephole as "
    "coded; Agree after every flush; id reuse after free/destructive measurement. PARTIAL: the "
    "hypothesis `good` excludes the two open findings F28 (NV multi-pair keep while an id in 1..n-1 "
    "is taken after the relocation; every other NV keep is proved) and F30 (carbon-carbon gates "
    "under the NV transpiler while id 0 is free); each has a kernel-proved counter-example. F11, "
    "F13, F12, F29 and the NV context-block deadlock are fixed in /repo and the fixed code is what "
    "is modelled. Tie: differential correspondence of the compiled model with the real SDK -> bytes "
    "-> Executor pipeline after every operation (handle ids/active flags, executed allocation "
    "events, unit module, error class). Bridge to the executor model (Props/C09Bridge.lean): every "
    "event is exactly the unit-module effect of the corresponding Exec instruction(s)/delivery, so for "
    "every good history each flushed subroutine raises no allocation fault on Exec "
    "(sdk_programs_qsafe); cross-model driver op qm.exec on the event traces of the random stream.")
LEVEL_NOTE = (
    "Trusted: Lean kernel; harness/qubits.py (event recording through the executor's documented "
    "extension points, canonicalisation: consecutive uses merged into sets); the subroutine is "
    "abstracted to its allocation-relevant events with EPR loops unrolled; link layer delivers one "
    "pair per wait poll, Bell state Phi+ in the correspondence (random Bell states in an "
    "oracle-only stream).")
TECHNIQUE = ("Lean 4 proof (invariant by induction over operation histories, executable model of "
             "memmgr/builder qubit bookkeeping + unit module) + differential correspondence with the "
             "real in-process pipeline + model-free oracle search")
TRUSTED = [
    "Lean 4.33 kernel; axioms at most propext, Classical.choice, Quot.sound (audited per theorem)",
    "harness/qubits.py: in-process SDK -> bytes -> real Executor pipeline, event recording via "
    "_allocate_physical_qubit/_free_physical_qubit/_do_* overrides, canonicalisation of traces",
    "abstraction of a subroutine to its executed allocation-relevant events (qalloc/qfree/use/"
    "two-qubit use/EPR delivery), validated by the correspondence stream",
    "link-layer schedule: one OK-K response per wait poll, in request order",
]
ASSUMPTIONS = [
    "boolean flags are passed as bool, 0/1, numpy.bool_ or None (where optional); numbers as Python "
    "ints (numpy integers are refused up front by type assertions without touching any state)",
    "a min-fidelity retry loop succeeds within max_tries (if every attempt is too slow the request "
    "has failed and its handles are void: retry_exhausted_witness)",
    "link layer: responses in request order; schedules lazy / two per poll / all at request time",
    "host programs apply gates only to live handles (measure/free on a dead handle raise "
    "QubitNotActiveError and change nothing)",
    "loop bodies / post routines: gates, then a destructive measurement or free() (the pair is "
    "consumed) or an in-place measurement / nothing more (the pair stays alive; with all pairs in one "
    "virtual qubit only a single pair can be kept)",
    "budget: at most max_qubits live qubits, one fewer on NV hardware configs",
]

CORPUS = [
    # (finding or None, cfg, ops)
    (None, {"nv": False, "transp": False, "maxq": 2},  # F11 witness (fixed)
     [{"k": "new"}, {"k": "free", "h": 0}, {"k": "new"}, {"k": "free", "h": 1}, {"k": "new"},
      {"k": "free", "h": 2}, {"k": "flush"}]),
    (None, {"nv": True, "transp": False, "maxq": 5},  # F13 witness (fixed)
     [{"k": "new"}, {"k": "flush"}, {"k": "new"}, {"k": "meas", "h": 1, "inplace": False},
      {"k": "flush"}]),
    (None, {"nv": True, "transp": False, "maxq": 5},  # peephole still fires for the right qubit
     [{"k": "new"}, {"k": "keep", "recv": False, "n": 1}, {"k": "flush"}, {"k": "close"}]),
    (None, {"nv": False, "transp": False, "maxq": 5},  # F12 witness (fixed)
     [{"k": "ctx", "recv": False, "n": 3, "sequential": False, "body": {"g": 1, "c": "meas"}},
      {"k": "flush"},
      {"k": "ctx", "recv": False, "n": 3, "sequential": False, "body": {"g": 1, "c": "meas"}},
      {"k": "flush"}]),
    (None, {"nv": True, "transp": False, "maxq": 5},  # NV non-sequential context block (fixed)
     [{"k": "ctx", "recv": True, "n": 2, "sequential": False, "body": {"g": 0, "c": "meas"}},
      {"k": "flush"}]),
    (None, {"nv": False, "transp": False, "maxq": 5},  # retry forms, slow first attempts
     [{"k": "new"}, {"k": "keepr", "recv": True, "n": 2, "fails": 1, "tries": 3},
      {"k": "seqr", "recv": True, "n": 2, "fails": 2, "tries": 3, "body": {"g": 1, "c": "meas"}},
      {"k": "seqr", "recv": False, "n": 2, "fails": 1, "tries": 2, "body": {"g": 0, "c": "free"}},
      {"k": "flush"}, {"k": "close"}]),
    (None, {"nv": True, "transp": False, "maxq": 5},  # F32 witness (fixed): relocation + retry
     [{"k": "new"}, {"k": "keepr", "recv": False, "n": 1, "fails": 1, "tries": 2}, {"k": "flush"},
      {"k": "seqr", "recv": True, "n": 3, "fails": 1, "tries": 2, "body": {"g": 0, "c": "meas"}},
      {"k": "flush"}]),
    (None, {"nv": False, "transp": False, "maxq": 5},  # bodies that keep the pair; F49 witness (fixed)
     [{"k": "seq", "recv": False, "n": 1, "body": {"g": 1, "c": "none"}}, {"k": "flush"}, {"k": "new"},
      {"k": "postk", "recv": True, "n": 2, "body": {"g": 1, "c": "inplace"}},
      {"k": "ctx", "recv": False, "n": 1, "sequential": False, "body": {"g": 0, "c": "none"}},
      {"k": "flush"}, {"k": "gate2", "h": 0, "h2": 3, "g": 0}, {"k": "flush"}, {"k": "close"}]),
    (None, {"nv": True, "transp": False, "maxq": 5},  # F50 witness (fixed): NV, post routine, two pairs
     [{"k": "postk", "recv": False, "n": 2, "body": {"g": 0, "c": "meas"}}, {"k": "flush"},
      {"k": "ctx", "recv": True, "n": 1, "sequential": False, "body": {"g": 1, "c": "inplace"}},
      {"k": "new"}, {"k": "flush"}]),
    ("F28", {"nv": True, "transp": False, "maxq": 5},
     [{"k": "new"}, {"k": "keep", "recv": True, "n": 2}, {"k": "flush"}]),
    (None, {"nv": False, "transp": False, "maxq": 2},  # F29 witness (fixed)
     [{"k": "seq", "recv": False, "n": 2, "body": {"g": 0, "c": "meas"}}, {"k": "flush"}]),
    (None, {"nv": True, "transp": False, "maxq": 5},  # F29 NV witness (fixed)
     [{"k": "seq", "recv": False, "n": 1, "body": {"g": 0, "c": "meas"}}, {"k": "flush"},
      {"k": "new"}, {"k": "meas", "h": 1, "inplace": False}, {"k": "flush"}]),
    ("F30", {"nv": True, "transp": True, "maxq": 5},
     [{"k": "new"}, {"k": "new"}, {"k": "new"}, {"k": "meas", "h": 0, "inplace": False},
      {"k": "gate2", "h": 1, "h2": 2, "g": 0}, {"k": "flush"}]),
]


def _key(cfg, ops):
    return (cfg["nv"], cfg["transp"], cfg["maxq"], json.dumps(ops, sort_keys=True))


def run(ctx):
    from harness import qubits as H
    res = Result()
    res.rule = ("random histories over {new, gate, gate2, meas(inplace|destructive), free, keep, "
                "sequential keep, context block (both roles), flush, close}, budgets 1..5, generic/NV, "
                "with/without NVSubroutineTranspiler, mostly inside the budget plus over-budget and "
                "dead-handle cases; non-trivial = at least one flush that executed an allocation "
                "event; distinct by (config, history)")
    rng = ctx.rng

    def fails(cfg, ops, **kw):
        wf, inb, _ = H.analyse(cfg, ops)
        if not (wf and inb):
            return None
        _, notes = H.run_real(cfg, ops, **kw)
        return notes[0] if notes else None

    def classify(cfg, ops, **kw):
        """shrink the failing history, then match it against the open findings: the feature must
        be present and the failure must disappear when exactly that feature is removed"""
        small = H.shrink(ops, lambda o: fails(cfg, o, **kw) is not None, budget=150 if ctx.thorough else 90)
        note = fails(cfg, small, **kw)
        kf = None
        # F28: NV multi-pair keep -> the same pairs requested one at a time
        if kf is None and (cfg["nv"] or cfg["transp"]) and note and note[1] == "assertion" and \
                small[note[0]]["k"] in ("keep", "keepr") and small[note[0]]["n"] >= 2:
            i = note[0]
            alt = small[:i] + [dict(small[i], n=1) for _ in range(small[i]["n"])] + small[i + 1:]
            if fails(cfg, alt, **kw) is None:
                kf = "F28"
        # F30: two-qubit gate under the NV transpiler -> same history without the transpiler
        if kf is None and cfg["transp"] and any(o["k"] == "gate2" for o in small) and \
                note and note[1] == "fault:notalloc":
            alt_cfg = dict(cfg, transp=False, nv=True)
            if fails(alt_cfg, small, **kw) is None:
                kf = "F30"
        return small, note, kf

    def schedule_invariant(cfg, ops):
        """the executed event order does not depend on when the link layer reports the pairs,
        except for a non-sequential context block of several pairs on multi-comm hardware (the
        pairs have different destination ids, so all of them may arrive before the first body)"""
        single = cfg["nv"] or cfg["transp"] or cfg["maxq"] == 1
        return not any(o["k"] in ("ctx", "postk") and not o.get("sequential", False) and o["n"] >= 2 and not single
                       for o in ops)

    def compare(cfg, ops, stream, schedule="lazy"):
        real, notes = H.run_real(cfg, ops, schedule=schedule)
        res.count("schedule:" + schedule)
        if schedule != "lazy" and not schedule_invariant(cfg, ops):
            res.evaluations += 1
            res.count("schedule:oracle-only (event order depends on the schedule)")
            return real, notes
        raw = ctx.driver.call({"op": "qm.run", **cfg, "ops": ops})["snaps"]
        model = H.canon_model(raw)
        res.evaluations += 1
        # ---- cross-model: the executed events through C09's `run` and on the executor model
        evs, last_u = [], []
        for o, sn in zip(ops, raw):
            if o["k"] == "close":
                break
            if o["k"] == "flush":
                evs += sn["ev"]
                last_u = sn["u"]
        if evs:
            x = ctx.driver.call({"op": "qm.exec", "maxq": cfg["maxq"], "evs": evs})
            res.count("cross-model:qm.exec")
            if x["model"].get("fault") != x["exec"].get("fault") or x["model"].get("ok") != x["exec"].get("ok") \
                    or (x["model"].get("ok") is not None and x["model"]["ok"] != sorted(last_u)):
                res.disagreements.append({"stream": "qm.exec (event model vs executor model)",
                                          "input": {"cfg": cfg, "evs": evs}, "model": x["model"], "code": x["exec"]})
        for o in ops:
            res.count("op:" + o["k"])
        res.count("cfg:%s%s" % ("nv" if cfg["nv"] or cfg["transp"] else "generic",
                                "+transp" if cfg["transp"] else ""))
        res.count("budget:%d" % cfg["maxq"])
        for s in real:
            if s["r"] != "ok":
                res.count("result:" + s["r"].split(":", 2)[0] + (":" + s["r"].split(":")[1] if s["r"].startswith("fault") else ""))
        if any(s["ev"] for s in real):
            res.nontrivial.add(_key(cfg, ops))
        if real != model:
            i = next((k for k, (a, b) in enumerate(zip(real, model)) if a != b), min(len(real), len(model)))
            res.disagreements.append({"stream": stream, "input": {"cfg": cfg, "ops": ops, "at": i},
                                      "model": model[i] if i < len(model) else None,
                                      "code": real[i] if i < len(real) else None})
        return real, notes

    def oracle(cfg, ops, notes, **kw):
        wf, inb, _ = H.analyse(cfg, ops)
        if not (notes and wf and inb):
            return
        small, note, kf = classify(cfg, ops, **kw)
        res.failures.append({"what": "allocation fault / SDK-controller disagreement: " + str(note),
                             "kf": kf, "input": {"cfg": cfg, "ops": small, "original": ops, **kw}})

    # ---- corpus: witnesses of the open findings (must still fail) and of the fixed ones (must pass)
    for fid, cfg, ops in CORPUS:
        real, notes = compare(cfg, ops, "qm.corpus")
        oracle(cfg, ops, notes)
        if len(res.samples) < 3:
            res.samples.append({"cfg": cfg, "ops": ops, "last": real[-1]})

    # ---- correspondence + oracle
    n_cases = 20000 if ctx.thorough else 1150
    for it in range(n_cases):
        cfg = {"nv": rng.random() < 0.6, "transp": False, "maxq": rng.randint(1, 5)}
        if rng.random() < 0.35:
            cfg["transp"] = True
            if rng.random() < 0.5:
                cfg["nv"] = True  # transpiler with an explicit NV config, or forcing it
        ops = H.random_ops(rng, cfg, rng.randint(1, 14), loops=rng.random() < 0.5,
                           over_budget=rng.random() < 0.12)
        schedule = rng.choice(["lazy", "lazy", "eager", "burst"])
        real, notes = compare(cfg, ops, "qm.random", schedule)
        oracle(cfg, ops, notes, schedule=schedule)
        if len(res.samples) < 6 and it % 53 == 0:
            res.samples.append({"cfg": cfg, "ops": ops, "last": real[-1] if real else None})

    # ---- two connections alive in one process, operations interleaved, nested open context blocks
    def two(cfgs, ops, stream):
        real, notes = H.run_real2(cfgs, ops)
        res.evaluations += 1
        res.count("two-connections")
        depth = 0
        for o in ops:
            if o["k"] == "ctx_open":
                depth += 1
                if depth == 2:
                    res.count("two-connections: context blocks of both connections open at once")
            elif o["k"] == "ctx_close":
                depth -= 1
        alone_fail = False
        for c in (0, 1):
            pops, at = H.project(ops, c)
            model = H.canon_model(ctx.driver.call({"op": "qm.run", **cfgs[c], "ops": pops})["snaps"])
            for j, (i, ms) in enumerate(zip(at, model)):
                if i >= len(real):
                    break
                if real[i] != ms:
                    res.disagreements.append({"stream": stream, "input": {"cfgs": cfgs, "ops": ops, "connection": c, "at": i},
                                              "model": ms, "code": real[i]})
                    break
            wf, inb, _ = H.analyse(cfgs[c], pops)
            if not (wf and inb):
                return real
            # a failure that the connection shows on its own operations alone is judged there
            _, n1 = H.run_real(cfgs[c], pops)
            if n1:
                alone_fail = True
                oracle(cfgs[c], pops, n1)
        if notes and not alone_fail:
            res.failures.append({"what": "two connections: failure that neither connection shows alone: " + str(notes[0]),
                                 "kf": None, "input": {"cfgs": cfgs, "ops": ops}})
        if any(s["ev"] for s in real):
            res.nontrivial.add(("two", json.dumps(cfgs), json.dumps(ops, sort_keys=True)))
        return real

    B2 = {"g": 1, "c": "meas"}
    two([{"nv": False, "transp": False, "maxq": 5}, {"nv": False, "transp": False, "maxq": 5}],
        [{"c": 0, "k": "new"}, {"c": 0, "k": "ctx_open", "recv": False, "n": 2, "sequential": False, "body": B2},
         {"c": 1, "k": "ctx_open", "recv": True, "n": 2, "sequential": False, "body": B2}, {"c": 1, "k": "ctx_close"},
         {"c": 1, "k": "flush"}, {"c": 0, "k": "ctx_close"}, {"c": 0, "k": "flush"}, {"c": 0, "k": "new"},
         {"c": 0, "k": "flush"}, {"c": 0, "k": "close"}, {"c": 1, "k": "close"}], "qm.two-corpus")
    for it in range(1500 if ctx.thorough else 160):
        cfgs = []
        for _ in (0, 1):
            c = {"nv": rng.random() < 0.5, "transp": False, "maxq": rng.randint(2, 5)}
            if c["nv"] and rng.random() < 0.3:
                c["transp"] = True
            cfgs.append(c)
        two(cfgs, H.random_ops2(rng, cfgs, rng.randint(1, 8)), "qm.two")

    # ---- cross-model, malformed stream: arbitrary event lists (faults of every kind at every position)
    reqs = []
    for it in range(4000 if ctx.thorough else 400):
        m = rng.randint(1, 5)
        evs = []
        for _ in range(rng.randint(1, 10)):
            t = rng.choice(["A", "A", "F", "U", "D", "U2"])
            v = rng.randint(0, m)  # m itself is outside the unit module
            evs.append([t, v, rng.randint(0, m)] if t == "U2" else [t, v])
        reqs.append({"op": "qm.exec", "maxq": m, "evs": evs})
    for rq, x in zip(reqs, ctx.driver.batch(reqs)):
        res.evaluations += 1
        res.count("cross-model:random events -> " + ("fault:" + x["model"]["fault"] if "fault" in x["model"] else "ok"))
        if x["model"].get("fault") != x["exec"].get("fault") or x["model"].get("ok") != x["exec"].get("ok"):
            res.disagreements.append({"stream": "qm.exec (event model vs executor model, random events)",
                                      "input": rq, "model": x["model"], "code": x["exec"]})

    # ---- oracle only: random Bell states (corrections are emitted for the receiver)
    n_bell = 5000 if ctx.thorough else 300
    for it in range(n_bell):
        cfg = {"nv": rng.random() < 0.5, "transp": rng.random() < 0.3, "maxq": rng.randint(1, 5)}
        ops = H.random_ops(rng, cfg, rng.randint(2, 12), loops=rng.random() < 0.5)
        bell = rng.randrange(4)
        _, notes = H.run_real(cfg, ops, bell=bell)
        res.evaluations += 1
        res.count("oracle:bell-%d" % bell)
        oracle(cfg, ops, notes, bell=bell)
    return res


def replay(ctx, payload):
    from harness import qubits as H
    inp = payload["failure"]["input"]
    snaps, notes = H.run_real(inp["cfg"], inp["ops"], bell=inp.get("bell", 0),
                              schedule=inp.get("schedule", "lazy"))
    print(json.dumps({"snapshots": snaps, "oracle": notes}, indent=1))
    return 1 if notes else 0
