"""C08 — NV transpilation preserves program behaviour, not only gates."""
import hashlib
import json

from check import Result

PROP = "C08"
TARGETS = ["NetqasmVerif.Props.C08"]
M = "NetqasmVerif.Props.C08"
THEOREMS = [(M, "NQ.C08." + n) for n in [
    "expansions_have_no_branch", "index_is_expansion_start", "index_monotone", "output_structure",
    "branch_lands_on_expansion", "nongate_order", "scratch_ok", "transpile_simulates_partial",
    "transpile_simulates_final_partial", "pad_is_set", "set_writes_gen",
    "templates_eq_nvdecomp", "expandSound_of_C07", "transpile_simulates_C07_partial",
    "mov_unknown_emits_ec", "mov_sdk_shape_in_qstatic", "f10_nonQ_register_asserts", "sets_only_scratch_gen", "seeded_scratch_registers",
    "seeded_cache_violates_scratch_ok", "seeded_qfree_register_live", "seeded_value_persists_across_qfree", "seeded_load_written_register_named", "seeded_index_loop_head", "branch_to_line_zero", "seeded_line_zero", "seeded_end_label_behind_return_block",
    "transpile_pure", "transpile_retry_pure", "second_pass_identity_witness",
    "f10_counterexample_asserts", "f10_counterexample_stale", "f26_fixed_witness"]]
TRANSLATORS = ["nv_expand", "nv_decomp"]
LEVEL_TEXT = (
    "Lean theorems about a literal model of NVSubroutineTranspiler.transpile (all vanilla subroutines, any "
    "length, both debug settings, both hardware settings): index_changes[i] is the serialised start of the "
    "expansion of instruction i and is monotone; the output is the concatenation of per-instruction chunks "
    "(+ padding); every jmp/b** is retargeted to the expansion start of its original target, target = len "
    "included (padding appended exactly then); non-gate instructions appear once, in order, patched only in "
    "their target; the borrowed-electron register of a carbon-carbon gate is not read before being re-set "
    "(scratch_ok, about the registers the emitted chunk writes); step-for-step simulation of the vanilla program by the serialised NV program for "
    "QStatic programs given the C07 gate hypothesis (transpile_simulates_partial, and "
    "transpile_simulates_final_partial for terminating runs: same memory and same registers - all non-Q registers "
    "and every Q register that get_unused_register hands out nowhere in S - modulo the padding register C15 when "
    "the padding was appended; the unrestricted statement is false: F10, proved "
    "counter-examples). The gate hypothesis is DISCHARGED for the generated table and a concrete semantics "
    "(expandSound_of_C07, transpile_simulates_C07_partial): gates apply the operator of their mnemonic; the proof "
    "uses C07's single_gates_eq / cnot_placements_eq / cphase_placements_eq and the kernel-decided tie "
    "templates_eq_nvdecomp (Gen/NvExpand templates read over roles = Gen/NvDecomp sequences). Purity (transpile_pure, transpile_retry_pure): the output is a function of (subroutine, settings); an object influences a call only through look-ups in _register_values and membership in _used_registers, and a retry after a call that raised before any two-qubit gate equals a fresh run; tested on real objects by the history streams (helpers first, fail-then-retry, two calls, two objects). Tie: expansion templates, class facts and padding regenerated "
    "from the live code; syntactic correspondence (equal instruction lists / same exception class) between "
    "the compiled model and the real pass on structured programs, instruction soup and real-SDK output; "
    "model-free state-vector oracle on the real Executor.")
LEVEL_NOTE = (
    "Trusted: Lean kernel; translate/nv_expand.py; harness/transpile.py. Gate correctness of each expansion is "
    "discharged from C07 for the concrete semantics MQ (mov = partial transfer onto a |0> target, via C07 "
    "mov_transfer); classical instruction semantics is abstract (locality/frame hypotheses of Sem). QStatic "
    "excludes Q registers written by non-set instructions (F10, open); it includes the SDK's multi-pair EPR "
    "`set R4 0; mov R4 R3`.")
# check.py's generic alt-config pass (thorough tier) is switched off: the hardware flag is part of this property's own configuration space (both settings are exercised explicitly per call by harness/transpile.py), so the generic pass is redundant and its default would contradict the per-call settings
ALT_CONFIG = False
TECHNIQUE = ("Lean 4 proof (induction over the instruction list, relational Steps simulation) + generated data "
             "re-decided by the kernel + syntactic differential correspondence + state-vector oracle")
TRUSTED = [
    "Lean 4.33 kernel; axioms at most propext, Classical.choice, Quot.sound (audited per theorem)",
    "translate/nv_expand.py: expansion templates obtained by running the live _map_*/_move_* methods with "
    "sentinel registers and probe angles; class facts from isinstance/writes_to on live instances",
    "harness/transpile.py: correspondence stream and numpy state-vector executor (subclass of the real Executor)",
    "QLawful (standard mathematics, not re-proved): an exact operator identity on k roles holds on the whole "
    "register under any injective assignment of qubits to roles (scalar = global phase); a rotation depends only "
    "on its angle. gnameOf: class name -> mnemonic (C07's matrices stream ties mnemonics to published matrices)",
    "SemLocal for the classical instructions (an instruction reads only registers it names and writes only "
    "writes_to()) is C04's; vanilla mov is the partial state transfer onto a |0> target (source left in the state "
    "the device's move leaves it in), not the SWAP its to_matrix() publishes",
]
ASSUMPTIONS = [
    "instructions are (class, operand values); lineno is ignored",
    "transpile_simulates is proved under QStatic (decidable; SDK single-subroutine gate/measure/branch output "
    "satisfies it — measured on every run)",
    "oracle: mov is exercised with an initialised target and the source re-initialised afterwards (the NV "
    "circuits implement a move into |0>, not a SWAP)",
]


def _h(js):
    return hashlib.sha1(json.dumps(js, sort_keys=True).encode()).hexdigest()[:16]


def replay(ctx, payload):
    from harness import transpile as H
    f = payload.get("failure", {}).get("input", {})
    if "program" not in f:
        print("nothing to replay")
        return 2
    import numpy as np
    st = np.array([complex(*z) for z in f["state"]])
    r = H.oracle_compare(f["program"], f["nq"], f["script"], st, debug=f.get("debug", False))
    print("replay:", r)
    return 1 if r not in (None, "skip") else 0


def run(ctx):
    import numpy as np
    from harness import transpile as H
    res = Result()
    res.rule = ("a case is a (program, debug, hw) triple; non-trivial when the program contains a gate that is "
                "expanded and a branch/jump, or raises in the pass; distinct by program hash + settings")
    rng = ctx.rng
    T = ctx.thorough
    def model(js, debug, hw):
        return {"op": "transpile.run", "debug": debug, "hw": hw, "is": js}

    def small_batches(reqs):
        # answers are several times larger than requests: keep what is in flight well below the
        # pipe capacity (the shared Driver.batch writes a whole chunk before reading)
        outs, cur, size = [], [], 0
        for r in reqs:
            n = len(json.dumps(r))
            if cur and size + n > 6000:
                outs += ctx.driver.batch(cur)
                cur, size = [], 0
            cur.append(r)
            size += n
        if cur:
            outs += ctx.driver.batch(cur)
        return outs

    pending = []  # (tag, js, debug, hw, real)

    def syntactic(tag, js, debug, hw, real=None):
        if real is None:
            real = H.real_transpile(js, debug=debug, hw=hw)
        pending.append((tag, js, debug, hw, real))

    qstat = {}

    def flush_syntactic():
        outs = small_batches([model(js, d, h) for _, js, d, h, _ in pending])
        for (tag, js, d, h, real), mo in zip(pending, outs):
            res.evaluations += 1
            res.count("syn:" + tag)
            key = (_h(js), d, h)
            inp = {"program": js, "debug": d, "hw": h, "text": H.show(js)[:60]}
            if "err" in real:
                res.count("raises:" + real["err"])
                res.nontrivial.add(key)
                if mo.get("err") != real["err"]:
                    res.disagreements.append({"stream": "transpile." + tag, "input": inp,
                                              "model": mo.get("err", "ok"), "code": real["err"]})
                continue
            if any(j["c"].startswith("nv.") for j in real["ok"]) and any("Jmp" in j["c"] or "core.B" in j["c"] for j in js):
                res.nontrivial.add(key)
            if mo.get("ok") != real["ok"] or mo.get("ser") != real.get("ser", mo.get("ser")):
                res.disagreements.append({"stream": "transpile." + tag, "input": inp,
                                          "model": mo.get("err") or [str(x) for x in H.show(mo.get("ok", []))][:80],
                                          "code": H.show(real["ok"])[:80]})
            if real.get("wire") is not None and real["wire"] != real["ser"]:
                res.failures.append({"what": "serialised subroutine is not the command list minus debug markers",
                                     "kf": None, "input": inp})
            qstat[(tag, bool(mo.get("qstatic")))] = qstat.get((tag, bool(mo.get("qstatic"))), 0) + 1
            if len(res.samples) < 3 and res.evaluations % 53 == 0:
                res.samples.append({"stream": tag, "program": H.show(js)[:40], "debug": d, "hw": h})
        pending.clear()

    def oracle(tag, js, nq, gen=None, debug=False):
        script = [rng.randrange(2) for _ in range(6)]
        st = H.random_state(rng, nq)
        r = H.oracle_compare([js], nq, script, st, debug=debug)
        res.count("oracle:" + tag)
        if r == "skip":
            res.count("oracle-skip:" + tag)
            return
        if r is None:
            return
        kf = None
        if gen is not None and gen.load_sites and H.has_nonset_q_write_reaching_gate(js):
            js2 = H.replace_loads_by_sets(js, gen.load_sites)
            if H.oracle_compare([js2], nq, script, st, debug=debug) is None:
                kf = "F10"
        elif H.nonq_two_qubit_gate(js):
            if H.oracle_compare([H.nonq_to_q(js)], nq, script, st, debug=debug) is None:
                kf = "F10"
        res.failures.append({"what": r["what"], "kf": kf, "detail": {k: v for k, v in r.items() if k != "what"},
                             "input": {"program": [js], "text": H.show(js), "nq": nq, "script": script,
                                       "debug": debug, "state": [[z.real, z.imag] for z in st]}})

    # ---- corpus: witnesses of the findings of this property
    Qb, Rb = H.Q, H.R
    w_assert = [H.ins("core.SetInstruction", H.reg(Rb, 6), H.imm(3)), H.ins("core.ArrayInstruction", H.reg(Rb, 6), {"a": 0}),
                H.ins("core.SetInstruction", H.reg(Rb, 7), H.imm(0)), H.ins("core.SetInstruction", H.reg(Rb, 5), H.imm(0)),
                H.ins("core.StoreInstruction", H.reg(Rb, 5), {"e": [0, Rb, 7]}),
                H.ins("core.LoadInstruction", H.reg(Qb, 0), {"e": [0, Rb, 7]}),
                H.ins("core.SetInstruction", H.reg(Qb, 1), H.imm(2)),
                H.ins("vanilla.CnotInstruction", H.reg(Qb, 0), H.reg(Qb, 1))]
    w_stale = [H.ins("core.SetInstruction", H.reg(Qb, 0), H.imm(1))] + w_assert

    class _G:  # load site bookkeeping for the two hand-written witnesses
        def __init__(self, sites):
            self.load_sites = sites
    w_nonq = [H.ins("core.SetInstruction", H.reg(Rb, 0), H.imm(0)), H.ins("core.SetInstruction", H.reg(Rb, 1), H.imm(1)),
              H.ins("vanilla.CnotInstruction", H.reg(Rb, 0), H.reg(Rb, 1))]
    oracle("corpus-F10-nonQ", w_nonq, 2)
    # mov with run-time register ids, electron -> carbon as the SDK emits it: must agree
    for a, b in ((0, 1), (0, 2)):
        w_mov = [H.ins("core.SetInstruction", H.reg(Rb, 3), H.imm(b)), H.ins("core.InitInstruction", H.reg(Rb, 3)),
                 H.ins("core.SetInstruction", H.reg(Rb, 4), H.imm(a)),
                 H.ins("vanilla.MovInstruction", H.reg(Rb, 4), H.reg(Rb, 3)),
                 H.ins("core.InitInstruction", H.reg(Rb, 4))]
        oracle("corpus-mov-runtime-ids", w_mov, 3)
        syntactic("corpus", w_mov, False, False)
    syntactic("corpus", w_nonq, False, False)
    # seeded change C08_0: a cached scratch register re-used after the program started using it
    w_scr = [H.ins("core.SetInstruction", H.reg(Qb, 0), H.imm(1)), H.ins("core.SetInstruction", H.reg(Qb, 1), H.imm(2)),
             H.ins("vanilla.CnotInstruction", H.reg(Qb, 0), H.reg(Qb, 1)),
             H.ins("core.SetInstruction", H.reg(Qb, 2), H.imm(3)), H.ins("vanilla.GateHInstruction", H.reg(Qb, 2)),
             H.ins("vanilla.CphaseInstruction", H.reg(Qb, 1), H.reg(Qb, 0)),
             H.ins("vanilla.GateXInstruction", H.reg(Qb, 2))]
    for dbg in (False, True):
        oracle("corpus-seeded-scratch", w_scr, 4, debug=dbg)
        syntactic("corpus", w_scr, dbg, False)
    # seeded change C08_1: a loop whose head (the branch target) is a carbon-carbon gate, debug markers on
    Mb = H.M
    w_head = [H.ins("core.SetInstruction", H.reg(Rb, 0), H.imm(0)), H.ins("core.SetInstruction", H.reg(Rb, 1), H.imm(1)),
              H.ins("core.SetInstruction", H.reg(Rb, 2), H.imm(3)), H.ins("core.SetInstruction", H.reg(Rb, 5), H.imm(0)),
              H.ins("core.SetInstruction", H.reg(Qb, 0), H.imm(1)), H.ins("core.SetInstruction", H.reg(Qb, 1), H.imm(2)),
              H.ins("vanilla.GateHInstruction", H.reg(Qb, 0)),
              H.ins("core.AddInstruction", H.reg(Rb, 5), H.reg(Rb, 5), H.reg(Rb, 2)),
              H.ins("core.AddInstruction", H.reg(Rb, 5), H.reg(Rb, 5), H.reg(Rb, 2)),
              H.ins("vanilla.CnotInstruction", H.reg(Qb, 0), H.reg(Qb, 1)),       # 9 = loop head
              H.ins("vanilla.GateTInstruction", H.reg(Qb, 1)),
              H.ins("core.AddInstruction", H.reg(Rb, 0), H.reg(Rb, 0), H.reg(Rb, 1)),
              H.ins("core.BltInstruction", H.reg(Rb, 0), H.reg(Rb, 2), H.imm(9)),
              H.ins("core.SetInstruction", H.reg(Qb, 2), H.imm(0)), H.ins("vanilla.GateHInstruction", H.reg(Qb, 2))]
    # forward: a skipped block joining at a carbon-carbon cphase
    w_join = [H.ins("core.SetInstruction", H.reg(Rb, 0), H.imm(1)), H.ins("core.SetInstruction", H.reg(Qb, 0), H.imm(2)),
              H.ins("core.SetInstruction", H.reg(Qb, 1), H.imm(1)),
              H.ins("core.BnzInstruction", H.reg(Rb, 0), H.imm(6)),
              H.ins("core.SetInstruction", H.reg(Qb, 3), H.imm(0)), H.ins("vanilla.GateXInstruction", H.reg(Qb, 3)),
              H.ins("vanilla.CphaseInstruction", H.reg(Qb, 0), H.reg(Qb, 1)),     # 6 = join point
              H.ins("core.SetInstruction", H.reg(Rb, 5), H.imm(7))]
    for dbg in (False, True):
        oracle("corpus-target-is-cc", w_head, 3, debug=dbg)
        oracle("corpus-target-is-cc", w_join, 3, debug=dbg)
        syntactic("corpus", w_head, dbg, False)
        syntactic("corpus", w_join, dbg, False)
    # seeded change C08_7: a taken backward branch to LINE 0 (loop head = first instruction)
    def Rr(i):
        return H.reg(Rb, i)

    def Qr(i):
        return H.reg(Qb, i)
    SET, ADD = "core.SetInstruction", "core.AddInstruction"
    w0_init = [H.ins(SET, Rr(0), H.imm(0)), H.ins(SET, Rr(3), H.imm(0)), H.ins(SET, Qr(5), H.imm(1))]
    w0_loop = [H.ins(SET, Rr(1), H.imm(1)), H.ins(SET, Rr(2), H.imm(3)),
               H.ins(SET, Qr(0), H.imm(1)), H.ins("vanilla.GateTInstruction", Qr(0)),
               H.ins(SET, Qr(0), H.imm(0)), H.ins("vanilla.GateHInstruction", Qr(0)),
               H.ins(SET, Qr(0), H.imm(0)), H.ins(SET, Qr(1), H.imm(1)),
               H.ins("vanilla.CnotInstruction", Qr(0), Qr(1)),
               H.ins(ADD, Rr(0), Rr(0), Rr(1)), H.ins(ADD, Rr(3), Rr(3), Rr(0)),
               H.ins("core.BltInstruction", Rr(0), Rr(2), H.imm(0)),
               H.ins(SET, Qr(0), H.imm(1)), H.ins("vanilla.GateSInstruction", Qr(0))]
    # the same with an expanded gate AS line 0 (its register comes from the previous subroutine)
    w0_gate = [H.ins("vanilla.GateZInstruction", Qr(5))] + w0_loop[:11] + \
              [H.ins("core.BltInstruction", Rr(0), Rr(2), H.imm(0))] + w0_loop[12:]

    def oracle_subs(tag, subs, nq, debug):
        script = [rng.randrange(2) for _ in range(6)]
        st = H.random_state(rng, nq)
        r = H.oracle_compare(subs, nq, script, st, debug=debug)
        res.count("oracle:" + tag)
        if r == "skip":
            res.count("oracle-skip:" + tag)
        elif r is not None:
            res.failures.append({"what": r["what"], "kf": None,
                                 "detail": {k: v for k, v in r.items() if k != "what"},
                                 "input": {"program": subs, "text": [H.show(x) for x in subs], "nq": nq,
                                           "script": script, "debug": debug,
                                           "state": [[z.real, z.imag] for z in st]}})

    for dbg in (False, True):
        for loop in (w0_loop, w0_gate):
            oracle_subs("corpus-target=0", [w0_init, loop], 2, dbg)
            syntactic("corpus", loop, dbg, False)
    # seeded change C08_8: two carbon-carbon gates with the same control and a label in between that is
    # reached by a jump (the SDK's `with m.if_eq(0): q1.cnot(q2)` then `q1.cnot(q3)`), and a do-while
    # whose head follows a carbon-carbon gate with the same control
    def g2(name, a, b):
        return [H.ins(SET, Qr(0), H.imm(a)), H.ins(SET, Qr(1), H.imm(b)), H.ins(name, Qr(0), Qr(1))]
    CN, CP = "vanilla.CnotInstruction", "vanilla.CphaseInstruction"
    for m in (0, 1):
        w_cond = [H.ins(SET, Rr(0), H.imm(m)), H.ins(SET, Rr(2), H.imm(0)),
                  H.ins(SET, Qr(0), H.imm(1)), H.ins("vanilla.GateHInstruction", Qr(0)),
                  H.ins(SET, Qr(0), H.imm(0)), H.ins("vanilla.GateTInstruction", Qr(0)),
                  H.ins("core.BneInstruction", Rr(0), Rr(2), H.imm(10))] + g2(CN, 1, 2) + g2(CN, 1, 3) + \
                 [H.ins(SET, Qr(0), H.imm(2)), H.ins("vanilla.GateSInstruction", Qr(0))]
        for dbg in (False, True):
            oracle("corpus-cc-same-control-label", w_cond, 4, debug=dbg)
            syntactic("corpus", w_cond, dbg, False)
    w_dw = [H.ins(SET, Rr(1), H.imm(0)), H.ins(SET, Rr(2), H.imm(1)), H.ins(SET, Rr(3), H.imm(2)),
            H.ins(SET, Qr(0), H.imm(1)), H.ins("vanilla.GateHInstruction", Qr(0))] + g2(CP, 1, 2) + \
           g2(CN, 1, 3) + [H.ins(ADD, Rr(1), Rr(1), Rr(2)), H.ins("core.BltInstruction", Rr(1), Rr(3), H.imm(8))]
    for dbg in (False, True):
        oracle("corpus-cc-same-control-label", w_dw, 4, debug=dbg)
        syntactic("corpus", w_dw, dbg, False)
    # seeded change C08_12: a Q register stays live across `qfree` (its qubit is re-allocated through it
    # later, no new `set`); a carbon-carbon gate in between must not borrow it
    QA, QF, INI = "core.QAllocInstruction", "core.QFreeInstruction", "core.InitInstruction"
    w_free = [H.ins(SET, Qr(2), H.imm(3)), H.ins(QA, Qr(2)), H.ins(INI, Qr(2)), H.ins("vanilla.GateHInstruction", Qr(2)),
              H.ins(SET, Qr(0), H.imm(1)), H.ins(SET, Qr(1), H.imm(2)), H.ins(SET, Rr(0), H.imm(7)),
              H.ins(QF, Qr(2)), H.ins(CN, Qr(0), Qr(1)),
              H.ins(QA, Qr(2)), H.ins(INI, Qr(2)), H.ins("vanilla.GateXInstruction", Qr(2)),
              H.ins(CP, Qr(0), Qr(1)), H.ins("vanilla.GateHInstruction", Qr(2))]
    for dbg in (False, True):
        oracle("corpus-free-then-realloc", w_free, 4, debug=dbg)
        syntactic("corpus", w_free, dbg, False)
    # seeded change C08_17: a Q register written by `load` (never a gate operand, so not F10) that stays
    # live across a carbon-carbon gate and is the lowest register no `set` ever wrote
    STO, LD, MEAS = "core.StoreInstruction", "core.LoadInstruction", "core.MeasInstruction"
    w_ldlive = [H.ins(SET, Rr(0), H.imm(0)), H.ins(SET, Rr(1), H.imm(3)), H.ins(SET, Rr(2), H.imm(1)),
                H.ins("core.ArrayInstruction", Rr(2), {"a": 0}), H.ins(STO, Rr(1), {"e": [0, Rb, 0]})]
    for rq, vq in ((4, 0), (1, 1), (2, 2), (3, 3)):
        w_ldlive += [H.ins(SET, Qr(rq), H.imm(vq)), H.ins(QA, Qr(rq)), H.ins(INI, Qr(rq))]
    w_ldlive += [H.ins("vanilla.GateXInstruction", Qr(3)), H.ins("vanilla.GateHInstruction", Qr(1)),
                 H.ins(LD, Qr(0), {"e": [0, Rb, 0]}), H.ins(CN, Qr(1), Qr(2)),
                 H.ins(MEAS, Qr(0), H.reg(H.M, 0)), H.ins(QF, Qr(0)), H.ins("core.RetRegInstruction", H.reg(H.M, 0))]
    # the same with `add` as the writer and `init` + `meas` as the users
    w_addlive = [H.ins(SET, Rr(0), H.imm(2)), H.ins(SET, Rr(1), H.imm(1)),
                 H.ins(SET, Qr(1), H.imm(1)), H.ins(SET, Qr(2), H.imm(2)), H.ins("vanilla.GateHInstruction", Qr(1)),
                 H.ins(ADD, Qr(0), Rr(0), Rr(1)), H.ins(INI, Qr(0)),
                 H.ins(CP, Qr(1), Qr(2)), H.ins(INI, Qr(0)), H.ins(MEAS, Qr(0), H.reg(H.M, 1))]
    for dbg in (False, True):
        oracle("corpus-nonset-written-live", w_ldlive, 4, debug=dbg)
        oracle("corpus-nonset-written-live", w_addlive, 4, debug=dbg)
        syntactic("corpus", w_ldlive, dbg, False)
        syntactic("corpus", w_addlive, dbg, False)
    # seeded change C08_20: a TAKEN (r2 = 0) / not taken (r2 = 1) branch to the label behind a trailing
    # return block; what ret_reg publishes to the host is part of the compared state
    for r2 in (0, 1):
        w_ret = [H.ins(SET, Rr(2), H.imm(r2)), H.ins(SET, Rr(1), H.imm(5)), H.ins(SET, Qr(0), H.imm(0)),
                 H.ins(SET, Qr(1), H.imm(1)), H.ins("vanilla.GateHInstruction", Qr(0)), H.ins(CN, Qr(0), Qr(1)),
                 H.ins("core.BezInstruction", Rr(2), H.imm(10)), H.ins(SET, Rr(1), H.imm(7)),
                 H.ins("vanilla.GateXInstruction", Qr(1)), H.ins("core.RetRegInstruction", Rr(1))]
        for dbg in (False, True):
            oracle("corpus-end-label-behind-return-block", w_ret, 2, debug=dbg)
            syntactic("corpus", w_ret, dbg, False)
    # seeded change C08_22: a set-once Q register keeps its value across qfree/qalloc/init; a later mov /
    # cnot through it must get the placement of that value (here: carbon -> electron move)
    Y = "vanilla.GateYInstruction"
    w_keep = [H.ins(SET, Qr(0), H.imm(0)), H.ins(SET, Qr(1), H.imm(1)), H.ins(QA, Qr(1)), H.ins(INI, Qr(1)),
              H.ins("vanilla.RotYInstruction", Qr(1), H.imm(3), H.imm(3)),
              H.ins("vanilla.RotZInstruction", Qr(1), H.imm(5), H.imm(3)),
              H.ins(QA, Qr(0)), H.ins(INI, Qr(0)), H.ins(Y, Qr(0)), H.ins(QF, Qr(0)),
              H.ins(QA, Qr(0)), H.ins(INI, Qr(0)), H.ins("vanilla.MovInstruction", Qr(1), Qr(0)),
              H.ins("vanilla.GateHInstruction", Qr(0)), H.ins(INI, Qr(1)), H.ins(QF, Qr(1))]
    w_keep2 = w_keep[:12] + [H.ins(CN, Qr(1), Qr(0)), H.ins(CP, Qr(0), Qr(1)), H.ins(QF, Qr(1))]
    for dbg in (False, True):
        oracle("corpus-value-persists-across-qfree", w_keep, 2, debug=dbg)
        oracle("corpus-value-persists-across-qfree", w_keep2, 2, debug=dbg)
        syntactic("corpus", w_keep, dbg, False)
        syntactic("corpus", w_keep2, dbg, False)
    oracle("corpus-F10-assert", w_assert, 3, _G([(5, 0, 0)]))
    oracle("corpus-F10-stale", w_stale, 3, _G([(6, 0, 0)]))
    # F26 (fixed): branch across a carbon-carbon gate with debug markers
    w26 = [H.ins("core.SetInstruction", H.reg(Qb, 0), H.imm(1)), H.ins("core.SetInstruction", H.reg(Qb, 1), H.imm(2)),
           H.ins("core.SetInstruction", H.reg(Rb, 0), H.imm(1)), H.ins("core.SetInstruction", H.reg(Rb, 1), H.imm(1)),
           H.ins("core.SetInstruction", H.reg(Rb, 5), H.imm(0)),
           H.ins("core.BeqInstruction", H.reg(Rb, 0), H.reg(Rb, 1), H.imm(7)),
           H.ins("vanilla.CnotInstruction", H.reg(Qb, 0), H.reg(Qb, 1)),
           H.ins("core.SetInstruction", H.reg(Rb, 5), H.imm(7))]
    for dbg in (False, True):
        oracle("corpus-F26", w26, 3, debug=dbg)
        syntactic("corpus", w26, dbg, False)
        syntactic("corpus", w_assert, dbg, False)
        syntactic("corpus", w_stale, dbg, False)

    # ---- structured programs: syntactic + oracle
    n_struct = 12000 if T else 520
    for k in range(n_struct):
        nq = rng.choice([1, 2, 2, 3, 3, 4, 5])
        loads = rng.random() < 0.25
        g = H.ProgGen(rng, nq, loads=loads, sdk_regs=rng.random() < 0.4)
        g.ret_block = rng.random() < 0.45   # ends in ret_reg / ret_arr like every SDK subroutine
        js = g.program(rng.randrange(1, 7))
        for f in g.features:
            res.count("feature:" + f)
        dbg = rng.random() < 0.5
        # run-time-id movs: inside QStatic only when the source register was just set to 0 (own tag);
        # free-then-realloc: inside QStatic unless a label lies between the `set` and the re-allocation (own tag)
        tag = "struct-load" if loads else ("struct-movR" if "mov-runtime-ids" in g.features else
                                           ("struct-tgt" if any(f.startswith("target-is-") for f in g.features)
                                            else ("struct-realloc" if "free-then-realloc-same-register" in g.features
                                                  else "struct")))
        syntactic(tag, js, dbg, rng.random() < 0.3)
        oracle(tag, js, nq, g, debug=dbg)
    # ---- loops whose head is instruction 0 (taken backward branch to line 0), in a second subroutine
    n_head0 = 2500 if T else 150
    for k in range(n_head0):
        nq = rng.choice([1, 2, 3, 4])
        sub1, sub2, feats = H.head0_program(rng, nq)
        for f in feats:
            res.count("feature:" + f)
        dbg = rng.random() < 0.5
        syntactic("struct-head0", sub2, dbg, rng.random() < 0.3)
        oracle_subs("struct-head0", [sub1, sub2], nq, dbg)
    flush_syntactic()

    # ---- transpiler-object histories (the model is a pure function of (subroutine, settings):
    #      theorem transpile_pure; the real object must behave like a fresh one whatever was done to it)
    VAN = {H.HC.T.cls_name(c) for c in H.VANILLA_CLASSES}

    def judge_history(kind, h, nq, dbg):
        res.count("history:" + kind)
        ref_res = H.fresh_result(h["ref"], dbg, h["ref_hw"])
        final = h["final"]
        vanilla_ref = all(j["c"] in VAN for j in h["ref"])
        if vanilla_ref:
            syntactic("hist-" + kind, h["ref"], dbg, h["ref_hw"], real=final)
        same = (final.get("err") == ref_res.get("err")) and (final.get("ok") == ref_res.get("ok"))
        if kind in ("twice", "two-objs") and "ok" in final and vanilla_ref and final["ok"] != h["first"]["ok"]:
            same = False  # a program without gates must come back unchanged from a second pass
        if same:
            return
        inp = {"history": kind, "steps": h["desc"], "program": [h["ref"]], "text": H.show(h["ref"]),
               "debug": dbg, "fresh": ref_res.get("err") or H.show(ref_res["ok"])[:60],
               "reused": final.get("err") or H.show(final["ok"])[:60]}
        what = "a re-used transpiler object does not behave like a fresh one (" + kind + ")"
        if "ok" in final and vanilla_ref:
            script = [rng.randrange(2) for _ in range(6)]
            st = H.random_state(rng, nq)
            r = H.oracle_compare([h["ref"]], nq, script, st, debug=dbg, given=[final])
            if r is None or r == "skip":
                # same behaviour, different text: only the tie (purity) is broken
                res.disagreements.append({"stream": "transpile.history." + kind, "input": inp,
                                          "model": "fresh object", "code": "re-used object"})
                return
            what += ": " + r["what"]
            inp.update({"nq": nq, "script": script, "state": [[z.real, z.imag] for z in st]})
        res.failures.append({"what": what, "kf": None, "input": inp})

    # corpus of histories (seeded changes C08_9, C08_10): every helper once before a loop around a
    # carbon-carbon gate; fail-then-retry; two calls; two objects
    for dbg in (False, True):
        for name in H.HELPERS:
            judge_history("helpers", H.run_history("helpers", w_head, dbg, rng, names=[name, name]), 3, dbg)
        w_retry = w_head[:9] + [H.ins(SET, Qr(7), H.imm(1)), H.ins("vanilla.RotZInstruction", Qr(7), H.imm(1), H.imm(5))] + \
            [dict(j) for j in w_head[9:]]
        w_retry[14] = H.ins("core.BltInstruction", Rr(0), Rr(2), H.imm(11))
        h = H.run_history("retry-hw", w_retry, dbg, rng, fail_pos=10)
        judge_history("retry-hw", h, 3, dbg)
        w_plain = [H.ins(SET, Rr(1), H.imm(1)), H.ins(SET, Rr(2), H.imm(3)), H.ins(SET, Rr(0), H.imm(0)),
                   H.ins(ADD, Rr(0), Rr(0), Rr(1)), H.ins("core.BltInstruction", Rr(0), Rr(2), H.imm(3)),
                   H.ins("core.BgeInstruction", Rr(0), Rr(2), H.imm(6))]
        for kind in ("twice", "two-objs"):
            judge_history(kind, H.run_history(kind, w_plain, dbg, rng), 2, dbg)
    n_hist = 1200 if T else 90
    for k in range(n_hist):
        nq = rng.choice([2, 3, 3, 4])
        dbg = rng.random() < 0.6
        kind = rng.choice(["helpers", "helpers", "retry-hw", "retry-fix", "twice", "two-objs"])
        if kind == "helpers":
            g = H.ProgGen(rng, nq)
            h = H.run_history(kind, g.program(rng.randrange(1, 5)), dbg, rng)
        elif kind in ("retry-hw", "retry-fix"):
            g = H.ProgGen(rng, nq)
            js = g.program(rng.randrange(1, 5), fail="hw" if kind == "retry-hw" else "mov-cc")
            if g.fail_pos is None:
                res.count("history-skipped:no-failing-point")
                continue
            h = H.run_history(kind, js, dbg, rng, fail_pos=g.fail_pos)
            if h["desc"]["first"] == "ok":
                res.count("history-skipped:first-call-did-not-fail")
                continue
        else:
            if rng.random() < 0.6:
                # programs without gates are vanilla AND NV programs: a second pass must change nothing
                n = rng.choice([2, 3, 5, 8, 13])
                js = []
                for j in H.soup(rng, 3 * n):
                    c = H.HC.class_by_name(j["c"])
                    if j["c"] in VAN and not j["c"].startswith("vanilla.") and len(js) < n:
                        js.append(j)
                for j in js:
                    if issubclass(H.HC.class_by_name(j["c"]),
                                  (H.core.JmpInstruction, H.core.BranchUnaryInstruction, H.core.BranchBinaryInstruction)):
                        j["o"][-1] = H.imm(rng.randrange(len(js) + 1))
            else:
                js = H.ProgGen(rng, nq).program(rng.randrange(1, 4))
            h = H.run_history(kind, js, dbg, rng)
            if h is None:
                res.count("history-skipped:first-call-raised")
                continue
        judge_history(kind, h, nq, dbg)
    flush_syntactic()

    # ---- instruction soup (malformed stream included): syntactic only
    n_soup = 40000 if T else 1800
    for k in range(n_soup):
        js = H.soup(rng, rng.choice([1, 2, 3, 5, 8, 13]))
        syntactic("soup", js, rng.random() < 0.5, rng.random() < 0.3)
        if len(pending) >= 400:
            flush_syntactic()
    flush_syntactic()

    # ---- programs produced by the real SDK on a recording connection
    n_sdk = 2500 if T else 110
    for k in range(n_sdk):
        nq = 5  # the SDK's default NV hardware config: ids 0..4 (it relocates the electron on demand)
        try:
            log, feats, rejected = H.sdk_program(rng, rng.choice([2, 3, 3]))
        except Exception as e:  # harness trouble must not look like a violation
            res.count("sdk-harness-exception:" + type(e).__name__)
            continue
        for f in feats:
            res.count("feature:" + f)
        if log is None:
            res.count("sdk-rejected:" + str(rejected))
            continue
        subs = []
        for before, after in log:
            syntactic("sdk", before, False, False, real=dict(after, ser=after.get("ok")))
            subs.append(before)
            if "err" in after:
                res.failures.append({"what": "transpiler raises " + after["err"] + " on SDK output", "kf": None,
                                     "input": {"program": [before], "text": H.show(before)}})
        script = [rng.randrange(2) for _ in range(6)]
        st = H.random_state(rng, nq)
        r = H.oracle_compare(subs, nq, script, st)
        res.count("oracle:sdk")
        if r == "skip":
            res.count("oracle-skip:sdk")
        elif r is not None:
            res.failures.append({"what": "SDK output: " + r["what"], "kf": None,
                                 "detail": {k2: v for k2, v in r.items() if k2 != "what"},
                                 "input": {"program": subs, "text": [H.show(s) for s in subs], "nq": nq,
                                           "script": script, "state": [[z.real, z.imag] for z in st]}})
    flush_syntactic()
    for (tag, q), n in sorted(qstat.items()):
        res.count("qstatic:%s:%s" % (tag, q), n)
    # the SDK shape and the set-only structured programs must lie inside QStatic (else the theorem is vacuous there)
    for tag in ("struct", "sdk"):
        if qstat.get((tag, False), 0) > 0:
            res.disagreements.append({"stream": "transpile.qstatic", "input": tag,
                                      "model": "%d programs outside QStatic" % qstat[(tag, False)],
                                      "code": "expected inside"})
    return res
