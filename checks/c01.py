"""C01 — binary codec lossless and uniquely decodable per flavour."""
import json

from check import Result

PROP = "C01"
TARGETS = ["NetqasmVerif.Props.C01", "NetqasmVerif.Props.C02"]
M = "NetqasmVerif.Props.C01"
THEOREMS = [(M, "NQ.C01." + n) for n in [
    "operand_roundtrip", "encode_defined_iff_inRange", "instr_roundtrip", "subroutine_roundtrip",
    "probes_match", "probes_cover", "shapes_fit", "nv_unique", "reids_unique",
    "vanilla_clashes_are_known", "nv_reids_no_known_clash", "nv_roundtrip", "reids_roundtrip",
    "vanilla_roundtrip_partial", "vanilla_counterexample"]] + [
    ("NetqasmVerif.Props.C02", "NQ.C02." + n) for n in [
        "cmd_layouts_canonical", "generic_pack_eq_model", "generic_unpack_eq_model"]]
TRANSLATORS = ["instr_table", "cmd_layouts"]
LEANCHECK_EXTRA = ["NetqasmVerif.Props.WireObligations", "NetqasmVerif.Props.CmdLayoutObligations"]
LEVEL_TEXT = 'Lean theorems: operand/instruction/subroutine round-trip for ALL in-range operand values and subroutines of any length over any table without opcode clash (induction), instantiated for the NV and REIDS tables unconditionally and for vanilla outside the recorded clash (F1). Tie: tables, the ctypes struct layout of every class (from the descriptors; kernel-decided canonical; C02.generic_pack_eq_model / generic_unpack_eq_model: packing through the generic ctypes struct model = the model codec for all values) and single-bit encode/decode probes are regenerated from the live classes and re-decided by the kernel; differential stream against the compiled model.'
LEVEL_NOTE = 'Trusted: Lean kernel; translators + harness; ctypes stores a field at the offset / bit range its descriptor reports (two\'s complement, little endian) - no linearity assumption. Instructions modelled as (class, operands).'
TECHNIQUE = 'Lean 4 proof (induction over operands and instruction lists) + kernel-decided generated obligations + differential correspondence'
TRUSTED = [
    "Lean 4.33 kernel; axioms at most propext, Classical.choice, Quot.sound (audited per theorem)",
    "translate/instr_table.py: rows and single-bit probes read from the live classes",
    "translate/cmd_layouts.py: struct used by each class and its leaf layout from the ctypes descriptors",
    "ctypes stores a field's value at the byte offset / bit range its descriptor reports, two's "
    "complement, little endian (the equality of that layout with the model codec is a theorem; "
    "the single-bit probes and the random stream validate the descriptors behaviourally)",
    "harness/codec.py correspondence stream: real serialize/deserialize vs compiled Lean model",
]
ASSUMPTIONS = [
    "an instruction is modelled as (class, operand values); lineno is ignored (it is not encoded)",
]


def run(ctx):
    from harness import codec as H
    res = Result()
    res.rule = ("every class of every flavour x boundary valuations per field (0, 1, max, min, walking "
                "values) + random valuations + random subroutines + random 7-byte strings; a case is "
                "non-trivial when some operand is non-zero; distinct by (flavour, class, operands)")
    rng = ctx.rng
    n_random = 12 if ctx.thorough else 3
    per_class = 200 if ctx.thorough else 24
    cases = []  # (flavour, instr)
    for fname in H.FLAVOURS:
        for c in H.flavour_classes(fname):
            for inst in H.instances_of(c, rng, n_random, per_class):
                cases.append((fname, inst))
    # -- stream A: single instructions
    reqs = []
    real_bytes = []
    for fname, inst in cases:
        j = H.instr_to_json(inst)
        reqs.append({"op": "codec.encode", "fl": fname, "i": j})
        real_bytes.append(H.real_encode(inst))
    model_enc = ctx.driver.batch(reqs)
    dec_reqs = []
    for (fname, inst), rb in zip(cases, real_bytes):
        dec_reqs.append({"op": "codec.decode", "fl": fname, "b": rb if rb is not None else []})
    model_dec = ctx.driver.batch(dec_reqs)
    for (fname, inst), rb, me, md in zip(cases, real_bytes, model_enc, model_dec):
        j = H.instr_to_json(inst)
        res.evaluations += 1
        key = (fname, json.dumps(j, sort_keys=True))
        if any(v != 0 for o in j["o"] for v in (list(o.values())[0] if isinstance(list(o.values())[0], list) else [list(o.values())[0]])):
            res.nontrivial.add(key)
        res.count("class:" + j["c"])
        if me.get("b") != rb:
            res.disagreements.append({"stream": "codec.encode", "input": {"fl": fname, "i": j},
                                      "model": me.get("b"), "code": rb})
        if rb is None:
            res.count("encode-raises")
            continue
        rd = H.real_decode(fname, rb)
        rdj = H.instr_to_json(rd) if rd is not None else None
        if md.get("i") != rdj:
            res.disagreements.append({"stream": "codec.decode", "input": {"fl": fname, "b": rb},
                                      "model": md.get("i"), "code": rdj})
        # oracle on the real code
        if rd != inst:
            kf = None
            if fname == "vanilla" and j["c"] == "core.MeasBasisInstruction" and rdj and \
                    rdj["c"] == "vanilla.MovInstruction" and rb[0] == 41:
                kf = "F1"
            res.failures.append({"what": "decode(encode(x)) != x", "kf": kf,
                                 "input": {"fl": fname, "i": j, "bytes": rb, "decoded": rdj}})
        if len(res.samples) < 4 and res.evaluations % 97 == 0:
            res.samples.append({"fl": fname, "i": j, "bytes": rb})
    # -- stream B: whole subroutines
    n_subs = 3000 if ctx.thorough else 200
    sub_reqs, subs = [], []
    for _ in range(n_subs):
        fname = rng.choice(list(H.FLAVOURS))
        n = rng.choice([0, 1, 2, 3, 5, 8, 13, rng.randrange(40)])
        instrs = [H.random_instr(fname, rng) for _ in range(n)]
        app = rng.choice([0, 1, 255, 256, 65535, rng.randrange(65536)])
        ver = (rng.choice([0, 1, 255, rng.randrange(256)]), rng.choice([0, 10, 255, rng.randrange(256)]))
        subs.append((fname, instrs, app, ver))
        sub_reqs.append({"op": "codec.encsub", "fl": fname, "v0": ver[0], "v1": ver[1], "app": app,
                         "is": [H.instr_to_json(i) for i in instrs]})
    model_subs = ctx.driver.batch(sub_reqs)
    dec_reqs = []
    real_sub_bytes = []
    for (fname, instrs, app, ver) in subs:
        rb = H.real_encode_sub(instrs, app, ver)
        real_sub_bytes.append(rb)
        dec_reqs.append({"op": "codec.decsub", "fl": fname, "b": rb or []})
    model_decs = ctx.driver.batch(dec_reqs)
    for (fname, instrs, app, ver), rb, ms, md, rq in zip(subs, real_sub_bytes, model_subs, model_decs, sub_reqs):
        res.evaluations += 1
        res.count("subroutine-len:%d" % min(len(instrs), 20))
        if len(instrs) > 0:
            res.nontrivial.add(("sub", json.dumps(rq, sort_keys=True)))
        enc_agrees = ms.get("b") == rb
        if not enc_agrees:
            # the model-free round-trip oracle below still runs: it is what yields the failing input
            res.disagreements.append({"stream": "codec.encsub", "input": rq, "model": "…", "code": "…"})
        if rb is None:
            continue
        rs = H.real_decode_sub(fname, rb)
        if rs is None:
            rsj = None
        else:
            rsj = {"v0": rs.netqasm_version[0], "v1": rs.netqasm_version[1], "app": rs.app_id,
                   "is": [H.instr_to_json(i) for i in rs.instructions]}
        if enc_agrees and md != rsj:
            res.disagreements.append({"stream": "codec.decsub", "input": {"fl": fname, "b": rb},
                                      "model": md, "code": rsj})
        # the public function entry point must agree with the Deserializer class
        rf = H.real_decode_sub_fn(fname, rb)
        if (rf is None) != (rs is None) or (rs is not None and (
                list(rf.instructions) != list(rs.instructions) or rf.app_id != rs.app_id or
                tuple(rf.netqasm_version) != tuple(rs.netqasm_version))):
            res.failures.append({"what": "deserialize(data, flavour) decodes differently from Deserializer(flavour)",
                                 "kf": None, "input": {"fl": fname, "request": rq}})
        # input buffer types: bytes / bytearray / memoryview, the writable ones overwritten afterwards
        # (a decoded subroutine must not share memory with the caller's receive buffer)
        if rs is not None and rng.random() < 0.3:
            res.count("buffer-types")
            prob = H.decode_buffer_alias_problem(fname, rb, rng)
            if prob is not None:
                res.failures.append({"what": "decoding from a bytearray / memoryview: " + prob["what"], "kf": None,
                                     "input": {"fl": fname, "request": rq, "detail": prob}})
        # decode-side history: edit the decoded objects in place, decode the same bytes again
        if rs is not None and rng.random() < 0.5:
            edited = False
            first = H.real_decode_sub(fname, rb)
            for i in (first.instructions if first is not None else []):
                for o in i.operands:
                    edited = H.mutate_operand_in_place(o, rng) or edited
            again = H.real_decode_sub(fname, rb)
            res.count("decode-after-editing-decoded-objects" if edited else "decode-twice")
            if again is None or [H.instr_to_json(i) for i in again.instructions] != \
                    [H.instr_to_json(i) for i in rs.instructions]:
                res.failures.append({"what": "decoding the same bytes a second time (after the first result was edited "
                                             "in place) gives a different subroutine", "kf": None,
                                     "input": {"fl": fname, "request": rq}})
        ok = rs is not None and list(rs.instructions) == instrs and rs.app_id == app and \
            tuple(rs.netqasm_version) == tuple(ver)
        if not ok:
            bad = [k for k, (a, b) in enumerate(zip(instrs, rs.instructions if rs else [])) if a != b]
            only_f1 = fname == "vanilla" and rs is not None and rs.app_id == app and \
                tuple(rs.netqasm_version) == tuple(ver) and len(rs.instructions) == len(instrs) and \
                all(type(instrs[k]).__name__ == "MeasBasisInstruction" and
                    type(rs.instructions[k]).__name__ == "MovInstruction" for k in bad)
            res.failures.append({"what": "decode(encode(subroutine)) != subroutine",
                                 "kf": "F1" if only_f1 else None,
                                 "input": {"fl": fname, "request": rq, "differs_at": bad[:5]}})
    # -- stream B2: object histories — serialise, edit the subroutine in place, serialise again:
    # the bytes must always be those of the CURRENT instruction sequence / app id
    n_hist = 400 if ctx.thorough else 60
    for _ in range(n_hist):
        fname = rng.choice(["nv", "reids", "vanilla"])
        pool = [c for c in H.flavour_classes(fname) if not (fname == "vanilla" and c.id == 41)]

        def rnd():
            c = rng.choice(pool)
            fs = H.T.operand_fields(c)
            return c(**{f.name: rng.choice(H.values_for(k, rng, 2)) for f, k in zip(fs, H.shape_of(c))})

        sub = H.Subroutine(instructions=[rnd() for _ in range(rng.randrange(1, 6))], app_id=rng.randrange(65536))
        ent = [c for c in pool if any(k in ("entry", "slice") for k in H.shape_of(c))]
        for _e in range(2):
            c = rng.choice(ent)
            fs = H.T.operand_fields(c)
            sub.instructions.append(c(**{f.name: rng.choice(H.values_for(k, rng, 2)) for f, k in zip(fs, H.shape_of(c))}))
        steps = []
        for _step in range(rng.randrange(2, 6)):
            kind = rng.choice(["observe", "append", "replace_item", "set_field", "set_app", "pop", "len",
                               "instantiate", "edit_operand", "edit_operand"])
            steps.append(kind)
            try:
                if kind == "observe":
                    bytes(sub)
                elif kind == "len":
                    len(sub)
                    str(sub)
                elif kind == "append":
                    sub.instructions.append(rnd())
                elif kind == "replace_item" and sub.instructions:
                    sub.instructions[rng.randrange(len(sub.instructions))] = rnd()
                elif kind == "pop" and len(sub.instructions) > 1:
                    sub.instructions.pop(rng.randrange(len(sub.instructions)))
                elif kind == "set_app":
                    sub.app_id = rng.randrange(65536)
                elif kind == "instantiate":
                    sub.instantiate(app_id=rng.randrange(65536))
                elif kind == "edit_operand":
                    cands = [o for i in sub.instructions for o in i.operands]
                    rng.shuffle(cands)
                    for o in cands:
                        if H.mutate_operand_in_place(o, rng):
                            break
                elif kind == "set_field" and sub.instructions:
                    i = sub.instructions[rng.randrange(len(sub.instructions))]
                    fs = H.T.operand_fields(type(i))
                    if fs:
                        k = rng.randrange(len(fs))
                        setattr(i, fs[k].name, rng.choice(H.values_for(H.shape_of(type(i))[k], rng, 2)))
            except Exception:
                pass
        res.evaluations += 1
        res.count("history")
        res.nontrivial.add(("hist", tuple(steps), len(sub.instructions)))
        want = [H.instr_to_json(i) for i in sub.instructions]
        try:
            rb = list(bytes(sub))
        except Exception:
            rb = None
        mo = ctx.driver.call({"op": "codec.encsub", "fl": fname, "v0": sub.netqasm_version[0],
                              "v1": sub.netqasm_version[1], "app": sub.app_id, "is": want})
        if mo.get("b") != rb:
            res.disagreements.append({"stream": "codec.encsub-after-edits", "input": {"fl": fname, "steps": steps,
                                                                                   "is": want}, "model": "…", "code": "…"})
        rs = H.real_decode_sub(fname, rb) if rb is not None else None
        if rs is None or list(rs.instructions) != list(sub.instructions) or rs.app_id != sub.app_id:
            res.failures.append({"what": "after in-place edits the encoded bytes do not decode to the current subroutine",
                                 "kf": None, "input": {"fl": fname, "steps": steps, "current": want,
                                                       "decoded": [H.instr_to_json(i) for i in rs.instructions] if rs else None}})
    # -- stream B3: decoder histories — one Deserializer object (and the module-level `deserialize`)
    # used for many buffers, some of them rejected half-way: every accepted buffer must decode to
    # exactly what a fresh decoder gives
    from netqasm.lang.parsing.binary import Deserializer, deserialize
    n_dh = 150 if ctx.thorough else 30
    for _ in range(n_dh):
        fname = rng.choice(["nv", "reids", "vanilla"])
        pool = [c for c in H.flavour_classes(fname) if not (fname == "vanilla" and c.id == 41)]
        keep = Deserializer(H.FLAVOURS[fname]())
        log = []
        seen_bufs = []  # (raw, expected json snapshot taken at first sight, before anything is edited)
        for _step in range(rng.randrange(3, 9)):
            if seen_bufs and rng.random() < 0.45:
                # the very same bytes again (an application re-submitting a subroutine), after earlier results
                # of decoding them may have been edited in place by their receiver
                raw, expect = rng.choice(seen_bufs)
                corrupt, n_i, again = False, None, True
            else:
                instrs = []
                for _k in range(rng.randrange(1, 6)):
                    c = rng.choice(pool)
                    fs = H.T.operand_fields(c)
                    instrs.append(c(**{f.name: rng.choice(H.values_for(k, rng, 2)) for f, k in zip(fs, H.shape_of(c))}))
                raw = bytes(H.Subroutine(instructions=instrs, app_id=rng.randrange(65536)))
                corrupt = rng.random() < 0.4
                if corrupt and len(raw) > 11:
                    # unknown opcode in a later command, or a truncated buffer
                    b = bytearray(raw)
                    if rng.random() < 0.7:
                        b[4 + 7 * rng.randrange(1, len(instrs))] = rng.choice([200, 238, 255])
                    else:
                        b = b[:-rng.randrange(1, 7)]
                    raw = bytes(b)
                fresh = H.real_decode_sub(fname, raw)
                expect = None if fresh is None else ([H.instr_to_json(i) for i in fresh.instructions], fresh.app_id)
                if not corrupt and expect is not None and expect[0] != [H.instr_to_json(i) for i in instrs]:
                    expect = ([H.instr_to_json(i) for i in instrs], expect[1])  # judged by streams A/B; keep the source
                seen_bufs.append((raw, expect))
                n_i, again = len(instrs), False
            use_default = fname == "vanilla" and rng.random() < 0.5
            entry = {"corrupt": corrupt, "default_deserialize": use_default, "n": n_i, "same_bytes_again": again}
            log.append(entry)
            try:
                got = deserialize(raw) if use_default else keep.deserialize_subroutine(raw)
            except Exception:
                got = None
            res.evaluations += 1
            res.count("decoder-history-step" + ("-same-bytes" if again else ""))
            a = None if got is None else ([H.instr_to_json(i) for i in got.instructions], got.app_id)
            if a != expect:
                res.failures.append({"what": "a decoder that was used before decodes a buffer differently from a fresh decoder",
                                     "kf": None, "input": {"fl": fname, "history": log, "reused": a, "fresh": expect}})
                break
            # the receiver edits what it was given, in place (the NV transpiler rewrites branch targets of a decoded
            # subroutine in place; a debugger patches operands): this must stay private to that result
            if got is not None and got.instructions and rng.random() < 0.7:
                edits = []
                for _e in range(rng.randrange(1, 4)):
                    i = rng.choice(got.instructions)
                    fs = H.T.operand_fields(type(i))
                    if not fs:
                        continue
                    if rng.random() < 0.5:
                        k = rng.randrange(len(fs))
                        setattr(i, fs[k].name, rng.choice(H.values_for(H.shape_of(type(i))[k], rng, 1)))
                        edits.append("assign-field")
                    else:
                        for o in i.operands:
                            if H.mutate_operand_in_place(o, rng):
                                edits.append("edit-operand-in-place")
                                break
                if rng.random() < 0.3:
                    got.instructions.pop(rng.randrange(len(got.instructions)))
                    edits.append("pop-instruction")
                entry["receiver_edits_result"] = edits
        res.nontrivial.add(("dechist", fname, len(log), sum(x["corrupt"] for x in log)))
    # -- stream A': round trips under every process-wide configuration (hardware flag, simulator selection,
    # log level): losslessness must not depend on any of it
    for (cname, enter, leave) in H.global_configs():
        try:
            tok = enter()
        except Exception:
            continue
        try:
            for fname in H.FLAVOURS:
                insts = [H.instances_of(c, rng, 1, 3)[-1] for c in H.flavour_classes(fname)]
                insts = [i for i in insts if not (fname == "vanilla" and type(i).id == 41)]  # F1 is judged above
                app = rng.randrange(65536)
                res.evaluations += 1
                res.count("config:" + cname.split("(")[0].split("=")[0])
                want = {"app": app, "is": [H.instr_to_json(i) for i in insts]}
                rb = H.real_encode_sub(insts, app, (0, 10))
                rs = H.real_decode_sub(fname, rb) if rb is not None else None
                got = None if rs is None else {"app": rs.app_id, "is": [H.instr_to_json(i) for i in rs.instructions]}
                if got != want:
                    bad = None
                    if got is not None:
                        bad = [(a, b) for a, b in zip(want["is"], got["is"]) if a != b][:2]
                    res.failures.append({"what": "decode(encode(subroutine)) != subroutine under a process-wide "
                                                 "configuration", "kf": None,
                                         "input": {"config": cname, "fl": fname, "app": app,
                                                   "n_sent": len(insts), "n_back": None if got is None else len(got["is"]),
                                                   "first_differences": bad}})
        finally:
            leave(tok)
    # -- stream C: malformed / arbitrary byte strings
    n_mal = 3000 if ctx.thorough else 300
    raws = []
    for _ in range(n_mal):
        ln = rng.choice([7, 7, 7, 7, 6, 8, 0, 1])
        raws.append((rng.choice(list(H.FLAVOURS)), [rng.randrange(256) for _ in range(ln)]))
    outs = ctx.driver.batch([{"op": "codec.decode", "fl": f, "b": b} for f, b in raws])
    for (f, b), md in zip(raws, outs):
        res.evaluations += 1
        rd = H.real_decode(f, b) if len(b) == 7 else None
        rdj = H.instr_to_json(rd) if rd is not None else None
        if len(b) == 7:
            res.count("malformed-7" if rdj is None else "arbitrary-7-decodes")
            if md.get("i") != rdj:
                res.disagreements.append({"stream": "codec.decode-arbitrary", "input": {"fl": f, "b": b},
                                          "model": md.get("i"), "code": rdj})
    return res
