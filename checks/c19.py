"""C19 — float angles are approximated within tolerance by encodable rotations."""
import json
import math

from check import Result

PROP = "C19"
M = "NetqasmVerif.Props.C19"
TARGETS = [M]
THEOREMS = [(M, "NQ.C19." + n) for n in [
    "step_valid", "choice_allowed", "progress", "expand_isSome", "expand_run", "sum_inv", "run_steps",
    "simplify_sound", "fields_fit", "finish_keeps_all", "result_within", "result_within_radians",
    "spec_within", "accepts_sound", "float_error_bound", "result_within_float", "emitted_operands", "emitted_within", "emitted_seq_operands", "emitted_seq_within", "rotation_pair", "rotation_sum"]]
TRANSLATORS = []
LEVEL_TEXT = (
    "Lean theorems over exact dyadic values (every double is one) read in any ordered field: for EVERY run of the "
    "greedy loop of get_angle_spec_from_float, whatever allowed exponent d is picked at each step (the rounding of "
    "log2 only moves the choice inside the allowed set), each step has 127<=n<=255, d>=6, n/2^d <= rest < (n+1)/2^d; "
    "rest = sum n_i/2^d_i + rest' is invariant; the remainder strictly decreases (termination is a proved "
    "well-founded recursion, no fuel) and shrinks 127-fold; the assert cannot fail; simplification keeps the value "
    "and stops at d=0; every returned (n,d) lies in 1..255 x 0..255; for tol/pi >= 2^-247 the filter drops nothing "
    "and 0 <= rest - sum <= tol/pi, i.e. within tol in radians for any positive pi; consecutive rotations about one "
    "axis multiply to the rotation given by the angle-addition fold. Tie: the real function vs the compiled model on "
    "doubles passed as exact integers; every real output must be accepted by the proved-sound relation checker and "
    "equal the model's output (or be an accepted neighbouring-exponent run). Oracle: Fraction arithmetic with a "
    "60-digit pi on the real outputs.")
LEVEL_NOTE = (
    "The three floating-point operations before the loop (angle % 2pi, angle/pi, tol/pi) enter the theorem "
    "result_within_float as hypotheses of the standard IEEE-754 model (np.pi within relative 2^-53 of pi, fmod exact up "
    "to the one rounded add-back for negative angles, one correctly rounded division each) and yield the explicit bound |angle - 2 pi k - sum| <= tol(1+4u) + "
    "8 pi u (1+u) + 2|k| u pi, u = 2^-53; the harness re-checks each hypothesis with exact rationals on every case. "
    "PARTIAL (labelled): those hypotheses are validated per case, not proved about CPython/libm; for |angle| > "
    "tol*2^52 the bound exceeds tol (the double's own spacing does). The builder path is modelled as one "
    "(set Q0; rot) pair per step (emitSpec) and compared command by command. Trusted: exactness of the binary64 loop "
    "body (n/2^d representable, subtraction exact), angle-addition formulas, Lean kernel, harness.")
TECHNIQUE = ("Lean 4 proof (invariant + well-founded recursion over exact dyadic rationals, relation-style model) "
             "+ differential correspondence through a proved-sound acceptance checker + exact-rational oracle")
TRUSTED = [
    "Lean 4.33 kernel; axioms at most propext, Classical.choice, Quot.sound (audited per theorem)",
    "harness/angle.py: replicates `angle % (2*np.pi)`, `/ np.pi`, `tol / np.pi` to obtain the exact loop inputs",
    "the loop body is exact in binary64 (n/2^d is representable, rest - n/2^d is exact) — argued, validated by the "
    "correspondence stream",
    "angle-addition formulas for (cos, sin) pairs (standard trigonometry, not re-proved)",
]
ASSUMPTIONS = [
    "IEEE-754 model of `angle % 2pi` (exact fmod), `angle / pi`, `tol / pi`, `np.pi` — hypotheses of "
    "result_within_float, re-checked with exact rationals on every case",
    "tolerances in [1e-9, 1e-1] as in the property (theorem needs tol/pi >= 2^-247)",
    "NaN and infinities are outside the property (the real code returns [] for them)",
    "a sequence of rotation calls emits the concatenation of the per-call steps (emitted_seq_operands); tied by the "
    "angle.sequence stream (2-4 calls, same/different axes, explicit (n, d) and float angles, other qubits in between)",
    "angles of other numeric types (np.float16/32/64, int, np.int32/64, Fraction, bool) are judged on the double they "
    "denote; returned lists must not be shared between calls (aliasing stream)",
]


def _hex(x):
    return float(x).hex()


def run(ctx):
    from harness import angle as H
    res = Result()
    res.rule = ("doubles: structured (negatives, >2pi, dyadic multiples of pi, within tol of 0 and 2pi, float "
                "neighbours, denormals, huge, remainders next to 255/2^k) x tolerances 1e-1..1e-9, plus random; a case "
                "is non-trivial when the returned list is non-empty; distinct by (angle bits, tol bits)")
    rng = ctx.rng
    cases = [(2e-4, 1e-4), (-1e-20, 1e-4), (0.3, 1e-9), (2e-4, 1e-4 * math.pi)]  # corpus: F19a/b/c witnesses
    structured = H.structured_angles()
    if ctx.thorough:
        for a in structured:
            for tol in H.TOLS:
                cases.append((a, tol))
    else:
        for i, a in enumerate(structured):
            for tol in (H.TOLS[i % 9], H.TOLS[(i * 7 + 3) % 9], 1e-9):
                cases.append((a, tol))
    n_random = 100000 if ctx.thorough else 6000
    for _ in range(n_random):
        cases.append((H.random_angle(rng), H.random_tol(rng)))

    # ---- real code
    real = [H.real_spec(a, tol) for a, tol in cases]
    # ---- model
    reqs, acc_reqs = [], []
    for (a, tol), (kind, out) in zip(cases, real):
        e, r, t = H.exact_inputs(a, tol)
        reqs.append({"op": "angle.spec", "E": e, "r": r, "t": t})
        ok_shape = kind == "ok" and all(isinstance(n, int) and isinstance(d, int) and n >= 0 and d >= 0
                                        for n, d in out)
        acc_reqs.append({"op": "angle.accepts", "E": e, "r": r, "t": t,
                         "l": [list(p) for p in out] if ok_shape else [[0, 0]]})
    model = ctx.driver.batch(reqs)
    accepted = ctx.driver.batch(acc_reqs)
    for (a, tol), (kind, out), m, acc, rq in zip(cases, real, model, accepted, reqs):
        res.evaluations += 1
        inp = {"angle": a, "angle_hex": _hex(a), "tol": tol}
        if kind == "raise":
            res.count("real-raises:" + out)
            res.failures.append({"what": "get_angle_spec_from_float raises %s on a finite angle" % out,
                                 "kf": None, "input": inp})
            res.disagreements.append({"stream": "angle.spec", "input": inp, "model": m.get("l"), "code": "raise " + out})
            continue
        code = [list(p) for p in out]
        res.count("steps:%d" % len(code))
        if code:
            res.nontrivial.add((_hex(a), _hex(tol)))
        if not acc.get("ok"):
            res.disagreements.append({"stream": "angle.accepts (real output is not the output of any allowed run)",
                                      "input": {**inp, "E": rq["E"], "r": str(rq["r"]), "t": str(rq["t"])},
                                      "model": m.get("l"), "code": code})
        elif m.get("l") != code:
            # allowed run, but not the one with the exactly computed log2: rounding moved the exponent
            res.count("neighbouring-exponent-run")
        else:
            res.count("equal-to-exact-choice")
        _, hyp_bad = H.float_model(a, tol)
        if hyp_bad:
            res.disagreements.append({"stream": "angle.float-model (hypotheses of result_within_float)", "input": inp,
                                      "model": "IEEE-754 round-to-nearest, exact fmod", "code": hyp_bad})
        bad = H.oracle(a, tol, out)
        if H.slack(a, tol) > tol:
            res.count("argument-reduction-dominated")
        if bad:
            res.failures.append({"what": bad, "kf": None, "input": {**inp, "returned": code}})
        if len(res.samples) < 5 and code and res.evaluations % 1371 == 0:
            res.samples.append({**inp, "returned": code})

    # ---- non-finite inputs: outside the property; must not produce rotations
    for a in (float("nan"), float("inf"), float("-inf")):
        kind, out = H.real_spec(a, 1e-4)
        res.evaluations += 1
        res.count("nonfinite:" + (kind if kind == "raise" else "returns-%d-steps" % len(out)))
        if kind == "ok" and out:
            res.failures.append({"what": "rotation steps returned for a non-finite angle", "kf": None,
                                 "input": {"angle": repr(a), "returned": [list(p) for p in out]}})

    # ---- builder path, judged over the SAME angle stream as the toolbox function: what `q.rot_X/Y/Z(angle=…)`
    # really EMITS (pending commands of the real builder) vs the angle (oracle) and vs the model (`emitSpec`)
    tol0 = H.default_tol()
    fb = H.FastBuilder()
    bangles = [2e-4, -1e-20, 0.3, 1.0002e-4, math.pi / 4 + 1.0003e-4, -math.pi / 2 + 1.0002e-4,
               5 * math.pi + 1.0003e-4]                                     # corpus (incl. seeded-change witnesses)
    # angles within tolerance of 0 modulo 2 pi (empty step list), to be combined with explicit (n, d) below
    zeroish = [0.0, -0.0, 2 * math.pi, -2 * math.pi, 4 * math.pi, 5e-5, -5e-5, 9.9e-5, 2 * math.pi - 3e-5,
               2 * math.pi + 7e-5, 1e-20, -1e-20, 6 * math.pi + 1e-5, 1e-300]
    bangles += zeroish * 3
    bangles += H.near_tol_angles(tol0) + structured
    bangles += [a for a, _ in cases[len(cases) - n_random:][: (20000 if ctx.thorough else 3000)]]
    for _ in range(20000 if ctx.thorough else 3000):
        bangles.append(H.random_near_tol(rng, tol0))
    emitted, breqs, bacc, bnds = [], [], [], []
    ND = [(1, 1), (1, 0), (3, 2), (255, 0), (7, 4), (128, 7), (0, 5), (2, 1)]
    for i, a in enumerate(bangles):
        axis = H.AXES[i % 3]
        # every second call passes explicit (n, d) TOGETHER with the angle: "If `angle` is specified, `n` and `d`
        # are ignored" — the model's emitSpec depends on the angle only
        nd = ND[(i // 2) % len(ND)] if i % 2 == 1 else None
        bnds.append(nd)
        kind, cmds = fb.emit(axis, a, nd)
        emitted.append((axis, kind, cmds))
        e, r, t = H.exact_inputs(a, tol0)
        breqs.append({"op": "angle.emit", "E": e, "r": r, "t": t, "axis": i % 3, "vq": fb.vq})
        rots = [[c[3], c[4]] for c in cmds if c[0] == "rot"] if kind == "ok" else []
        okshape = all(isinstance(n, int) and isinstance(d, int) and n >= 0 and d >= 0 for n, d in rots)
        bacc.append({"op": "angle.accepts", "E": e, "r": r, "t": t, "l": rots if okshape else [[0, 0]]})
    bmodel = ctx.driver.batch(breqs)
    baccepted = ctx.driver.batch(bacc)
    for a, nd, (axis, kind, cmds), m, acc in zip(bangles, bnds, emitted, bmodel, baccepted):
        res.evaluations += 1
        call = "q.rot_%s(angle=a)" % axis if nd is None else "q.rot_%s(n=%d, d=%d, angle=a)" % (axis, nd[0], nd[1])
        inp = {"call": call, "angle": a, "angle_hex": _hex(a), "tol": tol0}
        if nd is not None:
            res.count("builder-explicit-n-d-with-angle")
        if kind == "raise":
            res.count("builder-raises:" + cmds)
            res.failures.append({"what": "q.rot_%s(angle=...) raises %s" % (axis, cmds), "kf": None, "input": inp})
            res.disagreements.append({"stream": "angle.emit", "input": inp, "model": m.get("cmds"),
                                      "code": "raise " + cmds})
            continue
        rots = [(c[3], c[4]) for c in cmds if c[0] == "rot"]
        res.count("builder-rotations:%d" % len(rots))
        if rots:
            res.nontrivial.add(("builder", axis, _hex(a)))
        if m.get("cmds") != cmds:
            # same shape (set Q0 vq; rot) around an accepted neighbouring-exponent run is still the model
            shape_ok = len(cmds) == 2 * len(rots) and all(
                cmds[2 * i] == ["set", 0, fb.vq] and cmds[2 * i + 1][:3] == ["rot", H.AXES.index(axis), 0]
                for i in range(len(rots)))
            if shape_ok and acc.get("ok"):
                res.count("builder-neighbouring-exponent-run")
            else:
                res.disagreements.append({"stream": "angle.emit (emitted commands vs model emitSpec)", "input": inp,
                                          "model": m.get("cmds"), "code": cmds})
        bad = H.oracle(a, tol0, rots)
        if bad:
            res.failures.append({"what": "emitted by the builder: " + bad, "kf": None,
                                 "input": {**inp, "emitted": [list(p) for p in rots]}})
    # ---- equal values of different numeric types (np.float32/16/64, int, np.int64/32, Fraction, bool): the toolbox
    # function and the builder must treat the VALUE, whatever its type (model + oracle on the double it denotes)
    sub = [0.0, 1.0, 3.0, -2.0, 7.0, 100.0, -1.0, 0.3, 2e-4, 1.5, -0.75, math.pi, 2 * math.pi, 1.0002e-4, 0.5,
           6.25, 1e-3, 12345.0, -3.0, 2.0, 4.0, 0.1]
    sub += [H.random_angle(rng) for _ in range(400 if ctx.thorough else 60)]
    sub += [float(rng.randrange(-50, 50)) for _ in range(200 if ctx.thorough else 30)]
    treqs, tmeta = [], []
    for i, a in enumerate(sub):
        for label, v, fv in H.typed_variants(a):
            for tol in (tol0, 1e-9):
                kind, out = H.real_spec(v, tol)
                e, r, t = H.exact_inputs(fv, tol)
                treqs.append({"op": "angle.spec", "E": e, "r": r, "t": t})
                tmeta.append(("toolbox", label, v, fv, tol, kind, out, None))
            axis = H.AXES[i % 3]
            kind, cmds = fb.emit(axis, v)
            e, r, t = H.exact_inputs(fv, tol0)
            treqs.append({"op": "angle.emit", "E": e, "r": r, "t": t, "axis": i % 3, "vq": fb.vq})
            tmeta.append(("builder", label, v, fv, tol0, kind, cmds, axis))
    tmodel = ctx.driver.batch(treqs)
    tacc_req, tacc_idx = [], []
    for j, (where, label, v, fv, tol, kind, out, axis) in enumerate(tmeta):
        if kind == "ok":
            rots = [list(p) for p in out] if where == "toolbox" else [[c[3], c[4]] for c in out if c[0] == "rot"]
            if all(isinstance(n, int) and isinstance(d, int) and n >= 0 and d >= 0 for n, d in rots):
                rq = treqs[j]
                tacc_req.append({"op": "angle.accepts", "E": rq["E"], "r": rq["r"], "t": rq["t"], "l": rots})
                tacc_idx.append(j)
    tacc = dict(zip(tacc_idx, ctx.driver.batch(tacc_req)))
    for j, ((where, label, v, fv, tol, kind, out, axis), m) in enumerate(zip(tmeta, tmodel)):
        res.evaluations += 1
        res.count("typed-angle:%s:%s" % (where, label))
        call = "get_angle_spec_from_float(%r, %r)" % (v, tol) if where == "toolbox" else "q.rot_%s(angle=%r)" % (axis, v)
        inp = {"call": call, "angle_type": label, "angle_value": fv, "angle_hex": _hex(fv), "tol": tol}
        if kind == "raise":
            res.failures.append({"what": "%s raises %s for a finite angle of type %s" % (call, out, label),
                                 "kf": None, "input": inp})
            continue
        rots = [tuple(p) for p in out] if where == "toolbox" else [(c[3], c[4]) for c in out if c[0] == "rot"]
        if rots:
            res.nontrivial.add(("typed", where, label, _hex(fv), _hex(tol)))
        modelled = m.get("l") if where == "toolbox" else m.get("cmds")
        code = [list(p) for p in out] if where == "toolbox" else out
        if modelled != code and not tacc.get(j, {}).get("ok"):
            res.disagreements.append({"stream": "angle.typed (value of another numeric type vs model on its double)",
                                      "input": inp, "model": modelled, "code": code})
        bad = H.oracle(fv, tol, rots)
        if bad:
            res.failures.append({"what": "%s angle: %s" % (label, bad), "kf": None,
                                 "input": {**inp, "returned" if where == "toolbox" else "emitted": [list(p) for p in rots]}})
    # ---- SEQUENCES of rotation calls on one qubit (same / different axes, float angles and explicit (n, d), equal
    # d >= 8 with large numerators, other qubits' gates in between): the emitted steps of a sequence are the
    # CONCATENATION of the per-call steps (model: emitted_seq_operands / emitted_seq_within), and the total rotation of
    # every maximal same-axis run is the sum of the requested angles within the summed tolerance
    sb = H.SeqBuilder()
    vqs = [q.qubit_id for q in sb.qs]
    seqs = [[("rot", 0, "Z", {"angle": 129 * math.pi / 256}), ("rot", 0, "Z", {"angle": 129 * math.pi / 256})],
            [("rot", 0, "Y", {"angle": 0.3}), ("rot", 0, "Y", {"angle": 201 * math.pi / 1024}),
             ("rot", 0, "Y", {"angle": 101 * math.pi / 1024})],
            [("rot", 0, "X", {"n": 200, "d": 8}), ("rot", 0, "X", {"n": 200, "d": 8})],
            [("rot", 0, "X", {"n": 255, "d": 9}), ("gate", 1, "H"), ("rot", 0, "X", {"n": 255, "d": 9})],
            [("rot", 0, "X", {"n": 3, "d": 2}), ("rot", 0, "Z", {"n": 3, "d": 2}), ("rot", 0, "X", {"n": 3, "d": 2})]]
    seqs += [H.gen_rotation_sequence(rng) for _ in range(6000 if ctx.thorough else 900)]
    for calls in seqs:
        res.evaluations += 1
        res.count("rotation-sequences")
        kind, em = sb.run(calls)
        inp = {"calls": [[c[0], "q%d" % c[1], c[2]] + ([c[3]] if c[0] == "rot" else []) for c in calls]}
        if kind == "raise":
            res.failures.append({"what": "a sequence of rotation calls raises %s" % em, "kf": None, "input": inp})
            continue
        res.nontrivial.add(("seq", json.dumps(inp, sort_keys=True, default=str)))
        inp["emitted"] = [list(e) for e in em]
        # tie: emitted rotation steps per qubit = concatenation of the per-call steps
        for qi, vq in enumerate(vqs):
            expect = []
            for c in calls:
                if c[0] == "rot" and c[1] == qi:
                    if "angle" in c[3]:
                        _, sp = H.real_spec(c[3]["angle"], tol0)
                        expect += [("XYZ".index(c[2]), n, d) for n, d in sp]
                    else:
                        expect.append(("XYZ".index(c[2]), c[3]["n"], c[3]["d"]))
            got = [(e[2], e[3], e[4]) for e in em if e[0] == "rot" and e[1] == vq]
            if got != expect:
                res.disagreements.append({"stream": "angle.sequence (emitted steps = concatenation of the per-call steps)",
                                          "input": inp, "model": [list(x) for x in expect], "code": [list(x) for x in got]})
        for b in H.check_rotation_sequence(calls, em, vqs, tol0):
            res.failures.append({"what": "sequence of rotation calls: " + b, "kf": None, "input": inp})
    # ---- process-wide configuration: a compact pass of the builder-path stream, of the call-sequence stream and of
    # set_qubit_state under EVERY global configuration of the package (settings, simulator variable, log level DEBUG)
    from harness import codec as CFG
    cfg_angles = [0.3, 2e-4, 1.0002e-4, math.pi / 4, -1.0, 129 * math.pi / 256, 5.0, 0.0, 2 * math.pi + 0.01] + \
        [H.random_angle(rng) for _ in range(25)]
    cfg_seqs = seqs[:5] + [H.gen_rotation_sequence(rng) for _ in range(25)]

    def under_config(cname):
        fb2 = H.FastBuilder()
        for i, a in enumerate(cfg_angles):
            res.evaluations += 1
            res.count("config-pass:" + cname.split(".")[-1][:40])
            axis = H.AXES[i % 3]
            kind, cmds = fb2.emit(axis, a)
            inp = {"config": cname, "call": "q.rot_%s(angle=a)" % axis, "angle": a, "angle_hex": _hex(a)}
            if kind == "raise":
                res.failures.append({"what": "q.rot_%s(angle=...) raises %s under %s" % (axis, cmds, cname), "kf": None,
                                     "input": inp})
                continue
            rots = [(c[3], c[4]) for c in cmds if c[0] == "rot"]
            _, spec = H.real_spec(a, tol0)
            if rots != spec:
                res.disagreements.append({"stream": "angle.emit under a global configuration", "input": inp,
                                          "model": [list(p) for p in spec], "code": [list(p) for p in rots]})
            bad = H.oracle(a, tol0, rots)
            if bad:
                res.failures.append({"what": "emitted by the builder under %s: %s" % (cname, bad), "kf": None,
                                     "input": {**inp, "emitted": [list(p) for p in rots]}})
        sb2 = H.SeqBuilder()
        vq2 = [q.qubit_id for q in sb2.qs]
        for calls in cfg_seqs:
            res.evaluations += 1
            kind, em = sb2.run(calls)
            inp = {"config": cname, "calls": [[c[0], "q%d" % c[1], c[2]] + ([c[3]] if c[0] == "rot" else []) for c in calls]}
            if kind == "raise":
                res.failures.append({"what": "a sequence of rotation calls raises %s under %s" % (em, cname), "kf": None,
                                     "input": inp})
                continue
            inp["emitted"] = [list(e) for e in em]
            for b in H.check_rotation_sequence(calls, em, vq2, tol0):
                res.failures.append({"what": "sequence of rotation calls under %s: %s" % (cname, b), "kf": None,
                                     "input": inp})
        # toolbox.set_qubit_state(q, phi, theta) = rot_Y(theta); rot_Z(phi)
        from netqasm.sdk.toolbox import state_prep as SP
        for phi, theta in [(0.3, 1.1), (2.0, 0.7), (rng.uniform(0.1, 6), rng.uniform(0.1, 3))]:
            res.evaluations += 1

            class _Q:       # the two calls set_qubit_state makes, routed to the sequence builder's qubit 0
                def rot_Y(self, angle):
                    self.calls.append(("rot", 0, "Y", {"angle": angle}))

                def rot_Z(self, angle):
                    self.calls.append(("rot", 0, "Z", {"angle": angle}))
            qq = _Q()
            qq.calls = []
            SP.set_qubit_state(qq, phi=phi, theta=theta)
            kind, em = sb2.run(qq.calls)
            inp = {"config": cname, "call": "set_qubit_state(q, phi=%r, theta=%r)" % (phi, theta)}
            if kind == "raise":
                res.failures.append({"what": "set_qubit_state raises %s under %s" % (em, cname), "kf": None, "input": inp})
                continue
            inp["emitted"] = [list(e) for e in em]
            if [c[2] for c in qq.calls] != ["Y", "Z"]:
                res.failures.append({"what": "set_qubit_state does not rotate about Y then Z", "kf": None, "input": inp})
            for b in H.check_rotation_sequence(qq.calls, em, vq2, tol0):
                res.failures.append({"what": "set_qubit_state under %s: %s" % (cname, b), "kf": None, "input": inp})

    ran = CFG.under_every_config(under_config)
    res.count("global-configurations-run", len(ran))
    # ---- aliasing of returned objects: scribble over a returned list, call again, also through the builder
    al = [0.3, 2e-4, math.pi / 4, 1.0, -2.5, 0.0, 100.0] + [H.random_angle(rng) for _ in range(300 if ctx.thorough else 40)]
    for i, a in enumerate(al):
        for tol in (tol0, 1e-9, 1e-2):
            res.evaluations += 1
            res.count("alias-check")
            for b in H.alias_check(a, tol, i % 5, fb, H.AXES[i % 3]):
                res.failures.append({"what": "aliasing: " + b, "kf": None,
                                     "input": {"angle": a, "angle_hex": _hex(a), "tol": tol, "scribble": i % 5}})
    # ---- full path (flush, serialise, deserialise) for a few: the instructions carry the same operands
    n_b = 120 if ctx.thorough else 30
    bcases = [("X", 0.3), ("Z", -1e-20), ("Y", 2e-4), ("X", 2 * math.pi), ("Z", 0.0), ("Y", 1.0002e-4)]
    while len(bcases) < n_b:
        bcases.append((rng.choice("XYZ"), rng.choice(bangles)))
    for (axis, a), (kind, rots) in zip(bcases, H.builder_rotations(bcases)):
        res.evaluations += 1
        inp = {"axis": axis, "angle": a, "angle_hex": _hex(a), "path": "flush+serialise"}
        if kind == "raise":
            res.failures.append({"what": "q.rot_%s(angle=...) raises %s" % (axis, rots), "kf": None, "input": inp})
            continue
        bad = H.oracle(a, tol0, [tuple(p) for p in rots])
        if bad:
            res.failures.append({"what": "serialised rotations: " + bad, "kf": None,
                                 "input": {**inp, "rotations": [list(p) for p in rots]}})
    return res
