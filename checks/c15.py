"""C15 — host/controller messages survive serialisation."""
import json

from check import Result

PROP = "C15"
TARGETS = ["NetqasmVerif.Props.C15"]
M_ = "NetqasmVerif.Props.C15"
THEOREMS = [(M_, "NQ.C15." + n) for n in [
    "struct_roundtrip", "fixed_msg_roundtrip", "dispatch_injective", "host_msg_roundtrip",
    "return_msg_roundtrip", "every_fixed_class_dispatched", "subroutine_msg_roundtrip",
    "array_msg_roundtrip_generic", "array_msg_roundtrip", "unknown_type_rejected", "short_buffer_rejected",
    "observe_id", "serialize_depends_on_current_values", "roundtrip_after_update", "fixed_roundtrip_after_update",
    "decode_unaffected_by_edits", "msg_layouts_pinned", "pinned_host_msg_roundtrip",
    "layouts_wf", "tables_wf", "probes_match"]]
TRANSLATORS = ["msg_layouts", "instr_table"]
LEVEL_TEXT = ('Lean theorems: (1) struct_roundtrip — for ANY struct layout with disjoint in-size leaf fields '
              '(bit-fields, signed/unsigned, real padding) and ALL values within the declared widths, reading '
              'back what was written returns the values (arithmetic proof over the little-endian buffer '
              'number, no enumeration); (2) fixed_msg_roundtrip / host_msg_roundtrip / return_msg_roundtrip — '
              'every message class of MESSAGE_CLASSES and RETURN_MESSAGE_CLASSES deserialises from its own '
              'bytes to the same class with the same field values, dispatch on the type byte injective; '
              '(3) subroutine_msg_roundtrip (type byte ++ subroutine bytes, with C01); (4) array_msg_roundtrip '
              '— arrays of any length below 2^31 with any pattern of undefined entries (induction), undefined '
              'stays undefined; (5) sequence form roundtrip_after_update / fixed_roundtrip_after_update: after any '
              'sequence of observations (bytes/len), attribute assignments and in-place edits of the values list the '
              'bytes describe the current field values (serialize is a function of the current values only). Tie: layouts, TYPE bytes, dispatch tables and walking-one encode / '
              'flipped-bit decode probes are regenerated from the live ctypes descriptors and re-decided by '
              'the kernel (WFLayout, WFTables, probes); differential stream on every message type incl. '
              'malformed input (error classes).')
LEVEL_NOTE = ('Trusted: Lean kernel; translator + harness; ctypes as a bitwise-linear little-endian store '
              '(validated by probes + random stream). Model is of the code after the fix of F18 '
              '(OptionalInt.value). Values outside the declared widths are outside the property (ctypes wraps '
              'them); message equality = same class and same leaf field values (ctypes structures define no '
              '__eq__).')
TECHNIQUE = ('Lean 4 proof (arithmetic on bit ranges, induction over field and value lists) + kernel-decided '
             'generated obligations + differential correspondence')
TRUSTED = [
    "Lean 4.33 kernel; axioms at most propext, Classical.choice, Quot.sound (audited per theorem)",
    "translate/msg_layouts.py: leaf fields, sizes, TYPE bytes, dispatch tables and single-bit probes read "
    "from the live ctypes descriptors / by executing the real classes",
    "ctypes (de)serialisation is bitwise linear in the field values (single-bit probes + all-zero + all-max "
    "encodings determine it; validated by the random correspondence stream)",
    "harness/msgs.py correspondence stream: real bytes()/deserialize_* vs the compiled Lean model",
]
ASSUMPTIONS = [
    "a ctypes message is modelled as (class, leaf field values); equality of messages = same class and "
    "same leaf values",
    "little-endian host (the layouts are read on the machine running the check)",
    "SubroutineMessage carries opaque bytes; their meaning is C01's subject (re-used in "
    "subroutine_msg_roundtrip)",
]


def T_struct_leaves(name):
    """leaf fields (path, start, width, signed) of a live struct of messages.py / encoding.py"""
    from harness import msgs as H
    from translate import msg_layouts as T
    import netqasm.lang.encoding as E
    cls = getattr(H.M, name, None) or getattr(E, name)
    return T.leaves(cls)


def run(ctx):
    from harness import msgs as H
    from harness import codec as HC
    res = Result()
    res.rule = ("every fixed message class x boundary values per leaf field (0, 1, max, min, byte patterns) + "
                "random in-width values; arrays of lengths 0..N with all/none/alternating/random undefined "
                "patterns; subroutine messages from random real subroutines; SDK-produced host messages; "
                "histories: one object observed (bytes/len) and modified step by step (attribute assignment; "
                "in-place item assignment/append/pop/insert/del on array values), checked against its current "
                "field values; decode-side histories: decode, edit decoded objects in place, decode other / the same "
                "bytes / empty arrays again, host- and return-direction messages interleaved (incl. equal type bytes in "
                "both directions), from bytes / bytearray / memoryview inputs whose buffer is afterwards overwritten or "
                "reused for the next message, compare with the reference decode, no shared mutable parts; field "
                "values span the PINNED widths of Model/MsgSpec.lean; "
                "malformed: every truncation of valid messages, wrong type bytes, bad OptionalInt tags, "
                "negative / too large lengths, random bytes. Non-trivial = a message with some non-zero field "
                "or a non-empty array / malformed input; distinct by the message JSON / byte string")
    rng = ctx.rng
    thorough = ctx.thorough
    tabs = H.tables()

    # ---------------------------------------------------------------- valid messages
    msgs = []  # (direction, model-json, tag)
    for mj in H.fixed_cases(rng, 40 if thorough else 12, 400 if thorough else 150):
        msgs.append((H.direction_of(mj["c"]), mj, "fixed:" + mj["c"]))
    # the witness of (fixed) F18 first among the arrays
    msgs.append(("ret", {"k": "arr", "a": 5, "v": [1, None, 0, None, -5]}, "arr:F18-witness"))
    lens = [0, 1, 2, 3, 4, 5, 7, 8, 16, 33, 100, 300]
    n_arr = 1500 if thorough else 500
    for k in range(n_arr):
        n = lens[k % len(lens)] if k < 4 * len(lens) else rng.randrange(0, 2000 if thorough else 200)
        mj, mode = H.array_case(rng, n)
        msgs.append(("ret", mj, "arr:" + mode))
    if thorough:
        for n in (20000, 65536 + 3):
            mj, mode = H.array_case(rng, n)
            msgs.append(("ret", mj, "arr:long"))
    for _ in range(600 if thorough else 60):
        fname = rng.choice(list(HC.FLAVOURS))
        instrs = [HC.random_instr(fname, rng) for _ in range(rng.choice([0, 1, 2, 5, 13, rng.randrange(40)]))]
        rb = HC.real_encode_sub(instrs, rng.randrange(65536), (rng.randrange(256), rng.randrange(256)))
        msgs.append(("host", {"k": "sub", "b": rb}, "sub:real"))
    for _ in range(100 if thorough else 20):
        msgs.append(("host", {"k": "sub", "b": [rng.randrange(256) for _ in range(rng.randrange(30))]},
                     "sub:opaque"))

    ser = ctx.driver.batch([{"op": "msg.ser", "m": mj} for _, mj, _ in msgs])
    valid_bytes = []
    des_reqs = []
    for (direction, mj, tag), ms in zip(msgs, ser):
        rb, exc = H.real_serialize(mj)
        valid_bytes.append(rb)
        des_reqs.append({"op": "msg.deshost" if direction == "host" else "msg.desret", "b": rb or []})
    des = ctx.driver.batch(des_reqs)
    for (direction, mj, tag), ms, rb, md in zip(msgs, ser, valid_bytes, des):
        res.evaluations += 1
        res.count(tag)
        key = json.dumps(mj, sort_keys=True)
        trivial = (mj["k"] == "fixed" and not any(mj["v"][1:])) or (mj["k"] != "fixed" and not mj.get("v", mj.get("b")))
        if not trivial:
            res.nontrivial.add(key if len(key) < 400 else hash(key))
        if ms.get("b") != rb:
            res.disagreements.append({"stream": "msg.serialize", "input": mj if len(key) < 2000 else tag,
                                      "model": ms.get("b") if len(key) < 2000 else "…",
                                      "code": rb if len(key) < 2000 else "…"})
        if rb is None:
            res.failures.append({"what": "serialising an in-width message raises", "input": mj, "kf": None})
            continue
        order_before = H.decode_order_tail()
        rd = H.real_deserialize(direction, rb)
        if md != rd:
            res.disagreements.append({"stream": "msg.deserialize", "input": {"dir": direction, "b": rb[:200]},
                                      "model": H.brief(md), "code": H.brief(rd)})
        # oracle through the PUBLIC attributes (getattr on the names of the pinned format, both sides)
        if mj["k"] == "fixed":
            pp = H.public_roundtrip_problem(direction, mj)
            if pp is not None:
                res.failures.append({"what": "the public attributes of the decoded message differ from those of "
                                             "the message that was sent", "kf": None,
                                     "input": {"dir": direction, "m": mj, "detail": pp}})
        # oracle on the real code: deserialize(bytes(m)) == m
        if rd != {"m": mj}:
            diff = None
            if "m" in rd and mj["k"] == "arr" and rd["m"].get("k") == "arr":
                diff = [(i, a, b) for i, (a, b) in enumerate(zip(mj["v"], rd["m"]["v"])) if a != b][:5]
            res.failures.append({"what": "deserialize(bytes(m)) != m", "kf": None,
                                 "input": {"dir": direction, "decoder_calls_before": order_before,
                                           "m": mj if len(key) < 2000 else tag,
                                           "got": H.brief(rd), "first_differences": diff}})
        if len(res.samples) < 5 and res.evaluations % 61 == 0 and len(key) < 300:
            res.samples.append({"dir": direction, "m": mj, "bytes": rb})

    # ---------------------------------------------------------------- boundary SIZES of the count fields
    # array lengths around 2^w for every width w in play for a length / count field: the live width of the
    # header's length field, the pinned one, and the standard 8 / 16 bit widths (within a cap of 2^17
    # entries) -- the real round trip, so that a narrowed length field yields the concrete array; the
    # array is described by its recipe, not listed
    widths = {8, 16}
    try:
        for _, _, w, _ in T_struct_leaves("ReturnArrayMessageHeader"):
            widths.add(w)
        for name, _, w, _ in H.pinned_struct("retArrHeader"):
            widths.add(w)
    except Exception:
        pass
    sizes = sorted({n for w in widths if w <= 17 for n in (2 ** w - 1, 2 ** w, 2 ** w + 1, 2 ** w + 3)
                    if n <= 2 ** 17})
    for n in sizes:
        for recipe in ("i", "none-every-3rd", "all-none"):
            if n > 300 and recipe == "all-none" and not thorough and n % 2:
                continue
            res.evaluations += 1
            res.count("boundary-size")
            res.nontrivial.add(("boundary-size", n, recipe))
            addr = rng.choice([0, 7, -1])
            vals = [None if (recipe == "all-none" or (recipe == "none-every-3rd" and i % 3 == 0)) else (i % 1000) - 500
                    for i in range(n)]
            desc = {"address": addr, "length": n, "values": recipe + (": v[i] = i % 1000 - 500" if recipe != "all-none"
                                                                         else "")}
            try:
                raw = bytes(H.M.ReturnArrayMessage(addr, list(vals)))
                back = H.M.deserialize_return_msg(raw)
                got_a, got_v = back.address, back.values
            except Exception as e:
                res.failures.append({"what": "round trip of an array of a boundary size raises", "kf": None,
                                     "input": dict(desc, exception=type(e).__name__ + ": " + str(e)[:120])})
                continue
            if got_a != addr or len(got_v) != n or got_v != vals:
                first = next((i for i, (a, b) in enumerate(zip(vals, got_v)) if a != b), None)
                res.failures.append({"what": "deserialize(bytes(m)) != m for an array whose length is at a boundary "
                                             "of a count-field width", "kf": None,
                                     "input": dict(desc, decoded_address=got_a, decoded_length=len(got_v),
                                                   first_differing_index=first, bytes_len=len(raw))})

    # ---------------------------------------------------------------- SDK-produced host messages
    from harness import reject as R
    sdk_raw = []
    S = R._sdk_imports()
    S["SharedMemoryManager"].reset_memories()
    S["BaseNetQASMConnection"]._app_ids.clear()
    from netqasm.sdk.epr_socket import EPRSocket
    S["DebugConnection"].node_ids = {"Alice": 0, "Bob": 1}
    with S["DebugConnection"]("Alice", epr_sockets=[EPRSocket("Bob", 3, 4, min_fidelity=77)]) as conn:
        q = S["Qubit"](conn)
        q.H()
        conn.flush()
        q.measure()
    sdk_raw = [list(r) for r in conn.storage]
    sd = ctx.driver.batch([{"op": "msg.deshost", "b": r} for r in sdk_raw])
    for r, md in zip(sdk_raw, sd):
        res.evaluations += 1
        res.count("sdk-produced")
        res.nontrivial.add(("sdk", bytes(r)))
        rd = H.real_deserialize("host", r)
        if rd != md:
            res.disagreements.append({"stream": "msg.deserialize-sdk", "input": r, "model": md, "code": rd})
        if "m" in rd:
            back, _ = H.real_serialize(rd["m"])
            if back != r:
                res.failures.append({"what": "bytes(deserialize(raw)) != raw for an SDK-produced message",
                                     "input": {"raw": r, "back": back}, "kf": None})

    # ---------------------------------------------------------------- histories (multi-step)
    # one message object: serialise / len, modify fields (attribute assignment; in-place list edits
    # for the array message), serialise again -- the bytes must describe the CURRENT field values
    hists = [("ret", {"k": "arr", "a": 7, "v": [None, None, None]},
              [{"u": "obs"}, {"u": "item", "i": 0, "v": 1}, {"u": "item", "i": 2, "v": 0},
               {"u": "append", "v": None}], "hist:C15_1-witness")]
    pool = [(d, mj, tag) for (d, mj, tag) in msgs if len(json.dumps(mj)) < 600]
    n_hist = 6000 if thorough else 1200
    for k in range(n_hist):
        d, mj, tag = rng.choice(pool) if k % 3 else rng.choice([x for x in pool if x[1]["k"] == "arr"])
        hists.append((d, mj, H.gen_history(mj, rng, rng.randrange(1, 9)), "hist:" + tag.split(":")[0]))
    hm = ctx.driver.batch([{"op": "msg.hist", "m": mj, "us": us} for _, mj, us, _ in hists])
    for (direction, mj, us, tag), mh in zip(hists, hm):
        res.evaluations += 1
        res.count(tag)
        res.nontrivial.add(("hist", json.dumps([mj, us], sort_keys=True)))
        bad, cur, rb = None, None, None
        try:
            obj = H.make_msg(mj)
            for k, u in enumerate(us):
                H.apply_real(obj, mj, u, k)
                if u["u"] == "obs" and bad is None:
                    bad = H.own_bytes_ok(direction, obj)
                    if bad is not None:
                        bad["after_steps"] = k + 1
            if bad is None:
                bad = H.own_bytes_ok(direction, obj)
            cur = H.msg_to_json(obj)
            rb = list(bytes(obj))
        except Exception as e:  # the real code raises on a legal construct / update / serialise step
            res.failures.append({"what": "a message history of legal steps raises in the real code", "kf": None,
                                 "input": {"dir": direction, "start": mj, "updates": us,
                                           "exception": type(e).__name__ + ": " + str(e)[:160]}})
            continue
        if mh.get("m") != cur or mh.get("b") != rb:
            res.disagreements.append({"stream": "msg.history", "input": {"m": mj, "updates": us},
                                      "model": {"m": mh.get("m"), "b": (mh.get("b") or [])[:120]},
                                      "code": {"m": cur, "b": rb[:120]}})
        if bad is not None:
            res.failures.append({"what": "after updates, bytes(m) do not deserialise to the current field "
                                         "values of m (or len(m) != len(bytes(m)))", "kf": None,
                                 "input": {"dir": direction, "start": mj, "updates": us, "detail": bad}})
        if tag.endswith("witness") or (len(res.samples) < 7 and res.evaluations % 301 == 0):
            res.samples.append({"dir": direction, "start": mj, "updates": us, "bytes": rb[:60]})

    # ---------------------------------------------------------------- decode-side histories
    # decoded objects are edited in place by their holder, then more bytes (other ones, the same ones,
    # empty arrays) are decoded: every decode must equal the reference decode of its bytes, decoded
    # messages must not share mutable parts, and an edit of one must not show up in another
    dpool = [(d, mj, rb) for (d, mj, tag), rb in zip(msgs, valid_bytes) if rb is not None and len(rb) <= 400]
    dpool += [("ret", {"k": "arr", "a": a, "v": []}, H.real_serialize({"k": "arr", "a": a, "v": []})[0])
              for a in (0, 1, -1, 7, 2 ** 31 - 1)]
    n_dh = 1500 if thorough else 300
    # explicit mixed-direction order: for every type byte used in BOTH directions, decode a host message,
    # then a return message with the same type byte, then each again (the two decoders live in one module)
    dh = []
    host_by_tag, ret_by_tag = {}, {}
    for d, mj, rb in dpool:
        (host_by_tag if d == "host" else ret_by_tag).setdefault(rb[0], []).append((d, mj, rb))
    for tagb in sorted(set(host_by_tag) & set(ret_by_tag)):
        for first, second in ((host_by_tag, ret_by_tag), (ret_by_tag, host_by_tag)):
            a, b = rng.choice(first[tagb]), rng.choice(second[tagb])
            dh.append(H.run_decode_history(dpool, rng, 0, script=[a, b, a, b]))
    dh += [H.run_decode_history(dpool, rng, rng.randrange(3, 10)) for _ in range(n_dh)]
    reqs = [{"op": "msg.hist", "m": mj, "us": us} for steps, problems, live in dh for (_, mj, us, _, _) in live]
    outs = iter(ctx.driver.batch(reqs))
    for steps, problems, live in dh:
        res.evaluations += 1
        res.count("decode-history")
        res.nontrivial.add(("dhist", json.dumps(steps, sort_keys=True)[:3000]))
        for k, (direction, mj, us, obj, _buf) in enumerate(live):
            mh = next(outs)
            cur = H.msg_to_json(obj)
            if mh.get("m") != cur:
                problems.append({"what": "a decoded message changed although only OTHER decoded messages were "
                                         "edited (or its own edits were lost)", "decoded_index": k,
                                 "expected_now": mh.get("m"), "is_now": cur})
        if problems:
            res.failures.append({"what": "decode-side history: " + problems[0]["what"], "kf": None,
                                 "input": {"steps": steps[:40], "problems": problems[:4]}})
    res.samples.append({"decode_history": dh[0][0][:6]})

    # ---------------------------------------------------------------- process-wide configurations
    # every message class / array patterns / a subroutine message, round-tripped on the real code under
    # every configuration knob of the package (runtime settings, simulator selection, log level DEBUG)
    compact = []
    seen_c = set()
    for (d, mj, tag) in msgs:
        key = mj.get("c", mj["k"])
        if mj["k"] == "fixed" and key not in seen_c and any(mj["v"][1:]):
            seen_c.add(key)
            compact.append((d, mj))
    compact += [("ret", {"k": "arr", "a": 5, "v": [1, None, 0, None, -5]}), ("ret", {"k": "arr", "a": 0, "v": []}),
                ("ret", {"k": "arr", "a": -1, "v": [None, None]}), ("ret", {"k": "arr", "a": 7, "v": list(range(40))}),
                ("host", {"k": "sub", "b": [0, 0, 1, 0, 4, 0, 5, 0, 0, 0, 0]})]

    def _cfg_pass(cname):
        for d, mj in compact:
            res.evaluations += 1
            res.count("config:" + cname.split("(")[0].split("=")[0])
            rb, exc = H.real_serialize(mj)
            rd = H.real_deserialize(d, rb) if rb is not None else {"err": exc}
            pp = H.public_roundtrip_problem(d, mj)
            if rd != {"m": mj} or pp is not None:
                res.failures.append({"what": "deserialize(bytes(m)) != m under a process-wide configuration",
                                     "kf": None, "input": {"config": cname, "dir": d, "m": mj, "got": H.brief(rd),
                                                           "public_attributes": pp}})
    HC.under_every_config(_cfg_pass)

    # ---------------------------------------------------------------- malformed stream
    mal = []  # (direction, bytes, tag)
    by_cls = {}
    for (direction, mj, tag), rb in zip(msgs, valid_bytes):
        if rb is not None and len(rb) <= 64:
            by_cls.setdefault(tag.split(":")[0] + ":" + mj.get("c", mj["k"]), []).append((direction, rb))
    for k, lst in by_cls.items():
        for direction, rb in rng.sample(lst, min(len(lst), 6 if thorough else 2)):
            for cut in range(len(rb)):
                mal.append((direction, rb[:cut], "truncated"))
            mal.append((direction, rb + [rng.randrange(256) for _ in range(rng.randrange(1, 9))], "extended"))
            for t in range(0, 8):
                mal.append((direction, [t] + rb[1:], "type-byte-swapped"))
            mal.append((direction, [rng.randrange(5, 256)] + rb[1:], "unknown-type"))
            other = "ret" if direction == "host" else "host"
            mal.append((other, rb, "other-direction"))
    for _ in range(1500 if thorough else 400):  # arrays with bad tags / lengths
        n = rng.randrange(0, 6)
        body = []
        for _k in range(n):
            tag = rng.choice([0, 1, 1, 0, 2, 255, rng.randrange(256)])
            body += [tag] + [rng.randrange(256) for _ in range(3)] + [rng.randrange(256) for _ in range(4)]
        # length fields are kept small in this process (a decoder that trusts LENGTH allocates that much);
        # the huge ones go to the memory-limited subprocess below
        ln = rng.choice([n, n, n, n + 1, n + 2, n - 1 if n else 0, -1, -n, 17, 1000, H.ARRAY_LEN_CAP,
                         rng.randrange(H.ARRAY_LEN_CAP), -2 ** 31])
        hdr = list((rng.randrange(2 ** 32)).to_bytes(4, "little")) + list((ln & 0xFFFFFFFF).to_bytes(4, "little"))
        raw = [2] + hdr + body
        if rng.random() < 0.2:
            raw = raw[:rng.randrange(len(raw) + 1)]
        mal.append(("ret", raw, "array-tags-lengths"))
    for _ in range(6000 if thorough else 1500):
        ln = rng.choice([0, 1, 2, 7, 8, 9, 12, 16, 17, 24, 25, rng.randrange(40)])
        raw = [rng.randrange(256) for _ in range(ln)]
        if raw and rng.random() < 0.7:
            raw[0] = rng.randrange(5)
        mal.append((rng.choice(["host", "ret"]), raw, "random-bytes"))
    # huge declared lengths with a short payload: one guarded probe batch
    for ln in [2 ** 31 - 1, 2 ** 28, 2 ** 24, 100000, H.ARRAY_LEN_CAP + 1]:
        for n in (0, 1, 3):
            body = []
            for _k in range(n):
                body += [rng.choice([0, 1])] + [0, 0, 0] + [rng.randrange(256) for _ in range(4)]
            mal.append(("ret", [2] + list((7).to_bytes(4, "little")) + list(ln.to_bytes(4, "little")) + body,
                        "huge-declared-length"))
    isolate = [k for k, (d, b, _) in enumerate(mal) if H.must_isolate(d, b)]
    iso_out = dict(zip(isolate, H.isolated_decode([(mal[k][0], mal[k][1]) for k in isolate])))
    mo = ctx.driver.batch([{"op": "msg.deshost" if d == "host" else "msg.desret", "b": b} for d, b, _ in mal])
    for k, ((direction, raw, tag), md) in enumerate(zip(mal, mo)):
        res.evaluations += 1
        isolated = k in iso_out
        rd = iso_out[k] if isolated else H.real_deserialize(direction, raw)
        res.count("malformed:" + tag + (":isolated" if isolated else "") +
                  (":error" if "m" not in rd else ":decodes"))
        res.nontrivial.add((direction, bytes(raw)))
        decl = H.declared_array_length(direction, raw)
        # model-free: LENGTH entries follow the header; a decoder must not accept (let alone allocate for)
        # a message whose declared length exceeds what its payload carries
        if decl is not None and decl[0] > decl[1] and ("m" in rd or rd.get("err") == "MemoryError" or "died" in rd):
            res.failures.append({"what": "the decoder accepted (or exhausted memory on) a returned-array message "
                                         "whose declared length exceeds its payload", "kf": None,
                                 "input": {"dir": direction, "bytes": raw[:80], "declared_length": decl[0],
                                           "entries_in_payload": decl[1], "result": H.brief(rd)}})
        if isolated:
            same = ("err" in rd and "err" in md and rd["err"] == md["err"])
        else:
            same = rd == md
        if not same:
            res.disagreements.append({"stream": "msg.deserialize-malformed",
                                      "input": {"dir": direction, "b": raw[:80], "kind": tag},
                                      "model": H.brief(md), "code": H.brief(rd)})
    return res
