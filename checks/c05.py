"""C05 — SDK control flow and classical data flow compile to equivalent subroutines."""
import json

from check import Result

PROP = "C05"
TARGETS = ["NetqasmVerif.Props.C05", "NetqasmVerif.Props.C05Asm", "NetqasmVerif.Props.C05Chain",
           "NetqasmVerif.Props.C05Chain2"]
M = "NetqasmVerif.Props.C05"
THEOREMS = [(M, "NQ.C05." + n) for n in [
    "emit_correct", "emit_correct_op", "segment_correct", "array_init_correct", "labels_fresh",
    "future_value_sound_flush", "demo_hyps",
    "branch_taken_iff", "if_skeleton", "if_skeleton_skip", "loop_skeleton", "loop_skeleton_zero",
    "break_at_most", "loop_until_skeleton_max", "loop_until_skeleton_exit", "loop_until_skeleton_continue",
    "add_future_correct", "add_regfuture_correct", "addRes_mod_range", "future_indexed_load", "seq_correct",
    "future_value_sound", "flush_returns_all", "emit_correct_partial", "f5_fixed", "f5_witness_old"]] + [
    ("NetqasmVerif.Props.C05Asm", "NQ.C05.emit_correct_assembled_partial")] + [
    ("NetqasmVerif.Props.C05Chain", "NQ.C05." + n) for n in [
        "semBridge_rel", "flush_end_to_end", "emit_correct_end_to_end", "nonvacuous_chain",
        "nonvacuous_chain_run"]] + [
    ("NetqasmVerif.Lemmas.SdkEmitted", "NQ.Sdk." + n) for n in [
        "emitted_nameInj", "emitted_regsInRange", "emitted_labelTargets", "emitted_qclosed"]] + [
    ("NetqasmVerif.Lemmas.SdkQSafe", "NQ.Bridge.qsafe_of_closed"),
    ("NetqasmVerif.Lemmas.SdkQSafe", "NQ.Bridge.unit_free_after")] + [
    ("NetqasmVerif.Props.C05Chain2", "NQ.C05." + n) for n in [
        "flush_on_exec", "emit_correct_end_to_end_closed", "scratch_dead_across_flushes", "program_on_exec",
        "program_on_exec_views",
        "nonvacuous_program_on_exec"]]
TRANSLATORS = []
LEVEL_TEXT = (
    "Lean: `emit_correct` — compiler correctness of the SDK builder model: for EVERY host program over the "
    "constructs of the statement (arrays with initial values, measurement into futures / entries / registers, add "
    "with/without modulus, the six if conditions in both forms with Future/RegFuture/literal operands, loop, "
    "loop_body, foreach, enumerate, loop_until with at-most exit condition and cleanup, future-indexed futures), "
    "nested arbitrarily, flushes after any top-level statements, every outcome sequence: if the builder model "
    "accepts the program and the direct semantics HostSem (Model/SdkHost.lean) is defined, the proto-subroutines "
    "of the flushes run one after the other under the label-level semantics ProtoExec (labels no-ops, branch to L "
    "continues after L, literals are themselves) reach the same gate/measurement trace, the same outcome oracle, "
    "the same arrays and the same register values for all live handles; after each flush shared memory holds the "
    "controller's value for every array created and every register returned in the segment "
    "(`future_value_sound_flush`). Proof: structural induction over the host AST (`emit_correct_op`) over a "
    "simulation relation (handle -> register table, register ownership = C14's discipline, label freshness "
    "`labels_fresh`), closed form of array initialisation incl. the all-equal loop (`array_init_correct`), one "
    "flush (`segment_correct`), induction over the flush segments. Tie: (1) syntactic correspondence real SDK "
    "builder vs `emit` (every proto-subroutine of every flush, MemoryManager snapshot after every operation); (2) "
    "HostSem vs the harness' direct interpreter written from the statement; (3) ProtoExec vs real assembler + real "
    "Executor on the emitted programs. Oracle: real SDK -> bytes -> real Executor vs the direct interpreter: trace, "
    "controller arrays/registers and every Array/Future/RegFuture handle read on the host after EVERY flush, every "
    "array entry also through handles asked from the Array AGAIN after every flush (get_future_index / "
    "get_future_slice), and the registers the real assembler introduces against the registers live at that flush.")
LEVEL_NOTE = (
    "`emit_correct` is about the model `emit` and about ProtoExec. The step down to the executor model is the chain "
    "Props/C05Chain.lean (ProtoExec -> C03 source semantics -> assembled subroutine -> `Exec.run`, one flush) and "
    "Props/C05Chain2.lean: `program_on_exec` runs ALL assembled subroutines in order on ONE `Exec` state and obtains "
    "HostSem's trace / oracle / arrays / handle registers. What the first part assumed of each subroutine is now "
    "derived from the builder model (Lemmas/SdkEmitted.lean: `emitted_nameInj`, `emitted_regsInRange`, "
    "`emitted_labelTargets`), the executor passing its quantum / allocation instructions (`QSafe`) is proved for the "
    "one-qubit vocabulary (Lemmas/SdkQSafe.lean: closed blocks set/qalloc/init/gates/meas/qfree, virtual qubit 0 free "
    "at the start), and the step between flushes is `scratch_dead_across_flushes` (live handles sit in active "
    "registers, active registers are reserved for the assembler, reserved registers are never scratch). Left as "
    "named hypotheses: `AsmAll` (each subroutine assembles, with the active registers reserved — the reserved set is "
    "compared with the real builder's on every executed run — and reads as executor instructions), the initial "
    "controller state (application registered and empty, unit module non-empty, qubit 0 free), and the shared-memory "
    "ARRAY view (the executor shares the list object, F25). new_register()/measure(store_array=False) are top-level "
    "statements in the theorem (TopOK). Open finding F41 (host handles keep stale values across flushes) is "
    "host-level and outside the label-level model; F42 is fixed on the SDK side (reserved registers).")
TECHNIQUE = ("Lean 4 proof (verified-compiler style: simulation relation, structural induction over the host AST, "
             "induction over flush segments) + syntactic differential correspondence with the real SDK builder + "
             "semantic cross-checks of both semantics + model-free end-to-end oracle")
TRUSTED = [
    "Lean 4.33 kernel; axioms at most propext, Classical.choice, Quot.sound (audited per theorem)",
    "harness/sdk.py: host-AST interpreter over the real SDK API, canonicalisation, direct interpreter (oracle)",
    "C03 (assembling preserves the label-level meaning) for the step from proto-commands to instructions",
    "HostSem (Model/SdkHost.lean) is the specification: written from the statement, cross-checked against the "
    "independent Python interpreter on every run",
]
ASSUMPTIONS = [
    "generic hardware, one measured qubit at a time; qubits are abstract (a gate/measurement trace)",
    "host-time effects happen once: a body is host code run once, arrays are allocated when new_array is called and "
    "initialised at the start of the subroutine of their flush segment",
    "register handles from new_register()/measure(store_array=False) are created at top level (a register set in a "
    "branch that is not taken cannot be returned: the controller rejects ret_reg of an undefined register)",
    "measurement registers are recycled at flush (a RegFuture of a measurement is read right after its flush); its "
    "use as a condition in LATER subroutines (before another register measurement) is outside HostSem and checked "
    "model-free: executed with its flushes vs direct evaluation of the same statements in one flush",
    "operand combinations the SDK rejects loudly are out of scope: RegFuture as `other` of add(), a future-indexed "
    "Future as condition operand (both raise at flush)",
    "loops terminate (the generator only builds loops whose index reaches stop); values stay within 32 bits",
]


def _all_flush_placements(core):
    """Every subset of flush positions between top-level statements (plus the final flush)."""
    n = len(core)
    for mask in range(1 << max(0, n - 1)):
        p = []
        for i, s in enumerate(core):
            p.append(s)
            if i < n - 1 and (mask >> i) & 1:
                p.append({"k": "flush"})
        p.append({"k": "flush"})
        yield p


def run(ctx):
    from harness import sdk as H
    res = Result()
    res.rule = ("random host programs (nesting <= 4, <= 30 statements, random flush placement; every flush placement "
                "for the small ones) through the real SDK and the Lean model (syntactic) and through the real "
                "Executor vs direct evaluation (oracle); non-trivial = contains control flow or data flow beyond "
                "declarations; distinct by program JSON + outcome script")
    rng = ctx.rng
    drv = ctx.driver
    known_seen = {}

    def model_runs(progs):
        """the Lean `emit` on many programs, in batched driver round trips"""
        out = []
        for k in range(0, len(progs), 100):
            out += drv.batch([{"op": "sdk.run", "p": q} for q in progs[k:k + 100]])
        return out

    def correspond(prog, stream, m=None, real=None):
        res.evaluations += 1
        if m is None:
            m = drv.call({"op": "sdk.run", "p": prog})
        r = real if real is not None else H.RealRun(execute=False).run(prog)
        d = H.compare_syntactic(prog, r, m)
        res.count("syn:" + stream)
        if d is not None:
            if len(res.disagreements) < 3:
                small = H.shrink(prog, lambda q: H.compare_syntactic(
                    q, H.RealRun(execute=False).run(q), drv.call({"op": "sdk.run", "p": q})) is not None, 150)
                d = H.compare_syntactic(small, H.RealRun(execute=False).run(small),
                                        drv.call({"op": "sdk.run", "p": small}))
                prog = small
            res.disagreements.append({"stream": "sdk." + stream, "input": prog, "model": d, "code": "real SDK differs"})

    def check_oracle(prog, outs, stream, keep=None, interfere=False):
        res.evaluations += 1
        if sum(1 for x in res.failures if x["kf"] is None) >= 20:
            return  # broken tree: enough failing inputs collected, keep the run time bounded
        st, det = H.oracle(prog, outs, keep=keep, interfere=interfere)
        res.count("oracle:" + st)
        if st == "invalid":
            res.count("invalid:" + det.split(" ")[0])
            return
        if any(t["k"] not in ("flush", "arr") for t in prog):
            res.nontrivial.add(hash(H.dumps(prog) + str(outs[:8])))
        for t in prog:
            res.count("top:" + t["k"])
        if st != "fail":
            return
        cache = {}
        untagged = []
        for f in det:
            kf = H.tag_known(prog, outs, f, cache)
            if kf is None:
                untagged.append(f)
            else:
                res.count("known:" + kf)
                if kf not in known_seen:
                    known_seen[kf] = True
                    res.failures.append({"what": f["what"], "kf": kf, "input": {"program": prog, "outcomes": outs,
                                                                                  "detail": f}})
        if untagged:
            feat = untagged[0]["feature"]
            small = prog
            if sum(1 for x in res.failures if x["kf"] is None) < 3:
                def fails(q):
                    s2, d2 = H.oracle(q, outs, interfere=interfere)
                    if s2 != "fail":
                        return False
                    c2 = {}
                    return any(x["feature"] == feat and H.tag_known(q, outs, x, c2) is None for x in d2)
                small = H.shrink(prog, fails, 250)
                s3, d3 = H.oracle(small, outs, interfere=interfere)
                untagged = [x for x in (d3 or []) if x["feature"] == feat] or untagged
            res.failures.append({"what": untagged[0]["what"], "kf": None,
                                 "input": {"program": small, "outcomes": outs, "detail": untagged[:3],
                                           "stream": stream}})

    # -- corpus: witnesses of the fixed defects (must pass) and of the open findings (must be tagged)
    corpus = [
        ("F5", [{"k": "until", "n": 10, "body": [{"k": "qop", "g": [], "t": {"k": "new"}}],
                 "ef": {"f": {"a": 0, "i": 0}}, "ev": 0, "cl": []}, {"k": "flush"}], [1, 1, 0]),
        ("F43a", [{"k": "arr", "len": 1, "init": [2]},
                  {"k": "addf", "f": {"a": 0, "i": 0}, "o": {"f": {"a": 0, "i": 0}}, "m": 3}, {"k": "flush"}], []),
        ("F43b", [{"k": "arr", "len": 2, "init": [-1, 0]},
                  {"k": "until", "n": 3, "body": [{"k": "addr", "h": 0, "o": {"f": {"a": 0, "h": 0}}, "m": 2}],
                   "ef": {"h": 0}, "ev": 2, "cl": []}, {"k": "flush"}], []),
        ("F41a", [{"k": "arr", "len": 1, "init": [5]},
                  {"k": "if", "cb": False, "c": "ez", "a": {"f": {"a": 0, "i": 0}}, "b": {"v": 0}, "body": []},
                  {"k": "flush"}, {"k": "addf", "f": {"a": 0, "i": 0}, "o": {"v": 1}, "m": None}, {"k": "flush"}], []),
        ("F41b", [{"k": "reg", "v": 7}, {"k": "flush"}, {"k": "addr", "h": 0, "o": {"v": 1}, "m": None},
                  {"k": "flush"}], []),
        ("F42", [{"k": "reg", "v": 1}, {"k": "flush"}, {"k": "arr", "len": 2, "init": [3, 3]}, {"k": "flush"}], []),
    ]
    for name, prog, outs in corpus:
        correspond(prog, "corpus-" + name)
        check_oracle(prog, outs + [0] * 64, "corpus-" + name)

    # -- programs: the first `nO` of the random ones also go through the oracle and the semantic cross-checks
    nS = 32000 if ctx.thorough else 3600
    nO = 16000 if ctx.thorough else 1400
    rand = [H.Gen(rng, max_depth=4, max_stmts=30).program() for _ in range(nS)]
    wild = [H.wild_program(rng) for _ in range(6000 if ctx.thorough else 700)]
    res.samples += [{"program": q} for q in rand[3:300:100]][:2]
    models = model_runs(rand)
    for q, m in zip(wild, model_runs(wild)):
        correspond(q, "adversarial", m)
    for q, m in zip(rand[nO:], models[nO:]):
        correspond(q, "random", m)

    # -- oracle stream, scripted outcomes; the Lean HostSem against the direct Python interpreter on all of
    #    them, the Lean ProtoExec against the real Executor on every 4th. The executed run of the real SDK also
    #    serves the syntactic comparison and the ProtoExec cross-check (same proto-subroutines, same snapshots).
    def cross(fn, name, prog, outs, **kw):
        res.evaluations += 1
        st, det = fn(drv, prog, outs, **kw)
        res.count(name + ":" + st)
        if st == "differ":
            small = prog
            if len(res.disagreements) < 3:
                small = H.shrink(prog, lambda q: fn(drv, q, outs)[0] == "differ", 150, 15)
                det = fn(drv, small, outs)[1]
            res.disagreements.append({"stream": "sdk." + name, "input": {"program": small, "outcomes": outs},
                                      "model": det, "code": "see model field"})

    outss = [[rng.randrange(2) for _ in range(64)] for _ in range(nO)]
    hress = []
    for k in range(0, nO, 100):
        hress += drv.batch([{"op": "sdk.hsem", "p": q, "outs": o, "fuel": 4000}
                            for q, o in zip(rand[k:k + 100], outss[k:k + 100])])
    for i in range(nO):
        prog, outs, m = rand[i], outss[i], models[i]
        keep = {}
        check_oracle(prog, outs, "random", keep=keep)
        real = keep.get("real")
        if real is not None and real.err is None:
            correspond(prog, "random", m, real=real)
        else:
            correspond(prog, "random", m)
        cross(H.cross_hsem, "hostsem-vs-direct", prog, outs, model=m, hres=hress[i])
        if i % 4 == 0:
            cross(H.cross_exec, "protoexec-vs-executor", prog, outs,
                  real=real if (real is not None and real.exec_err is None and real.err is None) else None)

    # -- two connections in one process: while this program is being built, another connection measures and
    #    flushes between any two of its top-level statements; several register outcomes per subroutine
    for _ in range(400 if ctx.thorough else 30):
        g = H.Gen(rng, max_depth=2, max_stmts=10)
        core = [t for t in g.program(n_top=rng.choice([1, 2, 3]), flush_p=0.0) if t["k"] != "flush"]
        regs = [{"k": "qop", "g": [rng.randrange(7)], "t": {"k": "reg"}} for _ in range(rng.choice([2, 3, 4]))]
        prog = core + regs + [{"k": "flush"}]
        check_oracle(prog, [rng.randrange(2) for _ in range(64)], "second-connection-interleaved", interfere=True)

    # -- register-held values carried ACROSS flushes: outcomes measured into M registers (and new_register()
    #    values) in one flush, conditions on them in later flushes.  HostSem lets a measurement handle die at its
    #    flush, so this class is checked model-free: the program with its flushes on the real Executor against the
    #    direct evaluation of the same statements in ONE flush (flush placement must not change the results)
    for _ in range(600 if ctx.thorough else 80):
        prog = H.m_across_flushes(rng)
        outs = [rng.randrange(2) for _ in range(64)]
        res.evaluations += 1
        res.count("ora:register-values-across-flushes")
        st, det = H.oracle_flush_invariance(prog, outs)
        res.count("oracle:" + st)
        res.nontrivial.add(hash(H.dumps(prog) + H.dumps(outs[:16])))
        if st == "fail":
            small = prog
            if sum(1 for x in res.failures if x["kf"] is None) < 3:
                feat = det[0]["feature"]

                def still(q):  # the same kind of failure; a raise must come from the controller, not the harness
                    s2, d2 = H.oracle_flush_invariance(q, outs)
                    return s2 == "fail" and any(x.get("feature") == feat and (feat != "raise" or x.get("exec_err"))
                                                for x in d2)
                small = H.shrink(prog, still, 150)
                det = H.oracle_flush_invariance(small, outs)[1] or det
            res.failures.append({"what": det[0]["what"], "kf": None,
                                 "input": {"program": small, "outcomes": outs, "detail": det[:3],
                                           "stream": "register-values-across-flushes"}})

    # -- small programs: every flush placement, both streams
    nSmall = 500 if ctx.thorough else 36
    for _ in range(nSmall):
        g = H.Gen(rng, max_depth=3, max_stmts=12)
        core = [t for t in g.program(n_top=rng.choice([2, 3, 4]), flush_p=0.0) if t["k"] != "flush"][:6]
        outs = [rng.randrange(2) for _ in range(64)]
        places = list(_all_flush_placements(core))
        for p, m in zip(places, model_runs(places)):
            keep = {}
            check_oracle(p, outs, "all-flush-placements", keep=keep)
            real = keep.get("real")
            correspond(p, "all-flush-placements", m, real=real if (real is not None and real.err is None) else None)
    return res


def replay(ctx, payload):
    from harness import sdk as H
    inp = payload.get("failure", {}).get("input", {})
    prog, outs = inp.get("program"), inp.get("outcomes", []) + [0] * 64
    if inp.get("stream") == "register-values-across-flushes":
        st, det = H.oracle_flush_invariance(prog, outs)
    else:
        st, det = H.oracle(prog, outs, interfere=inp.get("stream") == "second-connection-interleaved")
    print("replay:", st, json.dumps(det)[:1500])
    return 1 if st == "fail" else 0
