"""C11 — EPR requests and results cross the SDK/controller boundary intact."""
import json

from check import Result

PROP = "C11"
TARGETS = ["NetqasmVerif.Props.C11", "NetqasmVerif.Props.QlinkObligations"]
M = "NetqasmVerif.Props.C11"
THEOREMS = [(M, "NQ.C11." + n) for n in [
    "tables_wellformed", "ser_create_matches_fields", "handles_match_fields", "qlink_enum_fields_typed",
    "request_roundtrip", "named_bases_in_range", "result_handles_keep", "result_handles_measure",
    "result_handles_ent_info", "result_handles_ent_info_nv", "request_ids_exact", "queue_key_determines_socket"]]
MQ = "NetqasmVerif.Props.QlinkObligations"
THEOREMS += [(MQ, "NQ.Qlink." + n) for n in [
    "response_conversion_copies_every_field", "basis_conversion_exact", "bell_state_verbatim",
    "bell_numberings_differ", "request_conversion_copies_every_field"]]
TRANSLATORS = ["epr_tables", "qlink_tables"]
LEVEL_TEXT = ('Lean theorems: request_roundtrip — for every request type K/M/R, pair count, time unit/limit, '
              'rotation triple, random-basis set (any RandomBasis member or none), socket and node id, the '
              'LinkLayerCreate the executor builds from the argument array the SDK wrote equals the expected '
              'link-layer-typed request (defaults where the SDK leaves None); result_handles_* — for every '
              'number of pairs n and i < n the EprKeepResult / EprMeasureResult / Qubit.entanglement_info '
              'attribute of pair i reads the array entry where _store_ent_info put the named field of '
              'response i (index arithmetic by induction over the response list, positions decided by the '
              'kernel over tables regenerated from /repo: _fields, __defaults__, enum numberings, SER_* '
              'constants, recorded handle indices). Tie: translator + differential stream through the real '
              'EPRSocket API -> bytes -> Executor -> recording stack, and scripted responses -> handles.')
LEVEL_NOTE = ('Trusted: Lean kernel; translate/epr_tables.py; harness/epr.py (in-process connection, response '
              'scripting). The models of serialize_request/_get_create_request are hand-written and tied by '
              'the correspondence stream; the SER_* tables are tied by kernel-decided obligations. F15 fixed '
              'in /repo (random basis sets reached the stack as bare ints).')
TECHNIQUE = 'Lean 4 proof (symbolic evaluation over generated tables, induction over response lists) + kernel-decided generated obligations + differential correspondence'
TRUSTED = [
    "Lean 4.33 kernel; axioms at most propext, Classical.choice, Quot.sound (audited per theorem)",
    "translate/epr_tables.py: tables read from the live classes/constants; name pairing of SER_CREATE_IDX "
    "constants with LinkLayerCreate fields is by upper-cased name (PROBABLIITY spelling tolerated)",
    "Model/EprReq.lean (serializeReq, getCreateRequest, handle indices) is hand-written; tied to build_epr.py, "
    "executor.py and builder.py by the differential stream",
    "harness/epr.py: InProcConnection decodes the serialized host messages and drives the executor in-process",
]
ASSUMPTIONS = [
    "the argument vocabulary of the create/receive entry points is enumerated from their signatures (inspect): "
    "number, post_routine, sequential, time_unit, max_time, min_fidelity_all_at_end, max_tries, basis_*, "
    "rotations_*, random_basis_*, expect_phi_plus; an unknown parameter is reported. min_fidelity_all_at_end is "
    "only combined with entry points that also take max_tries (the builder asserts it)",
    "every host-side accessor of the result handles is compared with the delivered response, including "
    "Qubit.remote_entangled_node, for both node placements (local 0 / remote 1 and local 1 / remote 0) and "
    "falsy values (node id 0, create id 0, sequence number 0, goodness 0, Bell state 0)",
    "response fields are integers of ANY size (value-range classes 0, 1, 2^31-1, 2^31, 2^32-1, 2^32, 5*10^9, "
    "2^63-1 are drawn for goodness, goodness time, sequence number, create id); the model stores unbounded Int. "
    "Observation: qlink-interface types `goodness` as float, but a float stored in a result array makes "
    "Future.value raise (\"future value 0.5 is not an int or None\") — integer goodness is a precondition",
    "API objects may be reused: one EPRSocket object attached to several connections (successively or alive "
    "at once); the remote node id must be the one of the CURRENT connection's network",
    "the network stack assigns purpose ids as a function of (remote node id, local socket id); the harness stack "
    "uses remote*1000+socket (injective per remote); scenarios use equal and different local socket ids "
    "towards two remote nodes",
    "responses are delivered natively and in qlink-interface 1.0 form (converted by the real "
    "response_from_qlink_1_0); the Bell-state field is transported verbatim — qlink_interface.BellState and "
    "qlink_compat.BellState number the states differently (observation bell_numberings_differ): which "
    "numbering the int index means is the link layer's contract (ResCreate.bell_state: int, 'TODO add mapping')",
    "which returned Qubit holds which pair is established per run: every scripted response carries a distinct "
    "physical qubit id, followed through mov (NV: communication -> memory qubit) and through the order of "
    "measurements (sequential requests); with the NV transpiler (mov expanded into gates) the assignment of "
    "the same case without transpiler is used. Connections have no other live qubit (F28 on NV otherwise)",
    "LINK-LAYER ORDER for the result half: the responses of one (remote node, socket, role) are delivered in "
    "the order of the requests they answer; they may arrive before the matching instruction ran and "
    "interleave arbitrarily with other sockets (the multi-call stream does both). Pair i of a completed "
    "call = the i-th response generated for its queue after those of earlier calls",
    "socket min_fidelity is not a call parameter: it travels in OpenEPRSocketMessage, never in the request "
    "(minimum_fidelity = 0 in every LinkLayerCreate)",
    "expectedCreate (the specification) transmits the time unit only together with a non-zero limit "
    "(max_time = 0 means no limit in any unit) and leaves minimum_fidelity/priority/atomic/consecutive/"
    "probability distributions at the LinkLayerCreate defaults (the API has no parameter for them)",
    "request_to_qlink_1_0 has no branch for R-type requests; for R the oracle applies the same conversion "
    "as for M by hand (RandomBasis members required)",
    "response field values fit the 32-bit array entries; enum-typed response fields are stored by value",
]

KEEP_SPEC = {"qubit_id": "logical_qubit_id", "remote_node_id": "remote_node_id",
             "generation_duration": "goodness", "raw_bell_state": "bell_state", "bell_state": "bell_state"}
MEAS_SPEC = {"raw_measurement_outcome": "measurement_outcome", "remote_node_id": "remote_node_id",
             "generation_duration": "goodness", "raw_bell_state": "bell_state"}


def _resp_field(r, name):
    real = r.native()
    v = getattr(real, name)
    return v.value if hasattr(v, "value") else v


def run(ctx):
    from harness import epr as H
    H.quiet()
    res = Result()
    res.rule = ("a case = one EPRSocket API call (type, role, pair count, time unit/limit, basis choice) with "
                "scripted responses; non-trivial when a request reached the stack or a handle was read; "
                "distinct by the full parameter record + response values")
    rng = ctx.rng
    # the F15 witness first (fixed: must pass now)
    corpus = [dict(tp="M", role="create", number=1, socket=0, remote_socket=0, time_unit=0, max_time=0,
                   rbl=1, rbr=None, rotL=[0, 0, 0], rotR=[0, 0, 0], basisL=None, basisR=None, api="specific"),
              dict(tp="M", role="create", number=2, socket=1, remote_socket=0, time_unit=2, max_time=9,
                   rbl=3, rbr=2, rotL=[0, 0, 0], rotR=[0, 0, 0], basisL=None, basisR=None, api="generic"),
              dict(tp="R", role="create", number=1, socket=0, remote_socket=0, time_unit=1, max_time=3,
                   rbl=2, rbr=None, rotL=[0, 0, 0], rotR=[0, 0, 0], basisL=None, basisR=None, api="specific")]
    n = 6000 if ctx.thorough else 1200
    cases = [(c, "create") for c in corpus]
    for _ in range(n):
        cases.append((H.gen_request_case(rng), rng.choice(["create", "create", "recv"])))
    for c, role in cases:
        res.evaluations += 1
        res.count("type:" + c["tp"] + "/" + role)
        inp = {"case": c, "role": role}
        try:
            out = H.run_sdk_case(c, rng, role)
        except Exception as e:
            res.failures.append({"what": "EPRSocket call / execution raised %s: %s" % (type(e).__name__, e),
                                 "kf": None, "input": inp})
            continue
        if out["stuck"]:
            res.failures.append({"what": "subroutine never completed although every response was delivered",
                                 "kf": None, "input": inp})
            continue
        # ---- request half
        if role == "create":
            if len(out["requests"]) != 1:
                res.failures.append({"what": "stack received %d requests" % len(out["requests"]), "kf": None,
                                     "input": inp})
                continue
            req = out["requests"][0]
            real = H.canon_request(req)
            m = ctx.driver.call({"op": "eprreq.request", **H.model_params(c)})
            res.nontrivial.add(json.dumps(inp, sort_keys=True))
            if c["rbl"] is not None or c["rbr"] is not None:
                res.count("random-basis-set")
            if c["basisL"] is not None or c["basisR"] is not None:
                res.count("named-basis")
            if m.get("req") != real:
                res.disagreements.append({"stream": "eprreq.request", "input": inp, "model": m.get("req"),
                                          "code": real})
            if m.get("expected") != real:
                res.failures.append({"what": "the stack did not receive the parameters the application passed",
                                     "kf": None, "input": {**inp, "expected": m.get("expected"), "got": real}})
            try:
                H.qlink_accepts(req)
            except Exception as e:
                res.failures.append({"what": "link-layer conversion rejects the request: %s: %s"
                                             % (type(e).__name__, e), "kf": None,
                                     "input": {**inp, "request": real}})
        else:
            if out["requests"]:
                res.failures.append({"what": "a receive call put a request", "kf": None, "input": inp})
        # ---- result half
        resps = out["resps"]
        fields = [r.fields() for r in resps]
        kind = out["kind"]
        if out["handles"]:
            res.nontrivial.add(json.dumps({"inp": inp, "fields": fields}, sort_keys=True))
            res.count("handles:" + kind)
            allint = all(isinstance(x, int) for f in fields for x in f)
            if not allint:
                res.count("float-goodness")
            # the model stores unbounded integers (any value the link layer sends); floats: oracle only
            m = ctx.driver.call({"op": "eprreq.handles", "kind": kind, "rs": fields}) if allint else {}
            mv = {(i, a): v for i, a, v in (m.get("vals") or [])}
            if any(x >= 2 ** 31 for f in fields for x in f if isinstance(x, int)):
                res.count("response-field>=2^31")
            spec = KEEP_SPEC if kind == "keep" else MEAS_SPEC
            for i, attr, v in out["handles"]:
                if attr in ("measurement_basis_local", "measurement_basis_remote"):
                    want = H.model_params(c)["rotL" if attr.endswith("local") else "rotR"] \
                        if role == "create" else [0, 0, 0]
                    if v != want:
                        res.failures.append({"what": "%s of pair %d is %s, requested %s" % (attr, i, v, want),
                                             "kf": None, "input": inp})
                    continue
                if allint and attr != "bell_state" and mv.get((i, attr)) != v:
                    res.disagreements.append({"stream": "eprreq.handles", "input": {**inp, "fields": fields},
                                              "model": [i, attr, mv.get((i, attr))], "code": [i, attr, v]})
                want = _resp_field(resps[i], spec[attr])
                if v != want:
                    res.failures.append({"what": "handle %s of pair %d reads %s, response field %s is %s"
                                                 % (attr, i, v, spec[attr], want), "kf": None,
                                         "input": {**inp, "fields": fields}})
        if out["entinfo"]:
            res.count("entanglement_info")
            allint = all(isinstance(x, int) for f in fields for x in f)
            m = ctx.driver.call({"op": "eprreq.handles", "kind": "entinfo", "rs": fields}) if allint else {}
            mv = {(i, a): v for i, a, v in (m.get("vals") or [])}
            for i, f, v in out["entinfo"]:
                if allint and mv.get((i, f)) != v:
                    res.disagreements.append({"stream": "eprreq.handles(entinfo)", "input": {**inp, "fields": fields},
                                              "model": [i, f, mv.get((i, f))], "code": [i, f, v]})
                want = _resp_field(resps[i], f)
                if v != want:
                    res.failures.append({"what": "entanglement_info.%s of qubit %d is %s, response has %s"
                                                 % (f, i, v, want), "kf": None, "input": {**inp, "fields": fields}})
        if len(res.samples) < 5 and res.evaluations % 211 == 3:
            res.samples.append({"case": c, "role": role, "handles": out["handles"][:5]})
    # ---- host programs with several calls over two sockets; responses may arrive before the matching
    # instruction ran and the two sockets interleave (per-queue order kept): every handle of every completed
    # call must read the i-th response the link layer generated for its (remote node, socket, role)
    npg = 3000 if ctx.thorough else 600
    for _ in range(npg):
        pc = H.gen_program_case(rng)
        res.evaluations += 1
        _check_program(res, H, pc)
    # ---- handles over hardware configurations: generic / NV / NV + transpiler x sequential / all-at-once
    # x 1..3 pairs x both roles; every handle kind; which returned qubit holds which pair is established
    # from the run (physical qubit followed through mov / order of measurements)
    hw_cases = H.all_hw_cases() + [H.gen_hw_case(rng) for _ in range(1500 if ctx.thorough else 250)]
    for c in hw_cases:
        res.evaluations += 1
        _check_hw(ctx, res, H, c)
    # ---- several create requests in ONE subroutine (no flush in between) that differ in exactly one
    # argument, each argument in turn: request k as received by the stack == what call k asked for
    for _ in range(1500 if ctx.thorough else 300):
        pc = H.gen_pair_case(rng)
        res.evaluations += 1
        _check_pair(ctx, res, H, pc)
    # ---- every optional argument of every create / receive entry point (vocabulary enumerated from the
    # signatures), every request type: the request(s) the stack receives vs expectedCreate
    for n, p in H.unknown_entry_args():
        res.failures.append({"what": "EPRSocket.%s has a parameter %r the request vocabulary does not cover" % (n, p),
                             "kf": None, "input": {"entry": n, "param": p}})
    for _ in range(1500 if ctx.thorough else 300):
        ac = H.gen_api_case(rng)
        res.evaluations += 1
        _check_api(ctx, res, H, ac)
    # ---- API objects reused across connections: one EPRSocket object on several connections (successive
    # or alive at once) whose networks place the remote party on different nodes
    for _ in range(1200 if ctx.thorough else 250):
        rc = H.gen_reuse_case(rng)
        res.evaluations += 1
        _check_reuse(res, H, rc)
    # ---- the qlink-interface 1.0 compatibility layer, field by field, on random objects
    _check_qlink_layer(ctx, res, H, rng, 1500 if ctx.thorough else 300)
    # ---- direct streams: serialize_request and _get_create_request on wider / malformed inputs
    nd = 4000 if ctx.thorough else 800
    ex = H.fresh_world()
    ex.init_new_application(0, 2)
    sub = H.parse_text_subroutine("# NETQASM 0.0\n# APPID 0\nset R0 0\n")
    ex._subroutines[0] = sub
    for _ in range(nd):
        res.evaluations += 1
        tp = rng.randrange(3)
        rem, sockid = rng.randrange(5), rng.randrange(5)
        p = {"tp": tp, "remote": rem, "purpose": H.purpose_of(rem, sockid),
             "number": rng.choice([0, 1, 2, 255, rng.randrange(1 << 16)]), "timeUnit": rng.randrange(3),
             "maxTime": rng.choice([0, 1, rng.randrange(1 << 20)]),
             "rbl": rng.choice([None, None, 0, 1, 2, 3]), "rbr": rng.choice([None, None, 0, 1, 2, 3]),
             "rotL": rng.choice([[0, 0, 0], [rng.randrange(32) for _ in range(3)], [0, 0, 31], [255, 1, 0]]),
             "rotR": rng.choice([[0, 0, 0], [rng.randrange(32) for _ in range(3)]])}
        params = H.BE.EntRequestParams(
            remote_node_id=p["remote"], epr_socket_id=sockid, number=p["number"], post_routine=None,
            sequential=False, time_unit=H.TimeUnit(p["timeUnit"]), max_time=p["maxTime"],
            random_basis_local=None if p["rbl"] is None else H.RandomBasis(p["rbl"]),
            random_basis_remote=None if p["rbr"] is None else H.RandomBasis(p["rbr"]),
            rotations_local=tuple(p["rotL"]), rotations_remote=tuple(p["rotR"]))
        real_arr = H.BE.serialize_request(H.EPRType(tp), params)
        m = ctx.driver.call({"op": "eprreq.request", **p})
        res.count("direct-serialize")
        if m.get("arr") != real_arr:
            res.disagreements.append({"stream": "eprreq.request(arr)", "input": p, "model": m.get("arr"),
                                      "code": real_arr})
        # the executor side on this array and on a corrupted one
        arr = list(real_arr)
        if rng.random() < 0.3:
            k = rng.randrange(len(arr))
            arr[k] = rng.choice([None, 0, 1, 4, 5, 9, -1])
            res.count("malformed-array")
        if rng.random() < 0.05:
            arr = arr[:-1]
        ex._app_arrays[0]._arrays[7] = arr
        try:
            req = ex._get_create_request(subroutine_id=0, remote_node_id=p["remote"], epr_socket_id=sockid,
                                         arg_array_address=7)
            real = H.canon_request(req)
        except Exception:
            real = None
        mg = ctx.driver.call({"op": "eprreq.getcreate", "remote": p["remote"], "purpose": p["purpose"], "arr": arr})
        if mg.get("req") != real:
            res.disagreements.append({"stream": "eprreq.getcreate", "input": {"p": p, "arr": arr},
                                      "model": mg.get("req"), "code": real})
        if real is not None:
            res.nontrivial.add(json.dumps({"p": p, "arr": arr}, sort_keys=True))
    return res


REQ_RENAME = {"x_rotation_angle_local_1": "rotation_X_local1", "y_rotation_angle_local": "rotation_Y_local",
              "x_rotation_angle_local_2": "rotation_X_local2", "x_rotation_angle_remote_1": "rotation_X_remote1",
              "y_rotation_angle_remote": "rotation_Y_remote", "x_rotation_angle_remote_2": "rotation_X_remote2",
              "probability_distribution_parameter_local_1": "probability_dist_local1",
              "probability_distribution_parameter_local_2": "probability_dist_local2",
              "probability_distribution_parameter_remote_1": "probability_dist_remote1",
              "probability_distribution_parameter_remote_2": "probability_dist_remote2"}


def _val(v):
    return v.value if hasattr(v, "value") and not isinstance(v, (int, float)) else v


def _check_qlink_layer(ctx, res, H, rng, n):
    import dataclasses

    import qlink_interface as q10

    from netqasm import qlink_compat as ql
    for _ in range(n):
        res.evaluations += 1
        # responses: K / M / R x both directions x Bell states (int index or qlink_interface member)
        kind = rng.choice(["K", "M", "R"])
        bell = rng.randrange(4)
        common_kw = dict(create_id=rng.randrange(1 << 16), directionality_flag=rng.randrange(2),
                         sequence_number=rng.randrange(1 << 16), purpose_id=rng.randrange(5000),
                         remote_node_id=rng.randrange(8), goodness=rng.randrange(1 << 20),
                         bell_state=q10.BellState(bell) if rng.random() < 0.5 else bell)
        if kind == "K":
            src = q10.ResCreateAndKeep(logical_qubit_id=rng.randrange(64), time_of_goodness=rng.randrange(1 << 20),
                                       **common_kw)
        else:
            cls = q10.ResMeasureDirectly if kind == "M" else q10.ResRemoteStatePrep
            src = cls(measurement_outcome=rng.randrange(2), measurement_basis=q10.MeasurementBasis(rng.randrange(5)),
                      **common_kw)
        res.count("qlink-response:" + kind)
        inp = {"qlink_response": [type(src).__name__, {k: _val(v) for k, v in dataclasses.asdict(src).items()}]}
        try:
            out = ql.response_from_qlink_1_0(src)
        except ValueError:
            out = None
        if kind == "R":
            if out is not None:
                res.count("qlink-R-converted")
            continue
        if out is None:
            res.failures.append({"what": "response_from_qlink_1_0 rejects a %s response" % kind, "kf": None, "input": inp})
            continue
        res.nontrivial.add(json.dumps(inp, sort_keys=True))
        for f, v in zip(out._fields, out):
            if f == "type":
                want = 0 if kind == "K" else 1
            else:
                want = _val(getattr(src, "time_of_goodness" if f == "goodness_time" else f))
            if _val(v) != want:
                res.failures.append({"what": "1.0-form response: field %s is %s after conversion, the link "
                                             "layer sent %s" % (f, _val(v), want), "kf": None, "input": inp})
                break
        # requests
        tp = rng.choice([ql.RequestType.K, ql.RequestType.M])
        kw = {}
        for f in ql.LinkLayerCreate._fields:
            if f == "type":
                kw[f] = tp
            elif f.startswith("random_basis"):
                kw[f] = ql.RandomBasis(rng.randrange(4))
            else:
                kw[f] = rng.randrange(1 << 10)
        req = ql.LinkLayerCreate(**kw)
        inp = {"qlink_request": H.canon_request(req)}
        try:
            o = ql.request_to_qlink_1_0(req)
        except Exception as e:
            res.failures.append({"what": "request_to_qlink_1_0 raised %s: %s" % (type(e).__name__, e), "kf": None,
                                 "input": inp})
            continue
        res.count("qlink-request:" + tp.name)
        for fld in dataclasses.fields(o):
            got = _val(getattr(o, fld.name))
            want = _val(getattr(req, REQ_RENAME.get(fld.name, fld.name)))
            if got != want:
                res.failures.append({"what": "1.0-form request: field %s is %s, the request has %s"
                                             % (fld.name, got, want), "kf": None, "input": inp})
                break


def _check_api(ctx, res, H, ac):
    out = H.run_api_case(ac)
    inp = {"api_case": ac}
    res.count("entry:%s" % ac["entry"])
    for k in ac["args"]:
        res.count("arg:%s" % k)
    if out["raised"]:
        res.failures.append({"what": "EPRSocket.%s(%s) raised %s" % (ac["entry"], sorted(ac["args"]), out["raised"]),
                             "kf": None, "input": inp})
        return out
    if out["stuck"]:
        res.failures.append({"what": "EPRSocket.%s(%s): the request never completed" % (ac["entry"], sorted(ac["args"])),
                             "kf": None, "input": inp})
        return out
    res.nontrivial.add(json.dumps(ac, sort_keys=True))
    if ac["entry"] in H.CREATE_ENTRY:
        if not out["requests"]:
            res.failures.append({"what": "EPRSocket.%s put no request" % ac["entry"], "kf": None, "input": inp})
            return out
        m = ctx.driver.call({"op": "eprreq.request", **H.api_expected(ac)})
        for k, real in enumerate(out["requests"]):
            if m.get("expected") != real:
                diff = [[a, b] for a, b in zip(m.get("expected") or [], real) if a != b]
                res.failures.append({"what": "EPRSocket.%s(%s): request %d reached the stack as %s"
                                             % (ac["entry"], sorted(ac["args"]), k, diff[:3]), "kf": None,
                                     "input": {**inp, "expected": m.get("expected"), "got": real}})
                break
    elif out["requests"]:
        res.failures.append({"what": "a receive entry point put a request", "kf": None, "input": inp})
    return out


def _check_pair(ctx, res, H, pc):
    out = H.run_pair_case(pc)
    inp = {"pair_case": pc}
    res.count("one-subroutine-requests:vary-" + pc["varied"])
    if out["raised"]:
        res.failures.append({"what": "several create calls in one subroutine raised " + out["raised"], "kf": None,
                             "input": inp})
        return out
    if out["stuck"]:
        res.failures.append({"what": "several create calls in one subroutine: a request never completed",
                             "kf": None, "input": inp})
        return out
    if len(out["requests"]) != len(pc["cases"]):
        res.failures.append({"what": "the stack received %d requests for %d calls" % (len(out["requests"]),
                                                                                       len(pc["cases"])),
                             "kf": None, "input": inp})
        return out
    res.nontrivial.add(json.dumps(pc, sort_keys=True))
    for k, (c, real) in enumerate(zip(pc["cases"], out["requests"])):
        m = ctx.driver.call({"op": "eprreq.request", **H.model_params(c)})
        if m.get("expected") != real:
            diff = [[a, b] for a, b in zip(m.get("expected") or [], real) if a != b]
            res.failures.append({"what": "request %d of %d in one subroutine (calls differ in %s): the stack "
                                         "received %s" % (k, len(pc["cases"]), pc["varied"], diff[:3]),
                                 "kf": None, "input": {**inp, "request": k, "expected": m.get("expected"), "got": real}})
            break
        if m.get("req") != real:
            res.disagreements.append({"stream": "eprreq.request (one subroutine)", "input": inp, "model": m.get("req"),
                                      "code": real})
            break
    return out


def _check_reuse(res, H, rc):
    out = H.run_reuse_case(rc)
    inp = {"reuse_case": rc}
    res.count("socket-reuse:%d-connections" % len(rc["phases"]))
    if out["raised"]:
        res.failures.append({"what": "socket reused on a second connection: raised " + out["raised"], "kf": None,
                             "input": inp})
        return out
    res.nontrivial.add(json.dumps(rc, sort_keys=True))
    bad = [(w, g, x) for w, g, x in out["checks"] if g != x]
    if bad:
        w, g, x = bad[0]
        res.failures.append({"what": "%s: got %s, the current network/request says %s" % (w, g, x), "kf": None,
                             "input": {**inp, "mismatches": [list(map(str, b)) for b in bad[:6]]}})
    return out


def _check_hw(ctx, res, H, c):
    inp = {"hw_case": c}
    res.count("hw:%s/%s/%s%s" % (c["hw"], c["role"], c["tp"], "/seq" if c["sequential"] and c["tp"] == "K" else ""))
    base = None
    try:
        if c["hw"] == "nv+transpiler" and c["tp"] == "K":
            base = H.run_hw_case({**c, "hw": "nv"})["pair_of_handle"]
        out = H.run_hw_case(c, base)
    except Exception as e:
        res.failures.append({"what": "harness/SDK raised %s: %s" % (type(e).__name__, e), "kf": None, "input": inp})
        return None
    if out["raised"]:
        res.failures.append({"what": "EPR call raised " + out["raised"], "kf": None, "input": inp})
        return out
    if out["stuck"]:
        res.failures.append({"what": "request never completed although every response was delivered",
                             "kf": None, "input": inp})
        return out
    res.nontrivial.add(json.dumps(c, sort_keys=True))
    bad = [(w, g, x) for w, g, x in out["checks"] if g != x]
    if bad:
        w, g, x = bad[0]
        res.failures.append({"what": "%s reads %s, the response of that pair has %s" % (w, g, x), "kf": None,
                             "input": {**inp, "pair_of_handle": out["pair_of_handle"],
                                       "mismatches": [list(map(str, b)) for b in bad[:6]]}})
    if out["layout"]:
        seq = bool(c["sequential"])
        m = ctx.driver.call({"op": "eprreq.layout", "nv": c["hw"] != "generic", "seq": seq, "n": c["number"]})
        if m.get("layout") != out["layout"]:
            res.disagreements.append({"stream": "eprreq.layout", "input": inp, "model": m.get("layout"),
                                      "code": out["layout"]})
        # the established location of pair k = virtual id of the returned qubit that holds it
        if not seq and out["pair_of_handle"]:
            loc = {pk: vid for (i, vid, _), pk in zip(out["layout"], out["pair_of_handle"])}
            real_loc = [loc.get(k) for k in range(c["number"])]
            if m.get("pairloc") != real_loc:
                res.disagreements.append({"stream": "eprreq.layout(pairloc)", "input": inp,
                                          "model": m.get("pairloc"), "code": real_loc})
    return out


def _check_program(res, H, pc):
    out = H.run_program_case(pc)
    inp = {"program": pc}
    res.count("program-calls:%d" % len(pc["calls"]))
    if pc["early"]:
        res.count("program-early-responses")
    if len({c["socket"] for c in pc["calls"]}) > 1:
        res.count("program-two-sockets")
    if out["raised"]:
        res.failures.append({"what": "host program raised " + out["raised"], "kf": None, "input": inp})
        return out
    if out["stuck"]:
        res.failures.append({"what": "a request never completed although every response of its queue was "
                                     "delivered", "kf": None, "input": inp})
        return out
    res.nontrivial.add(json.dumps(pc, sort_keys=True))
    bad = [(w, g, x) for w, g, x in out["checks"] if g != x]
    if bad:
        w, g, x = bad[0]
        res.failures.append({"what": "handle reads %s, the response generated for that pair has %s (%s)"
                                     % (g, x, w), "kf": None,
                             "input": {**inp, "mismatches": [list(map(str, b)) for b in bad[:6]]}})
    return out


def replay(ctx, payload):
    from harness import epr as H
    H.quiet()
    inp = (payload.get("failure") or {}).get("input") or {}
    if "qlink_response" in inp or "qlink_request" in inp:
        print("re-run of the compatibility-layer stream (the failing object is in the replay file):",
              json.dumps(inp)[:600])
        res = Result()
        _check_qlink_layer(ctx, res, H, ctx.rng, 300)
        for f in res.failures[:3]:
            print("FAIL:", f["what"])
        return 1 if res.failures else 0
    if "api_case" in inp:
        res = Result()
        _check_api(ctx, res, H, inp["api_case"])
        for f in res.failures:
            print("FAIL:", f["what"])
        return 1 if res.failures else 0
    if "pair_case" in inp:
        res = Result()
        _check_pair(ctx, res, H, inp["pair_case"])
        for f in res.failures:
            print("FAIL:", f["what"])
        return 1 if res.failures else 0
    if "reuse_case" in inp:
        res = Result()
        _check_reuse(res, H, inp["reuse_case"])
        for f in res.failures:
            print("FAIL:", f["what"])
        return 1 if res.failures else 0
    if "hw_case" in inp:
        res = Result()
        out = _check_hw(ctx, res, H, inp["hw_case"])
        print("pair held by each returned qubit:", out and out["pair_of_handle"], "layout:", out and out["layout"])
        for f in res.failures:
            print("FAIL:", f["what"])
        for d in res.disagreements:
            print("MODEL!=CODE:", d["stream"], d["model"], d["code"])
        return 1 if (res.failures or res.disagreements) else 0
    if "program" in inp:
        res = Result()
        out = _check_program(res, H, inp["program"])
        print("stuck:", out["stuck"], "raised:", out["raised"])
        for f in res.failures:
            print("FAIL:", f["what"])
        return 1 if res.failures else 0
    if "case" not in inp:
        print("replay file names no SDK case:", json.dumps(payload)[:800])
        return 1
    out = H.run_sdk_case(inp["case"], ctx.rng, inp.get("role", "create"))
    ok = True
    for req in out["requests"]:
        print("request:", H.canon_request(req))
        try:
            print("link layer accepts:", H.qlink_accepts(req))
        except Exception as e:
            print("link layer rejects:", type(e).__name__, e)
            ok = False
    print("handles:", out["handles"])
    return 0 if ok else 1
