"""C02 — fixed 7-byte wire layout, pinned opcode table."""
import json

from check import Result

PROP = "C02"
TARGETS = ["NetqasmVerif.Props.C02"]
M = "NetqasmVerif.Props.C02"
THEOREMS = [(M, "NQ.C02." + n) for n in [
    "regByte_eq_spec", "le32_eq_spec", "impl_eq_spec", "encodes_when_inRange", "le32_value", "sub_header",
    "core_table_pinned", "vanilla_table_pinned", "nv_table_pinned", "reids_table_pinned",
    "layout_probes_match", "shapes_fit", "cmd_layouts_canonical", "cmd_layouts_cover",
    "generic_pack_eq_model", "generic_unpack_eq_model"]]
TRANSLATORS = ["instr_table", "cmd_layouts"]
LEANCHECK_EXTRA = ["NetqasmVerif.Props.WireObligations", "NetqasmVerif.Props.CmdLayoutObligations"]
LEVEL_TEXT = "Lean theorems: whenever an instruction encodes, its bytes equal an independently written 7-byte spec encoding (opcode, operands in declared order, register byte = bank | idx<<2, LE two's complement, zero padding) for ALL operand values; subroutine header lemma; live tables equal the pinned wire table; the live ctypes struct layout of every class (leaf bit ranges from the ctypes descriptors, operand component per leaf) is kernel-decided to be the canonical sequential layout (cmd_layouts_canonical) and packing/unpacking through the generic ctypes struct model with that layout equals the model codec for ALL operand values / byte strings (generic_pack_eq_model, generic_unpack_eq_model); single-bit behavioural probes on top."
LEVEL_NOTE = 'Trusted: Lean kernel; the pinned table in Model/WireSpec.lean (transcribed from the pinned tree); translators + harness; ctypes stores a field at the offset / bit range its descriptor reports, two\'s complement, little endian (no linearity assumption: the layout is read from the descriptors and the equality with the model codec is a theorem; the single-bit probes validate the descriptors behaviourally).'
TECHNIQUE = 'Lean 4 proof + kernel-decided generated obligations (pinned table, single-bit layout probes) + differential correspondence'
TRUSTED = [
    "Lean 4.33 kernel; axioms at most propext, Classical.choice, Quot.sound (audited per theorem)",
    "Model/WireSpec.lean: the pinned instruction table, transcribed once from the pinned tree "
    "(no published table is available offline) — it is the interop contract",
    "translate/instr_table.py: rows and single-bit probes read from the live classes; "
    "translate/cmd_layouts.py: struct used by each class, leaf layout from the ctypes descriptors, "
    "operand component feeding each leaf",
    "ctypes stores a field's value at the byte offset / bit range its descriptor reports, two's "
    "complement, little endian (replaces the former 'bitwise linear' assumption)",
    "harness/codec.py: an independent Python reference encoder written from the statement",
]
ASSUMPTIONS = ["byte layout of ctypes structures on this platform (little-endian x86-64)"]


def run(ctx):
    from harness import codec as H
    res = Result()
    res.rule = ("every class of every flavour x walking-ones / boundary / random valuations; real bytes "
                "vs compiled Lean model and vs an independent Python reference encoder; non-trivial = "
                "some operand non-zero; distinct by (class, operands)")
    rng = ctx.rng
    pinned = H.pinned_table()
    # oracle 1: live tables against the pinned table
    for fname in H.FLAVOURS:
        live = [(c.id, c.mnemonic, H.shape_of(c)) for c in H.flavour_classes(fname)]
        want = pinned["core"] + pinned[fname]
        res.evaluations += 1
        if live != want:
            diff = [x for x in live if x not in want] + [x for x in want if x not in live]
            res.failures.append({"what": "live instruction table differs from the pinned wire table",
                                 "kf": None, "input": {"flavour": fname, "differing_rows": diff[:6]}})
    # walking ones for every field of every class + boundary/random instances
    cases = []
    seen = set()
    for fname in H.FLAVOURS:
        for c in H.flavour_classes(fname):
            if c in seen:
                continue
            seen.add(c)
            insts = H.instances_of(c, rng, 10 if ctx.thorough else 2, 150 if ctx.thorough else 20)
            # walking ones: one bit per field at a time
            shape = H.shape_of(c)
            fs = H.T.operand_fields(c)
            for (j, sub, bit, _pos) in H.T.canonical_bits(shape):
                args = {f.name: H.T.zero_operand(k, H.op, H.RegisterName) for f, k in zip(fs, shape)}
                args[fs[j].name] = H.T.make_operand(shape[j], sub, bit, H.op, H.RegisterName)
                insts.append(c(**args))
            for i in insts:
                cases.append((fname, c, i))
    reqs = [{"op": "codec.encode", "fl": f, "i": H.instr_to_json(i)} for f, c, i in cases]
    outs = ctx.driver.batch(reqs)
    dec_cases = []
    for (f, c, i), rq, mo in zip(cases, reqs, outs):
        res.evaluations += 1
        j = rq["i"]
        rb = H.real_encode(i)
        flat = json.dumps(j, sort_keys=True)
        if any(ch in flat for ch in "123456789"):
            res.nontrivial.add(flat)
        res.count("class:" + j["c"])
        if mo.get("b") != rb:
            res.disagreements.append({"stream": "codec.encode", "input": rq, "model": mo.get("b"), "code": rb})
        if rb is None:
            continue
        ref = H.spec_encode(c.id, H.shape_of(c), j["o"])
        if rb != ref or len(rb) != 7:
            res.failures.append({"what": "bytes differ from the 7-byte layout of the statement", "kf": None,
                                 "input": {"i": j, "real": rb, "reference": ref}})
        # read side: bytes in the published layout (reference encoder) must be read back by the
        # real decoder as the same instruction in every flavour that has the class
        rd = H.real_decode(f, ref)
        rdj = H.instr_to_json(rd) if rd is not None else None
        if rdj != j and not (f == "vanilla" and c.id == 41):  # opcode 41 clash is C01's finding F1
            res.failures.append({"what": "bytes in the published layout are not read back as the instruction",
                                 "kf": None, "input": {"fl": f, "i": j, "bytes": ref, "read": rdj}})
        dec_cases.append((f, ref, rdj))
        if len(res.samples) < 5 and res.evaluations % 211 == 0:
            res.samples.append({"i": j, "bytes": rb})
    outs = ctx.driver.batch([{"op": "codec.decode", "fl": f, "b": b} for f, b, _ in dec_cases])
    for (f, b, rdj), mo in zip(dec_cases, outs):
        res.evaluations += 1
        if mo.get("i") != rdj:
            res.disagreements.append({"stream": "codec.decode", "input": {"fl": f, "b": b},
                                      "model": mo.get("i"), "code": rdj})
    # concurrent encoders: several threads serialising at once must each get the published bytes
    # (no state may be shared between serialisations)
    import sys as _sys
    import threading
    # group classes by their serialize implementation (shared by all classes of one shape)
    groups = {}
    for (f, c, i) in cases:
        if H.T.operand_fields(c) and H.real_encode(i) is not None:
            g = groups.setdefault(c.serialize, {})
            g.setdefault(c, [])
            if len(g[c]) < 6:
                g[c].append(i)
    old_iv = _sys.getswitchinterval()
    _sys.setswitchinterval(1e-6)
    bad = []
    try:
        rounds = 600 if ctx.thorough else 150
        for g in groups.values():
            insts = [x for lst in g.values() for x in lst][:16]
            if len(insts) < 2:
                continue
            refs = [H.spec_encode(type(x).id, H.shape_of(type(x)), H.instr_to_json(x)["o"]) for x in insts]
            nthreads = 4
            barrier = threading.Barrier(nthreads)
            outs = [[] for _ in range(nthreads)]

            def worker(k, insts=insts, refs=refs, outs=outs, barrier=barrier):
                mine = list(zip(insts, refs))[k::2] if k < 2 else list(zip(insts, refs))[::-1]
                barrier.wait()
                for _ in range(rounds):
                    for inst, ref in mine:
                        try:
                            b = list(bytes(inst.serialize()))
                        except Exception:
                            b = None
                        if b != ref and len(outs[k]) < 3:
                            outs[k].append((H.instr_to_json(inst), b, ref))

            ths = [threading.Thread(target=worker, args=(k,)) for k in range(nthreads)]
            for t in ths:
                t.start()
            for t in ths:
                t.join()
            res.evaluations += 1
            res.count("concurrent-shape-group")
            for o in outs:
                bad += o
    finally:
        _sys.setswitchinterval(old_iv)
    for (j, b, ref) in bad[:5]:
        res.failures.append({"what": "bytes differ from the published layout when several threads serialise "
                                     "concurrently", "kf": None, "input": {"i": j, "real": b, "reference": ref}})
    # whole subroutines through bytes(Subroutine) (a different code path than instr.serialize()), and
    # instruction objects that are serialised, edited in place (incl. their mutable operands) and
    # serialised again: the bytes must be the published layout of the CURRENT operands
    def ref_bytes(inst):
        return H.spec_encode(type(inst).id, H.shape_of(type(inst)), H.instr_to_json(inst)["o"])

    allc = [c for c in H.flavour_classes("nv") if H.T.operand_fields(c)]
    entc = [c for c in allc if any(k in ("entry", "slice") for k in H.shape_of(c))]
    for _ in range(300 if ctx.thorough else 60):
        instrs = []
        for _k in range(rng.randrange(2, 9)):
            c = rng.choice(entc if rng.random() < 0.35 else allc)
            fs = H.T.operand_fields(c)
            instrs.append(c(**{f.name: rng.choice(H.values_for(k, rng, 1)) for f, k in zip(fs, H.shape_of(c))}))
        # near-duplicates differing in one value (e.g. -1 / -2) within one subroutine
        if rng.random() < 0.6:
            c = rng.choice([x for x in allc if "int32" in H.shape_of(x) or "addr" in H.shape_of(x)])
            fs = H.T.operand_fields(c)
            for v in (-1, -2, 0, 1):
                args = {}
                for f, k in zip(fs, H.shape_of(c)):
                    args[f.name] = (H.op.Immediate(v) if k == "int32" else H.op.Address(v) if k == "addr"
                                    else H.values_for(k, rng, 0)[0])
                instrs.append(c(**args))
        # debug markers (emitted by the NV transpiler with debug=True) serialise to nothing
        from netqasm.lang.instr.base import DebugInstruction
        if rng.random() < 0.4:
            for _k in range(rng.randrange(1, 4)):
                instrs.insert(rng.randrange(len(instrs) + 1), DebugInstruction(text="dbg %d" % _k))
        app = rng.randrange(65536)
        steps = []
        for _round in range(3):
            res.evaluations += 1
            res.count("subroutine-bytes")
            try:
                rb = list(bytes(H.Subroutine(instructions=instrs, app_id=app)))
            except Exception:
                rb = None
            want = [0, 10, app & 255, app >> 8]
            try:
                ver = list(H.Subroutine(instructions=[], app_id=0).netqasm_version)
                want = ver + [app & 255, app >> 8]
                for i in instrs:
                    if not isinstance(i, DebugInstruction):
                        want += ref_bytes(i)
            except Exception:
                want = None
            if rb != want:
                res.failures.append({"what": "bytes(Subroutine) differ from the published layout of its current "
                                             "instructions", "kf": None,
                                     "input": {"is": [("debug-marker" if isinstance(i, DebugInstruction) else
                                                       H.instr_to_json(i)) for i in instrs], "app": app,
                                               "edits_before": steps}})
                break
            # edit in place and go round again
            cands = [o for i in instrs if not isinstance(i, DebugInstruction) for o in i.operands]
            rng.shuffle(cands)
            for o in cands:
                if H.mutate_operand_in_place(o, rng):
                    steps.append("edit-operand-in-place")
                    break
            i = rng.choice([x for x in instrs if not isinstance(x, DebugInstruction)])
            fs = H.T.operand_fields(type(i))
            k = rng.randrange(len(fs))
            setattr(i, fs[k].name, rng.choice(H.values_for(H.shape_of(type(i))[k], rng, 1)))
            steps.append("assign-field")
    # header after instantiate(): the app id on the wire is the one the subroutine was instantiated for
    from netqasm.lang.parsing.text import parse_text_subroutine
    for _ in range(40 if ctx.thorough else 12):
        a0, a1, a2 = rng.randrange(65536), rng.randrange(65536), rng.randrange(65536)
        try:
            sub = parse_text_subroutine("# NETQASM 1.0\n# APPID %d\nset R0 1\n" % a0)
            before = list(bytes(sub))[:4]
            sub.instantiate(app_id=a1)
            mid = list(bytes(sub))[:4]
            sub.instantiate(app_id=a2)
            after = list(bytes(sub))[:4]
        except Exception as exc:
            res.failures.append({"what": "instantiate/serialise raises", "kf": None, "input": {"error": str(exc)[:200]}})
            continue
        res.evaluations += 1
        res.count("header-after-instantiate")
        v = list(sub.netqasm_version)
        want = [v + [a & 255, a >> 8] for a in (a0, a1, a2)]
        if [before, mid, after] != want:
            res.failures.append({"what": "subroutine header does not carry the app id the subroutine was instantiated for",
                                 "kf": None, "input": {"app_ids": [a0, a1, a2], "headers": [before, mid, after]}})
    # process-wide configuration (hardware flag, simulator selection, log level): the wire format is an interop
    # contract and must not depend on any of it — every class once per configuration, via instr.serialize(),
    # via bytes(Subroutine) and on the read side
    from netqasm.lang.instr.base import DebugInstruction as _Dbg
    for (cname, enter, leave) in H.global_configs():
        try:
            tok = enter()
        except Exception:
            continue  # the knob does not accept this value
        try:
            for fname in H.FLAVOURS:
                insts = []
                for c in H.flavour_classes(fname):
                    got = H.instances_of(c, rng, 1, 3)
                    insts.append(got[-1])
                app = rng.randrange(65536)
                want = None
                for i in insts:
                    res.evaluations += 1
                    res.count("config:" + cname.split("(")[0].split("=")[0])
                    j = H.instr_to_json(i)
                    ref = H.spec_encode(type(i).id, H.shape_of(type(i)), j["o"])
                    rb = H.real_encode(i)
                    if rb != ref:
                        res.failures.append({"what": "bytes differ from the 7-byte layout of the statement under a "
                                                     "process-wide configuration", "kf": None,
                                             "input": {"config": cname, "i": j, "real": rb, "reference": ref}})
                        break
                    rd = H.real_decode(fname, ref)
                    rdj = H.instr_to_json(rd) if rd is not None else None
                    if rdj != j and not (fname == "vanilla" and type(i).id == 41):
                        res.failures.append({"what": "bytes in the published layout are not read back as the "
                                                     "instruction under a process-wide configuration", "kf": None,
                                             "input": {"config": cname, "fl": fname, "i": j, "read": rdj}})
                        break
                try:
                    sub = H.Subroutine(instructions=insts, app_id=app)
                    rb = list(bytes(sub))
                    want = list(sub.netqasm_version) + [app & 255, app >> 8]
                    for i in insts:
                        want += H.spec_encode(type(i).id, H.shape_of(type(i)), H.instr_to_json(i)["o"])
                except Exception as exc:
                    rb = "raises " + type(exc).__name__
                res.evaluations += 1
                if rb != want:
                    res.failures.append({"what": "bytes(Subroutine) differ from the published layout under a "
                                                 "process-wide configuration", "kf": None,
                                         "input": {"config": cname, "fl": fname, "app": app,
                                                   "len_real": len(rb) if isinstance(rb, list) else rb,
                                                   "len_want": len(want) if want else None}})
        finally:
            leave(tok)
    # subroutine header
    for app in [0, 1, 255, 256, 0x1234, 65535] + [rng.randrange(65536) for _ in range(20)]:
        for ver in [(0, 0), (0, 10), (255, 1), (rng.randrange(256), rng.randrange(256))]:
            res.evaluations += 1
            rb = H.real_encode_sub([], app, ver)
            want = [ver[0], ver[1], app & 255, app >> 8]
            if rb != want:
                res.failures.append({"what": "subroutine header differs from version bytes + LE16 app id",
                                     "kf": None, "input": {"app": app, "version": ver, "real": rb}})
            mo = ctx.driver.call({"op": "codec.encsub", "fl": "vanilla", "v0": ver[0], "v1": ver[1],
                                  "app": app, "is": []})
            if mo.get("b") != rb:
                res.disagreements.append({"stream": "codec.encsub", "input": {"app": app, "ver": ver},
                                          "model": mo.get("b"), "code": rb})
    return res
