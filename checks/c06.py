"""C06 — pre-compiled templated subroutines equal direct compilation."""
import json

from check import Result

PROP = "C06"
TARGETS = ["NetqasmVerif.Props.C06"]
M = "NetqasmVerif.Props.C06"
THEOREMS = [(M, "NQ.C06." + n) for n in [
    "instantiate_concrete", "instantiate_rotation", "instantiate_encode",
    "builder_positions_accepted", "accepted_positions_exempt", "templatesExempt_mono",
    "subst_assemble", "compile_commit_eq_flush", "compile_commit_eq_flush_init",
    "nothing_left_after", "f7_old_counterexample",
    "compile_commit_eq_flush_interleaved", "reset_at_commit_counterexample",
    "instantiate_pure", "instantiate_failed_unchanged", "instantiate_reuse", "instantiate_reuse_total",
    "inplace_counterexample", "assignLabel_subst", "label_named_template_counterexample"]]
TRANSLATORS = ["template_table"]
LEVEL_TEXT = (
    "Lean theorems: (1) instantiate substitutes template operands in place, so the instantiated "
    "subroutine is the instruction list written with the values and has the same bytes (any table, "
    "any length); (2) the assembler's constant replacement commutes with substitution for commands "
    "whose templates sit where the builder can emit them — the live exception table, the positions "
    "where from_operands keeps a Template and the builder's template positions are regenerated from "
    "/repo and the inclusions decided by the kernel; (3) compile_commit_eq_flush: for EVERY history of "
    "segments (any builder activity; flush or compile+instantiate+commit) the subroutines sent and the "
    "final builder bookkeeping of the pre-compiled flow equal those of the program written with the "
    "values and flushed (induction over the history); instantiate is a pure function of (template, "
    "values): any sequence of instantiations of one compiled template, complete or failing, yields "
    "each call's own instance and leaves the template unchanged (instantiate_reuse); "
    "also when operations are built between "
    "compile and commit and several compiled subroutines are outstanding (committed oldest first; "
    "compile_commit_eq_flush_interleaved), modelling compile() after the fix for F7 "
    "(witness for the old code proved). Tie: differential stream of the compiled bookkeeping model "
    "against the real connection after every operation, plus real-vs-real comparison of bytes, "
    "controller trace, arrays, shared memory and bookkeeping of both flows on the in-process pipeline.")
LEVEL_NOTE = (
    "Trusted: Lean kernel; translate/template_table.py; harness/precompile.py. The assembler pass is "
    "modelled on top-level operands only (bracket constants and label assignment belong to C03); the "
    "NV transpiler is covered by the real-vs-real byte/trace comparison (simulation mode), not by a "
    "theorem; pending commands are opaque rendered payload in the bookkeeping model.")
# check.py's generic alt-config pass (thorough tier) is switched off: the NV transpiler's hardware-mode rescaling of rotation angles reads Template.value and raises AttributeError for a templated rotation on the pinned tree; the property quantifies over 'with and without the NV transpiler', not over the hardware flag, so the flag stays off here (observation recorded in DESIGN 0.2)
ALT_CONFIG = False
TECHNIQUE = ("Lean 4 proof (induction over instruction lists, operand lists and connection histories) "
             "+ kernel-decided generated obligations + differential correspondence + real-vs-real oracle")
TRUSTED = [
    "Lean 4.33 kernel; axioms at most propext, Classical.choice, Quot.sound (audited per theorem)",
    "translate/template_table.py: exception table, template-accepting operand positions (probed on "
    "every vanilla/NV class) and builder template positions (probed on the rotation entry points)",
    "harness/precompile.py: both flows on the real in-process SDK -> bytes -> Executor pipeline; "
    "proto-subroutines captured by wrapping builder.subrt_compile_subroutine on the instance",
]
ASSUMPTIONS = [
    "a re-used template block contains only gates/rotations on live qubits (a block that allocates "
    "qubits or arrays cannot be executed twice) and its instances are committed right after compile",
    "compiled subroutines are committed oldest first and an ordinary flush only happens while no "
    "compiled subroutine is uncommitted (otherwise the controller legitimately sees another order)",
    "templates occur in rotation angle operands (the only SDK entry points that accept them)",
    "arrays are created without initial values; return_arrays=True",
    "NV transpiler in simulation mode (rotations pass through with their (n, d) operands)",
]

F7_SEGS = [{"body": [{"k": "new"}, {"k": "rot", "h": 0, "axis": "X", "n": {"t": "a"}, "d": 4},
                     {"k": "meas", "h": 0, "mode": "array", "inplace": False}],
            "pre": {"a": 16}}]
# operations queued between compile() and commit_subroutine(), two subroutines outstanding
INTERLEAVED = {"cfg": {"nv": False, "transp": False, "maxq": 5}, "events": [
    {"k": "new"}, {"k": "rot", "h": 0, "axis": "X", "n": {"t": "a"}, "d": 4},
    {"k": "meas", "h": 0, "mode": "array", "inplace": False},
    {"k": "compile", "vals": {"a": 5}},
    {"k": "new"}, {"k": "gate", "h": 1, "g": 1}, {"k": "meas", "h": 1, "mode": "array", "inplace": True},
    {"k": "compile", "vals": {}},
    {"k": "array", "len": 2}, {"k": "meas", "h": 1, "mode": "reg", "inplace": False},
    {"k": "commit"}, {"k": "commit"}, {"k": "flush"}]}


# one compiled template committed three times with different values (shallow copies), then a
# template whose first instantiate lacks an argument and is retried
REUSE = {"cfg": {"nv": False, "transp": False, "maxq": 5}, "events": [
    {"k": "new"}, {"k": "gate", "h": 0, "g": 0}, {"k": "flush"},
    {"k": "rot", "h": 0, "axis": "Z", "n": {"t": "a"}, "d": 4}, {"k": "rot", "h": 0, "axis": "X", "n": {"t": "b"}, "d": 3},
    {"k": "compile", "vals": {"a": 3, "b": 1}, "more": [{"a": 9, "b": 5}, {"a": 30, "b": 2}], "copy": "copy"},
    {"k": "commit"}, {"k": "commit"}, {"k": "commit"},
    {"k": "rot", "h": 0, "axis": "Z", "n": {"t": "a"}, "d": 4}, {"k": "rot", "h": 0, "axis": "X", "n": {"t": "b"}, "d": 3},
    {"k": "compile", "vals": {"a": 5, "b": 7}, "partial": {"a": 1}, "partial_at": 0, "copy": "self"},
    {"k": "commit"}]}


# the same templated block built and compiled twice with different values (identical text)
SAME_BLOCK = {"cfg": {"nv": False, "transp": False, "maxq": 5}, "events": [
    {"k": "new"}, {"k": "flush"},
    {"k": "rot", "h": 0, "axis": "Z", "n": {"t": "a"}, "d": 4}, {"k": "meas", "h": 0, "mode": "reg", "inplace": True},
    {"k": "compile", "vals": {"a": 3}, "same_block": True}, {"k": "commit"},
    {"k": "rot", "h": 0, "axis": "Z", "n": {"t": "a"}, "d": 4}, {"k": "meas", "h": 0, "mode": "reg", "inplace": True},
    {"k": "compile", "vals": {"a": 200}, "same_block": True}, {"k": "commit"}]}


# a handle read, then a PRE-COMPILED block rewrites that entry / a live register, then read again
REREAD = {"cfg": {"nv": False, "transp": False, "maxq": 5}, "events": [
    {"k": "new"}, {"k": "meas", "h": 0, "mode": "array", "inplace": True}, {"k": "newreg", "init": 5},
    {"k": "flush"}, {"k": "read", "t": "f", "i": 0}, {"k": "read", "t": "r", "i": 0},
    {"k": "fadd", "f": 0, "v": 3}, {"k": "radd", "r": 0, "v": 1},
    {"k": "rot", "h": 0, "axis": "X", "n": {"t": "a"}, "d": 2},
    {"k": "compile", "vals": {"a": 7}}, {"k": "commit"},
    {"k": "read", "t": "f", "i": 0}, {"k": "read", "t": "r", "i": 0},
    {"k": "radd", "r": 0, "v": 2}, {"k": "flush"}, {"k": "read", "t": "r", "i": 0}]}


def run(ctx):
    from harness import precompile as H
    res = Result()
    res.rule = ("random host programs: blocks of qubit creation, gates, rotations with template or "
                "constant angles 0..255, cnot, measurements into arrays/registers, new arrays; a block "
                "ends with flush or compile; compiled subroutines are instantiated and committed oldest "
                "first, immediately or while later blocks are being built (several outstanding); generic "
                "and NV configs, with and without NVSubroutineTranspiler, closing close(); non-trivial = "
                "at least one pre-compiled block containing a template; distinct by program")
    rng = ctx.rng
    F7_WITNESS = {"cfg": {"nv": False, "transp": False, "maxq": 5}, "events": H.segs_to_events(F7_SEGS)}

    def fail(what, prog, detail):
        res.failures.append({"what": what, "kf": None, "input": {"prog": prog, "detail": detail}})

    def one(prog, stream):
        outcomes = [rng.randrange(2) for _ in range(40)]
        P = H.run_flow(prog, "P", outcomes)
        D = H.run_flow(prog, "D", outcomes)
        res.evaluations += 1
        cfg = prog["cfg"]
        res.count("cfg:%s%s" % ("nv" if cfg["nv"] else "generic", "+transp" if cfg["transp"] else ""))
        for st in prog["events"]:
            res.count("event:" + st["k"])
        if any(st["k"] == "radd" for st in prog["events"]):
            res.count("live register (new_register) modified by a later block")
        flat = [b for st in prog["events"] for b in [st] + list(st.get("steps", []))]
        has_t = any(isinstance(st.get("n"), dict) for st in flat)
        names = {st["n"]["t"] for st in flat if isinstance(st.get("n"), dict)}
        if names & set(H.NAMES):
            res.count("template names: adversarial (label-, register-, macro-, mnemonic-like)")
        if any(isinstance(b.get("n"), dict) for st in prog["events"] for b in st.get("steps", [])):
            res.count("templated rotation inside a loop / conditional block")
        if has_t:
            res.nontrivial.add(json.dumps(prog, sort_keys=True))
        if any(e["k"] in H.BUILD_KINDS and 0 < P["events"][i - 1]["outstanding"]
               for i, e in enumerate(prog["events"]) if i > 0 and i < len(P["events"])):
            res.count("interleaved: operation built while a compiled subroutine is uncommitted")
        if any(r["outstanding"] >= 2 for r in P["events"]):
            res.count("interleaved: two or more compiled subroutines outstanding")
        if P["error"] or D["error"]:
            res.count("flow-error")
            # no program of this vocabulary raises on a healthy tree (neither flow)
            fail("flows raise differently" if P["error"] != D["error"] else "both flows raise",
                 prog, {"P": P["error"], "D": D["error"], "P_msgs": P["msgs"], "D_msgs": D["msgs"]})
            return P, D
        # ---- oracle: real vs real
        bad = None
        if P["msgs"] != D["msgs"]:
            k = next((i for i, (a, b) in enumerate(zip(P["msgs"], D["msgs"])) if a != b),
                     min(len(P["msgs"]), len(D["msgs"])))
            bad = ("bytes sent differ (message %d)" % k,
                   {"P": P["msgs"][k:k + 1], "D": D["msgs"][k:k + 1]})
        for i, (rp, rd) in enumerate(zip(P["events"], D["events"])):
            if bad:
                break
            where = "after event %d (%s)" % (i, prog["events"][i]["k"])
            if rp["outstanding"] == 0 and rp["bk"] != rd["bk"]:
                # (while a compiled subroutine is uncommitted only the model is compared strictly)
                bad = ("builder bookkeeping differs " + where, {"P": rp["bk"], "D": rd["bk"]})
            elif rp["read"] != rd["read"]:
                bad = ("the host reads a different value through a handle " + where,
                       {"P": rp["read"], "D": rd["read"], "handle": prog["events"][i]})
            elif rp["handles"] != rd["handles"]:
                bad = ("qubit handles differ " + where, {"P": rp["handles"], "D": rd["handles"]})
            elif rp["note"]:
                bad = ("harness: " + rp["note"], None)
            elif rp["outstanding"] == 0:
                # synchronisation point: the controller has received the same subroutines
                if rp["nmsgs"] != rd["nmsgs"]:
                    bad = ("number of messages differs " + where, {"P": rp["nmsgs"], "D": rd["nmsgs"]})
                elif P["trace"][:rp["ntrace"]] != D["trace"][:rd["ntrace"]] or rp["ntrace"] != rd["ntrace"]:
                    bad = ("controller trace differs " + where, None)
                elif rp["state"] != rd["state"]:
                    bad = ("controller arrays / shared memory differ " + where,
                           {"P": rp["state"], "D": rd["state"]})
        if not bad and P["trace"] != D["trace"]:
            bad = ("controller trace differs at the end", None)
        if not bad and P["close"] != D["close"]:
            bad = ("state after close() differs", {"P": P["close"], "D": D["close"]})
        if not bad and P["futures"] != D["futures"]:
            bad = ("host-visible values differ after close()", {"P": P["futures"], "D": D["futures"]})
        if bad:
            fail(bad[0], prog, bad[1])
        # ---- correspondence with the bookkeeping model
        rewritten = any(r.get("rewrite") for r in P["events"])
        reused = any(st.get("more") for st in prog["events"])
        if reused:
            res.count("re-use: one compiled template instantiated several times")
        if any(st.get("same_block") for st in prog["events"]):
            res.count("re-use: the same block built and compiled again with new values")
        if any("partial" in st for st in prog["events"]):
            res.count("re-use: failed instantiate (missing argument) retried")
        req, idx = H.model_request(prog, P)
        model = ctx.driver.call(req)
        msteps = model["steps"]
        # ---- correspondence: instantiate as a pure function of (template, values)
        for trec in P["templates"]:
            if not trec["calls"]:
                continue
            mi = ctx.driver.call(H.inst_request(trec))
            if mi["r"] != trec["results"]:
                res.disagreements.append({"stream": stream + ".instantiate", "input": {"prog": prog, "t": trec["t"], "calls": trec["calls"]},
                                          "model": mi["r"], "code": trec["results"]})
            if trec["after"] is not None and mi["t"] != trec["after"]:
                res.disagreements.append({"stream": stream + ".template-after-instantiate", "input": {"prog": prog, "t": trec["t"], "calls": trec["calls"]},
                                          "model": mi["t"], "code": trec["after"]})
        last = None
        for i, rp in enumerate(P["events"]):
            if idx[i] is None:
                # a further instance of a re-used template: bookkeeping must not move
                if last is not None and rp["bk"] != last:
                    res.disagreements.append({"stream": stream + ".bookkeeping-reuse", "input": {"prog": prog, "event": i},
                                              "model": last, "code": rp["bk"]})
                    break
                continue
            last = rp["bk"]
            ms = msteps[idx[i]] if idx[i] < len(msteps) else None
            if ms is None:
                res.disagreements.append({"stream": stream + ".vocabulary", "input": {"prog": prog, "event": i},
                                          "model": None, "code": rp["bk"]})
                break
            mbk = dict(ms["bk"])
            rbk = dict(rp["bk"])
            if rewritten:
                mbk.pop("pending"), rbk.pop("pending")
            if mbk != rbk or (not reused and ms["queue"] != rp["outstanding"]):
                res.disagreements.append({"stream": stream + ".bookkeeping", "input": {"prog": prog, "event": i},
                                          "model": ms, "code": {"bk": rp["bk"], "outstanding": rp["outstanding"]}})
                break
        else:
            if len(msteps) == len(req["events"]) and msteps[-1] is not None:
                if msteps[-1]["bk"] != P["close"]["bk"]:
                    res.disagreements.append({"stream": stream + ".bookkeeping-close", "input": {"prog": prog},
                                              "model": msteps[-1]["bk"], "code": P["close"]["bk"]})
                if rewritten:
                    res.count("model:subroutines-skipped(peephole rewrote pending commands)")
                else:
                    for name, flow in (("P", P), ("D", D)):
                        if name == "D" and reused:
                            continue  # the direct flow builds and flushes the block once per round
                        if model["subs"] != flow["protos"]:
                            res.disagreements.append({"stream": stream + ".subroutines-" + name, "input": {"prog": prog},
                                                      "model": model["subs"], "code": flow["protos"]})
        return P, D

    P, D = one(F7_WITNESS, "tpl.corpus")
    res.samples.append({"prog": F7_WITNESS, "futures": P["futures"], "msgs": len(P["msgs"] or [])})
    P, D = one(INTERLEAVED, "tpl.corpus")
    P, D = one(REUSE, "tpl.corpus")
    P, D = one(REREAD, "tpl.corpus")
    res.samples.append({"prog": REREAD, "reads": [r["read"] for r in P["events"] if r["read"] is not None]})
    P, D = one(SAME_BLOCK, "tpl.corpus")
    P, D = one(dict(SAME_BLOCK, cfg={"nv": True, "transp": True, "maxq": 3}), "tpl.corpus")
    res.samples.append({"prog": REUSE, "msgs": len(P["msgs"] or [])})
    res.samples.append({"prog": INTERLEAVED, "futures": P["futures"], "msgs": len(P["msgs"] or [])})
    n = 24000 if ctx.thorough else 1700
    for it in range(n):
        prog = H.random_program(rng, ctx.thorough)
        P, D = one(prog, "tpl.random")
        if len(res.samples) < 5 and it % 41 == 0:
            res.samples.append({"prog": prog, "futures": P["futures"]})
    # all template values 0..255 on one fixed program shape
    for v in (range(256) if ctx.thorough else range(0, 256, 5)):
        segs = [{"body": [{"k": "new"}, {"k": "rot", "h": 0, "axis": "XYZ"[v % 3], "n": {"t": "a"}, "d": v % 8},
                          {"k": "rot", "h": 0, "axis": "Z", "n": {"t": "b"}, "d": 4},
                          {"k": "meas", "h": 0, "mode": "reg" if v % 5 == 0 else "array", "inplace": False}],
                 "pre": {"a": v, "b": 255 - v}},
                {"body": [{"k": "new"}, {"k": "meas", "h": 1, "mode": "array", "inplace": False}], "pre": None}]
        prog = {"cfg": {"nv": v % 2 == 1, "transp": v % 4 == 3, "maxq": 3}, "events": H.segs_to_events(segs)}
        one(prog, "tpl.values")
    return res


def replay(ctx, payload):
    from harness import precompile as H
    prog = payload["failure"]["input"]["prog"]
    P = H.run_flow(prog, "P", [0] * 40)
    D = H.run_flow(prog, "D", [0] * 40)
    same = all(P[k] == D[k] for k in ("futures", "error", "msgs", "trace", "close")) and \
        [r["bk"] for r in P["events"]] == [r["bk"] for r in D["events"]]
    print(json.dumps({"P": P["futures"], "D": D["futures"], "P_msgs": P["msgs"], "D_msgs": D["msgs"],
                      "same": same}))
    return 0 if same else 1
