"""C06 — pre-compiled templated subroutines equal direct compilation."""
import json

from check import Result

PROP = "C06"
TARGETS = ["NetqasmVerif.Props.C06"]
M = "NetqasmVerif.Props.C06"
THEOREMS = [(M, "NQ.C06." + n) for n in [
    "instantiate_concrete", "instantiate_rotation", "instantiate_encode",
    "builder_positions_accepted", "accepted_positions_exempt", "templatesExempt_mono",
    "subst_assemble", "compile_commit_eq_flush", "compile_commit_eq_flush_init",
    "nothing_left_after", "f7_old_counterexample"]]
TRANSLATORS = ["template_table"]
LEVEL_TEXT = (
    "Lean theorems: (1) instantiate substitutes template operands in place, so the instantiated "
    "subroutine is the instruction list written with the values and has the same bytes (any table, "
    "any length); (2) the assembler's constant replacement commutes with substitution for commands "
    "whose templates sit where the builder can emit them — the live exception table, the positions "
    "where from_operands keeps a Template and the builder's template positions are regenerated from "
    "/repo and the inclusions decided by the kernel; (3) compile_commit_eq_flush: for EVERY history of "
    "segments (any builder activity; flush or compile+instantiate+commit) the subroutines sent and the "
    "final builder bookkeeping of the pre-compiled flow equal those of the program written with the "
    "values and flushed (induction over the history), modelling compile() after the fix for F7 "
    "(witness for the old code proved). Tie: differential stream of the compiled bookkeeping model "
    "against the real connection after every operation, plus real-vs-real comparison of bytes, "
    "controller trace, arrays, shared memory and bookkeeping of both flows on the in-process pipeline.")
LEVEL_NOTE = (
    "Trusted: Lean kernel; translate/template_table.py; harness/precompile.py. The assembler pass is "
    "modelled on top-level operands only (bracket constants and label assignment belong to C03); the "
    "NV transpiler is covered by the real-vs-real byte/trace comparison (simulation mode), not by a "
    "theorem; pending commands are opaque rendered payload in the bookkeeping model.")
TECHNIQUE = ("Lean 4 proof (induction over instruction lists, operand lists and connection histories) "
             "+ kernel-decided generated obligations + differential correspondence + real-vs-real oracle")
TRUSTED = [
    "Lean 4.33 kernel; axioms at most propext, Classical.choice, Quot.sound (audited per theorem)",
    "translate/template_table.py: exception table, template-accepting operand positions (probed on "
    "every vanilla/NV class) and builder template positions (probed on the rotation entry points)",
    "harness/precompile.py: both flows on the real in-process SDK -> bytes -> Executor pipeline; "
    "proto-subroutines captured by wrapping builder.subrt_compile_subroutine on the instance",
]
ASSUMPTIONS = [
    "templates occur in rotation angle operands (the only SDK entry points that accept them)",
    "arrays are created without initial values; return_arrays=True",
    "NV transpiler in simulation mode (rotations pass through with their (n, d) operands)",
]

F7_WITNESS = {"cfg": {"nv": False, "transp": False, "maxq": 5},
              "segs": [{"body": [{"k": "new"}, {"k": "rot", "h": 0, "axis": "X", "n": {"t": "a"}, "d": 4},
                                 {"k": "meas", "h": 0, "mode": "array", "inplace": False}],
                        "pre": {"a": 16}}]}


def run(ctx):
    from harness import precompile as H
    res = Result()
    res.rule = ("random host programs (1-4 segments of qubit creation, gates, rotations with template or "
                "constant angles 0..255, cnot, measurements into arrays/registers, new arrays; each "
                "segment ends with flush or compile/instantiate/commit), generic and NV configs, with "
                "and without NVSubroutineTranspiler, closing close(); non-trivial = at least one "
                "pre-compiled segment containing a template; distinct by program")
    rng = ctx.rng

    def fail(what, prog, detail):
        res.failures.append({"what": what, "kf": None, "input": {"prog": prog, "detail": detail}})

    def one(prog, stream):
        outcomes = [rng.randrange(2) for _ in range(40)]
        P = H.run_flow(prog, "P", outcomes)
        D = H.run_flow(prog, "D", outcomes)
        res.evaluations += 1
        cfg = prog["cfg"]
        res.count("cfg:%s%s" % ("nv" if cfg["nv"] else "generic", "+transp" if cfg["transp"] else ""))
        for seg in prog["segs"]:
            res.count("term:" + ("flush" if seg["pre"] is None else "precompile"))
            for st in seg["body"]:
                res.count("step:" + st["k"])
        has_t = any(isinstance(st.get("n"), dict) for seg in prog["segs"] for st in seg["body"])
        if has_t:
            res.nontrivial.add(json.dumps(prog, sort_keys=True))
        if P["error"] or D["error"]:
            res.count("flow-error")
            # no program of this vocabulary raises on a healthy tree (neither flow)
            fail("flows raise differently" if P["error"] != D["error"] else "both flows raise",
                 prog, {"P": P["error"], "D": D["error"]})
            return P, D
        # ---- oracle: real vs real
        for i, (sp, sd) in enumerate(zip(P["segs"] + [P["close"]], D["segs"] + [D["close"]])):
            where = "close" if i == len(P["segs"]) else "segment %d" % i
            if sp["bytes"] != sd["bytes"]:
                fail("bytes sent differ at " + where, prog, {"P": sp["bytes"], "D": sd["bytes"]})
            elif sp["trace"] != sd["trace"]:
                fail("controller trace differs at " + where, prog, {"P": sp["trace"], "D": sd["trace"]})
            elif sp["state"] != sd["state"]:
                fail("controller arrays / shared memory differ at " + where, prog,
                     {"P": sp["state"], "D": sd["state"]})
            elif sp["bk"] != sd["bk"]:
                fail("builder bookkeeping differs after " + where, prog, {"P": sp["bk"], "D": sd["bk"]})
        for i, (a, b) in enumerate(zip(P["steps"], D["steps"])):
            if [s["bk"] for s in a] != [s["bk"] for s in b]:
                fail("builder bookkeeping differs inside segment %d" % i, prog, None)
        if P["futures"] != D["futures"]:
            fail("host-visible values differ after close()", prog, {"P": P["futures"], "D": D["futures"]})
        # ---- correspondence with the bookkeeping model
        model = ctx.driver.call(H.model_request(prog, P))["segs"]
        real_segs = P["segs"] + [P["close"]]
        for i, (ms, rs) in enumerate(zip(model, real_segs)):
            steps = P["steps"][i] if i < len(P["steps"]) else []
            rewritten = any(s["rewrite"] for s in steps)
            if [s["bk"] for s in steps] != ms["steps"] and not rewritten:
                res.disagreements.append({"stream": stream + ".bookkeeping-steps", "input": {"prog": prog, "seg": i},
                                          "model": ms["steps"], "code": [s["bk"] for s in steps]})
            if ms["bk"] != rs["bk"]:
                res.disagreements.append({"stream": stream + ".bookkeeping", "input": {"prog": prog, "seg": i},
                                          "model": ms["bk"], "code": rs["bk"]})
            if rewritten:
                res.count("model:sub-skipped(peephole rewrote pending commands)")
                continue
            vals = prog["segs"][i]["pre"] if i < len(prog["segs"]) else None
            real_sub = rs["proto"]
            if real_sub is not None and vals is not None:
                real_sub = H.subst_rendered(real_sub, vals)
            if ms["sub"] != real_sub:
                res.disagreements.append({"stream": stream + ".subroutine", "input": {"prog": prog, "seg": i},
                                          "model": ms["sub"], "code": real_sub})
            # the direct flow's proto-subroutine is the instantiated one
            dsub = (D["segs"] + [D["close"]])[i]["proto"]
            if ms["sub"] != dsub:
                res.disagreements.append({"stream": stream + ".subroutine-direct", "input": {"prog": prog, "seg": i},
                                          "model": ms["sub"], "code": dsub})
        return P, D

    P, D = one(F7_WITNESS, "tpl.corpus")
    res.samples.append({"prog": F7_WITNESS, "futures": P["futures"], "close_bytes": P["close"]["bytes"] if P["close"] else None})
    n = 30000 if ctx.thorough else 2500
    for it in range(n):
        prog = H.random_program(rng, ctx.thorough)
        P, D = one(prog, "tpl.random")
        if len(res.samples) < 5 and it % 41 == 0:
            res.samples.append({"prog": prog, "futures": P["futures"]})
    # all template values 0..255 on one fixed program shape
    for v in (range(256) if ctx.thorough else range(0, 256, 5)):
        prog = {"cfg": {"nv": v % 2 == 1, "transp": v % 4 == 3, "maxq": 3},
                "segs": [{"body": [{"k": "new"}, {"k": "rot", "h": 0, "axis": "XYZ"[v % 3], "n": {"t": "a"}, "d": v % 8},
                                   {"k": "rot", "h": 0, "axis": "Z", "n": {"t": "b"}, "d": 4},
                                   {"k": "meas", "h": 0, "mode": "reg" if v % 5 == 0 else "array", "inplace": False}],
                          "pre": {"a": v, "b": 255 - v}},
                         {"body": [{"k": "new"}, {"k": "meas", "h": 1, "mode": "array", "inplace": False}], "pre": None}]}
        one(prog, "tpl.values")
    return res


def replay(ctx, payload):
    from harness import precompile as H
    prog = payload["failure"]["input"]["prog"]
    P = H.run_flow(prog, "P", [0] * 40)
    D = H.run_flow(prog, "D", [0] * 40)
    same = all(P[k] == D[k] for k in ("futures", "error")) and \
        [s["bytes"] for s in P["segs"]] == [s["bytes"] for s in D["segs"]] and P["close"] == D["close"]
    print(json.dumps({"P": P["futures"], "D": D["futures"], "same": same}))
    return 0 if same else 1
