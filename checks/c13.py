"""C13 — qubit memory is safe and applications are isolated on the controller."""
import itertools
import json

from check import Result

PROP = "C13"
TARGETS = ["NetqasmVerif.Props.C13", "NetqasmVerif.Props.C13Controller"]
M = "NetqasmVerif.Props.C13"
THEOREMS = [(M, "NQ.C13." + n) for n in [
    "inv_init", "inv_step", "reachable", "reachable_from_init", "no_sharing", "used_exact", "no_usedKey",
    "run_apps_other", "isolation", "stop_releases", "stop_keeps_others", "rejected_unchanged",
    "double_init_rejected", "alloc_fresh",
    "inv_tick", "tick_subs_app", "tick_isolation", "schedule_isolation", "inv_istep", "reachable_interleaved",
    "isolation_interleaved", "abort_state", "inv_abort", "inv_abortMid", "qfree_atomic", "reachable_with_aborts",
    "executors_independent", "inv_mapply", "keepResp_parked_unchanged", "inv_keepResp_fresh"]] + [("NetqasmVerif.Props.C13Controller", "NQ.C13." + n) for n in [
    "inv_controller_action", "reachable_controller", "reachable_controller_from_init", "controller_raise_stops",
    "controller_consume_isolation"]]
TRANSLATORS = []
LEVEL_TEXT = ("Lean theorems about the multi-application layer of Model/Exec.lean: the invariant (injective map "
              "(app, virtual) -> physical across all applications; used = mapped + held by the link layer; held "
              "qubits unmapped; registered apps own their shared-memory key) holds initially and is preserved by "
              "every operation (init/stop application, every instruction whether it succeeds or faults, whole "
              "subroutines with any step bound, link-layer reservation, keep-responses under the explicit "
              "environment hypothesis), hence after every history of any length (induction over the op list); "
              "the same for histories in which subroutines of several applications are in flight at once and are "
              "resumed in any order, one instruction at a time (reachable_interleaved, schedule_isolation); "
              "aborts of suspended subroutines preserve it (inv_abort, inv_abortMid, qfree_atomic); executors are "
              "independent (executors_independent); "
              "the same over histories of the composed controller model (Model/Controller.lean: entanglement deliveries "
              "through the pending-response list, responses parked ahead of handleable ones, polls) — "
              "reachable_controller, controller_consume_isolation; "
              "isolation (an operation of application a leaves every b != a unchanged); stop releases all qubits "
              "and memory and the same id can be registered again; rejected registrations change nothing. "
              "Tie: differential correspondence of random/exhaustive histories (direct calls and QNodeController "
              "message handlers) against the compiled model after every operation, plus the invariant evaluated "
              "model-free on the real executor's tables.")
LEVEL_NOTE = ("Models the code after the fix commits for F16/F27. Keep-responses enter through "
              "_handle_epr_ok_k_response with a one-pair request (request matching itself is C12). The "
              "set.remove KeyError paths of stop_application are unreachable under the invariant and not modelled.")
TECHNIQUE = "Lean 4 proof (inductive invariant over operation histories, frame lemmas) + differential correspondence + invariant oracle on the real executor"
TRUSTED = [
    "Lean 4.33 kernel; axioms at most propext, Classical.choice, Quot.sound (audited per theorem)",
    "Model/Exec.lean: multi-application layer written from executor.py (init_new_application, stop_application, "
    "_allocate_physical_qubit, _free_physical_qubit, _get_unused_physical_qubit, _handle_epr_ok_k_response)",
    "harness/exec.py: TraceExecutor/Controller subclasses overriding only documented hooks; the `reserved` "
    "set (qubits held by the link layer) is tracked by the harness",
]
ASSUMPTIONS = [
    "environment: a keep-response carries a physical qubit id obtained from this executor's "
    "_get_unused_physical_qubit and not yet delivered (hypothesis EnvOk of inv_step); histories violating it "
    "are compared with the model only up to the violating response",
    "SharedMemoryManager keys of this node are created/removed only by this executor",
    "one executor per node name",
    "pending-list histories: the physical qubit of a keep response is either taken from this executor's pool "
    "(_get_unused_physical_qubit) when the link layer delivers, or (no pre-reservation) any id >= 50 that is "
    "unused and not carried by a parked response at delivery time; subroutines of one application are switched "
    "only at the executor's own yield points (as in the C12 stream)",
]


def _corpus():
    q0 = [2, 0]
    f16 = {"hw": False, "apps": [0], "addrs": [0], "ops": [
        {"k": "init", "a": 0, "n": 2}, {"k": "stop", "a": 0}, {"k": "init", "a": 0, "n": 2},
        {"k": "sub", "a": 0, "fuel": 10, "or": [], "p": [["set"] + q0 + [0], ["qalloc"] + q0]}]}
    f27 = {"hw": False, "apps": [0], "addrs": [0], "ops": [
        {"k": "init", "a": 0, "n": 2},
        {"k": "sub", "a": 0, "fuel": 10, "or": [], "p": [["set"] + q0 + [0], ["qalloc"] + q0, ["set", 0, 3, 5]]},
        {"k": "init", "a": 0, "n": 2},
        {"k": "sub", "a": 0, "fuel": 10, "or": [], "p": [["set"] + q0 + [1], ["qalloc"] + q0]}]}
    alloc0 = {"k": "sub", "a": 0, "fuel": 10, "or": [], "p": [["set"] + q0 + [0], ["qalloc"] + q0, ["set", 0, 3, 5],
                                                                ["ret_reg", 0, 3]]}
    alloc1 = {"k": "sub", "a": 0, "fuel": 10, "or": [], "p": [["set"] + q0 + [1], ["qalloc"] + q0]}
    i0, s0 = {"k": "init", "a": 0, "n": 2}, {"k": "stop", "a": 0}
    i1, s1 = {"k": "init", "a": 1, "n": 1}, {"k": "stop", "a": 1}
    # life cycles with refused operations in the middle: a duplicate registration after a stop/re-register
    # cycle; a refused duplicate registration followed by stop and re-registration; refused stops
    cycles = [
        [i0, s0, i0, alloc0, i0, alloc1, s0, i0, alloc0],
        [i0, alloc0, i0, s0, i0, alloc0, s0],
        [i0, i1, alloc0, s0, i0, i0, alloc0, i1, s1, s0, s0, i0, i1],
        [s0, i0, alloc0, s1, i0, s0, s0, i0, i0, alloc0],
    ]
    # classical state of a re-registered application is fresh: write registers of all banks, stop,
    # register the same id again, read before write (must fault), write again (must land in its own table)
    wr = {"k": "sub", "a": 0, "fuel": 20, "or": [1], "p": [["set", 0, 0, 5], ["set", 1, 2, 6], ["set", 2, 0, 0],
                                                         ["set", 3, 1, 1], ["qalloc", 2, 0], ["meas", 2, 0, 3, 4],
                                                         ["ret_reg", 0, 0]]}

    def rd(ins):
        return {"k": "sub", "a": 0, "fuel": 20, "or": [], "p": [ins]}
    for reader in (["ret_reg", 0, 0], ["add", 0, 1, 0, 0, 1, 2], ["qalloc", 2, 0], ["store", 3, 1, 0, 3, 4],
                   ["blt", 0, 0, 1, 2, 0]):
        cycles.append([i0, wr, s0, i0, rd(reader), {"k": "sub", "a": 0, "fuel": 20, "or": [], "p": [
            ["set", 0, 0, 9], ["set", 2, 0, 1], ["qalloc", 2, 0], ["ret_reg", 0, 0]]}, s0])
    out = [f16, f27, dict(f16, msg=True), dict(f27, msg=True)]
    for ops in cycles:
        for msg in (False, True):
            out.append({"hw": False, "msg": msg, "apps": [0, 1], "addrs": [0], "ops": [dict(o) for o in ops]})
    return out


def _alphabet():
    def sub(a, prog):
        return {"k": "sub", "a": a, "fuel": 10, "or": [], "p": prog}
    q0 = [2, 0]
    ops = [{"k": "init", "a": 0, "n": 2}, {"k": "init", "a": 1, "n": 1}, {"k": "stop", "a": 0}, {"k": "stop", "a": 1}]
    for a, vs in ((0, (0, 1)), (1, (0,))):
        for v in vs:
            ops.append(sub(a, [["set"] + q0 + [v], ["qalloc"] + q0]))
            ops.append(sub(a, [["set"] + q0 + [v], ["qfree"] + q0]))
    ops.append({"k": "keep", "a": 0, "qa": 1, "p": None, "v": 1})
    return ops


def run(ctx):
    from harness import exec as H
    res = Result()
    res.rule = ("histories over <= 3 applications, unit modules 1..4: random walks of length 5..40 (init/stop, "
                "subroutines biased to qalloc/qfree/classical writes, link-layer reservations, keep-responses), "
                "every 4th through the QNodeController message handlers; exhaustive sequences over an 11-op alphabet "
                "(2 apps, 2+1 qubits) to depth 2 plus 400 sampled depth-3 sequences (quick) / depth 4 (thorough); interleaved histories: 2-3 subroutines of "
                "different applications in flight, resumed one instruction at a time in random order (and all "
                "35 interleavings of two fixed subroutines), life-cycle operations in between; crash/abort histories "
                "(a suspended subroutine dropped between instructions or at the yield inside qfree's reset hook, "
                "the hook raising once, then stop/re-register/allocate all); 2-3 executors in one process; histories with "
                "entanglement deliveries through the pending-response list (request/response scenarios of the C12 "
                "stream with random schedules over {instruction, deliver, poll}; half with the link layer reserving each "
                "kept qubit from the executor's pool, half without pre-reservation (any id unused at delivery time, used "
                "must equal mapped exactly, parked responses mark nothing; also across stop + re-registration); directed: a response parked ahead of handleable ones, a request whose subroutine ended, two applications with requests towards different remote nodes and "
                "equal purpose ids, keep results delivered as qlink-interface 1.0 objects with sequence number != "
                "physical id (a third of the random ones run on a stack whose purpose id is the socket id)); non-trivial = at least one qubit was "
                "mapped at some point; distinct by history JSON")
    rng = ctx.rng
    drv = ctx.driver

    def differs(c):
        return H.compare(c, drv)[2] is not None

    def check(sc, tag):
        inv = H.InvariantObserver()
        fresh = H.FreshObserver()
        real, model, d = H.compare(sc, drv, [inv, fresh])
        inv.failures += fresh.failures
        res.evaluations += 1
        mapped_any = False
        for o, st in zip(sc["ops"], model[:len(real)]):
            r = st["r"]
            kind = None
            if o["k"] in ("tick", "hooktick", "abort"):
                kind = r.get("kind") or r.get("o")
            elif "fault" in r and r["fault"]:
                kind = r["fault"]["kind"]
            elif "out" in r and r["out"].get("kind"):
                kind = r["out"]["kind"]
            res.count("op:%s:%s%s" % (o["k"], kind or "ok", ":deferred" if r.get("deferred") else ""))
            if st["st"]["used"]:
                mapped_any = True
        res.count("mode:" + ("msg" if sc.get("msg") else "direct"))
        if mapped_any:
            res.nontrivial.add(json.dumps(sc, sort_keys=True))
        if len(res.samples) < 4 and tag == "walk" and len(sc["ops"]) >= 8 and mapped_any:
            res.samples.append({"history": H.describe(sc)[:12], "final": real[-1]["st"] if real else None})
        if d:
            # A disagreement never stops the search for a failing history (the model-free oracle below
            # keeps running on every scenario); only the first few are shrunk, the rest are counted.
            if len(res.disagreements) < 3:
                small = H.shrink(sc, differs, budget=200)
                _, _, d2 = H.compare(small, drv)
                d2 = d2 or d
                res.disagreements.append({"stream": "exec." + tag, "input": small, "model": d2[2], "code": d2[3],
                                          "where": f"op {d2[0]} {d2[1]}"})
            elif len(res.disagreements) < 40:
                res.disagreements.append({"stream": "exec." + tag, "where": f"op {d[0]} {d[1]}", "model": d[2],
                                          "code": d[3], "input": "(not shrunk)"})
            res.count("disagreement:" + tag)
        if inv.failures:
            f = inv.failures[0]

            def fails(c):
                ob, fo = H.InvariantObserver(), H.FreshObserver()
                H.run_real(c, [ob, fo])
                return any(x["what"] == f["what"] for x in ob.failures + fo.failures)
            small = H.shrink(sc, fails, budget=200)
            ob, fo = H.InvariantObserver(), H.FreshObserver()
            H.run_real(small, [ob, fo])
            same = [x for x in ob.failures + fo.failures if x["what"] == f["what"]]
            f2 = same[0] if same else f
            res.failures.append({"what": f2["what"], "kf": None,
                                 "input": {"scenario": small, "readable": H.describe(small), "detail": f2}})

    for sc in _corpus():
        check(sc, "corpus")

    # exhaustive short histories
    depth = 4 if ctx.thorough else 3
    alpha = _alphabet()
    prologue = [{"k": "init", "a": 0, "n": 2}]
    seqs = []
    for d in range(1, depth + 1):
        full = list(itertools.product(range(len(alpha)), repeat=d))
        if not ctx.thorough and d == depth:
            full = rng.sample(full, 400)   # quick: depths 1-2 exhaustively, a sample of depth 3
        seqs += full
    for seq in seqs:
        if True:
            ops = list(prologue)
            for i in seq:
                o = alpha[i]
                if o["k"] == "keep":
                    ops.append({"k": "sub", "a": o["a"], "fuel": 10, "or": [], "p": [
                        ["set", 0, 0, 1], ["array", 0, 0, 1], ["set", 0, 1, o["v"]], ["set", 0, 0, 0],
                        ["store", 0, 1, 1, 0, 0]]})
                    ops.append({"k": "keep", "a": o["a"], "qa": 1, "p": None})
                else:
                    ops.append(o)
            sc = H.fix_keeps({"hw": False, "apps": [0, 1], "addrs": [1], "ops": ops})
            check(sc, "exhaustive")
            if (len(seq) <= 2 or ctx.thorough and len(seq) == 3) and not any(o["k"] in ("keep", "reserve") for o in ops):
                check(dict(sc, msg=True), "exhaustive-msg")   # the same life cycle through the message handlers
            if len(res.failures) >= 5:
                return res

    # subroutines of different applications in flight at the same time
    q0, r1, r2 = [2, 0], [0, 1], [0, 2]
    sub_a = [["set"] + q0 + [0], ["qalloc"] + q0, ["set"] + r1 + [42], ["ret_reg"] + r1]
    sub_b = [["set"] + r1 + [7], ["set"] + r2 + [2], ["array"] + r2 + [0]]
    for pos in itertools.combinations(range(len(sub_a) + len(sub_b)), len(sub_b)):
        ticks = [{"k": "tick", "i": 1 if t in pos else 0} for t in range(len(sub_a) + len(sub_b))]
        check({"hw": False, "apps": [0, 1], "addrs": [0], "ops": [
            {"k": "init", "a": 0, "n": 2}, {"k": "init", "a": 1, "n": 2},
            {"k": "spawn", "a": 0, "p": sub_a}, {"k": "spawn", "a": 1, "p": sub_b}] + ticks}, "interleaved")
        if len(res.failures) >= 5:
            return res
    # crash/abort points: subroutines dropped between instructions or at the yield point inside qfree's
    # reset hook, the hook raising once; then stop / re-register / allocate everything again
    al = [["set"] + q0 + [0], ["qalloc"] + q0, ["set", 2, 1, 1], ["qalloc", 2, 1]]
    for mid in (True, False):
        for hook in (False, True):
            last = {"k": "hooktick", "i": 0} if hook else {"k": "abort", "i": 0, "mid": mid}
            check({"hw": False, "apps": [0, 1], "addrs": [0], "ops": [
                {"k": "init", "a": 0, "n": 2}, {"k": "init", "a": 1, "n": 1},
                {"k": "sub", "a": 0, "fuel": 20, "or": [], "p": al},
                {"k": "sub", "a": 1, "fuel": 20, "or": [], "p": al[:2]},
                {"k": "spawn", "a": 0, "p": [["set", 2, 1, 1], ["qfree", 2, 1], ["set", 0, 0, 1]]},
                {"k": "tick", "i": 0}, last, {"k": "stop", "a": 0}, {"k": "stop", "a": 1},
                {"k": "init", "a": 0, "n": 2}, {"k": "sub", "a": 0, "fuel": 20, "or": [], "p": al}]}, "abort")
    n_abort = 3500 if ctx.thorough else 250
    for k in range(n_abort):
        check(H.abort_scenario(rng, rng.choice([10, 20, 40])), "abort")
        if len(res.failures) >= 5:
            return res
    # several executors in one process
    n_multi = 2000 if ctx.thorough else 150
    for k in range(n_multi):
        check(H.multi_scenario(rng, rng.choice([15, 30, 60])), "multi-executor")
        if len(res.failures) >= 5:
            return res

    # message route with interleaved handling: the handler generators of several SUBROUTINE messages are
    # advanced alternately; half of the histories send byte-identical subroutines from different apps
    for pos in itertools.combinations(range(2 * len(sub_a)), len(sub_a)):
        ticks = [{"k": "tick", "i": 1 if t in pos else 0} for t in range(2 * len(sub_a))]
        check({"hw": False, "msg": True, "apps": [0, 1], "addrs": [0], "ops": [
            {"k": "init", "a": 0, "n": 2}, {"k": "init", "a": 1, "n": 2},
            {"k": "spawn", "a": 0, "p": [list(i) for i in sub_a]},
            {"k": "spawn", "a": 1, "p": [list(i) for i in sub_a]}] + ticks}, "interleaved-msg")
        if len(res.failures) >= 5:
            return res
    n_mpar = 4000 if ctx.thorough else 150
    for k in range(n_mpar):
        check(H.par_scenario(rng, rng.choice([10, 20, 40]), msg=True, identical=(k % 2 == 0)), "interleaved-msg")
        if len(res.failures) >= 5:
            return res

    n_par = 6000 if ctx.thorough else 300
    for k in range(n_par):
        check(H.par_scenario(rng, rng.choice([10, 20, 40])), "interleaved")
        if len(res.failures) >= 5:
            return res

    # entanglement deliveries through the executor's pending-response list (`_handle_epr_response` /
    # `_handle_pending_epr_responses`): responses parked ahead of handleable ones, frees, polls; requests
    # whose subroutine has ended; tied to the composed controller model, C13 statement evaluated model-free
    from harness import exec_epr as P
    from harness import epr as E
    E.quiet()

    def check_pending(sc, toks, tag, reserve=True, pmul=1000, form10=None):
        if form10 is not None:
            for r_ in sc.resps:     # keep results as qlink-interface 1.0 objects (converted by the executor)
                r_.form10 = form10
        rp, dc = P.run_case(sc, toks, drv, reserve=reserve, pmul=pmul)
        res.evaluations += 1
        res.count("mode:pending-list" + ("" if reserve else ":no-pre-reservation"))
        for st in rp.steps:
            res.count("ptok:" + st["tok"][0] + (":raised" if "raised" in st else ""))
        if any(u for u in rp.ex._qubit_unit_modules.values() if any(p is not None for p in u)) or rp.delivered:
            res.nontrivial.add(json.dumps([sc.desc(), toks, reserve], sort_keys=True, default=str))
        if dc is not None and len(res.disagreements) < 40:
            res.disagreements.append({"stream": "ctl." + tag, "input": {"scenario": sc.desc(), "schedule": toks},
                                      "model": json.loads(json.dumps(dc.get("model", dc), default=str)),
                                      "code": json.loads(json.dumps(dc.get("code", dc), default=str)),
                                      "where": str(dc.get("what", dc.get("tok")))})
        if rp.c13:
            v = rp.c13[0]
            desc = json.loads(json.dumps(sc.desc(), default=str))
            small = P.shrink_schedule(desc, [list(t) for t in toks], v["what"], reserve, pmul)
            rp2 = P.PoolReplayer(E.Scenario.from_desc(json.loads(json.dumps(desc))), P.new_executor(pmul),
                                 reserve=reserve, pmul=pmul)
            for t in small:
                rp2.step(tuple(t))
                if rp2.stopped:
                    break
            v2 = ([x for x in rp2.c13 if x["what"] == v["what"]] or [v])[0]
            res.failures.append({"what": v["what"], "kf": None, "input": {
                "scenario": desc, "link_layer_pre_reserves": reserve, "purpose_id_is_socket_id": pmul == 0, "programs": [sp.text().split("\n")[2:] for sp in sc.subs], "schedule": small,
                "detail": json.loads(json.dumps(v2, default=str))}})

    for reserve in (True, False):
        # False: no pre-reservation (stub network stack) - the physical id is any id unused at delivery
        # time; a parked response must not be marked, used == mapped exactly at every step
        for pairs, other in ((1, True), (2, False), (2, True)):
            check_pending(*P.parked_then_stop_scenario(pairs, other), tag="pending-corpus", reserve=reserve)
        check_pending(*P.blocked_head_scenario(2, "busy"), tag="pending-corpus", reserve=reserve)
    # two applications, requests towards different remote nodes with EQUAL purpose ids (stack: purpose = socket)
    for pairs in (1, 2):
        for first in ("later", "earlier"):
            check_pending(*P.same_purpose_scenario(pairs, first), tag="pending-corpus", pmul=0)
    # keep results delivered as qlink-interface 1.0 ResCreateAndKeep objects (sequence number != physical id)
    for reserve in (True, False):
        check_pending(*P.same_purpose_scenario(2, "later"), tag="pending-corpus", reserve=reserve, form10=True)
        check_pending(*P.blocked_head_scenario(2, "busy"), tag="pending-corpus", reserve=reserve, form10=True)
        check_pending(*P.parked_then_stop_scenario(1, True), tag="pending-corpus", reserve=reserve, form10=True)
    for number in (2, 3):
        for blocked in ("norecv", "busy"):
            check_pending(*P.blocked_head_scenario(number, blocked), tag="pending-corpus")
    for pairs, vq, early in [(p_, v_, False) for p_ in (1, 2) for v_ in (0, 1, 2)] + [(1, 1, True), (2, 2, True)]:
        check_pending(*P.stale_request_scenario(pairs, vq, early), tag="pending-corpus")
    n_pend = 2500 if ctx.thorough else 150
    for k in range(n_pend):
        sc = E.gen_scenario(rng, mixed_roles=(k % 3 == 0))
        toks = E.random_schedule(sc, rng, early=rng.choice([0, 0, 1, 2]))
        check_pending(sc, toks, "pending-random", reserve=(k % 2 == 0), pmul=(0 if k % 3 == 1 else 1000))
        if len(res.failures) >= 5:
            return res

    n_walks = 9000 if ctx.thorough else 330
    for k in range(n_walks):
        msg = k % 4 == 3
        g = H.Gen(rng, encodable=msg)
        sc = g.c13_scenario(rng.choice([5, 10, 20, 40]), msg=msg)
        sc = H.fix_keeps(sc)
        check(sc, "walk")
        if len(res.failures) >= 5:
            break
    return res


def replay(ctx, payload):
    from harness import exec as H
    sc = payload.get("failure", {}).get("input", {}).get("scenario")
    if sc is None:
        return 2
    inv = H.InvariantObserver()
    _, _, d = H.compare(sc, ctx.driver, [inv])
    print("replay:", "\n".join(H.describe(sc)))
    print("difference:", d, "invariant:", inv.failures[:1])
    return 1 if (d or inv.failures) else 0
