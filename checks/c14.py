"""C14 — compiling never runs out of registers because of finished operations."""
import json

from check import Result

PROP = "C14"
TARGETS = ["NetqasmVerif.Props.C14", "NetqasmVerif.Props.EprRegsObligations", "NetqasmVerif.Props.C14Asm"]
M = "NetqasmVerif.Props.C14"
THEOREMS = [(M, "NQ.C14." + n) for n in [
    "balanced", "flush_balanced", "newReg_takes_one", "sequence_compiles", "compiles_of_need",
    "depth_bound", "long_run_compiles", "fresh_has_16", "temps_disjoint", "temps_disjoint_code", "temps_disjoint_pick",
    "f17_if_ez_40", "f17_loop_until_20", "need_tight_16",
    "explicit_register_protected", "explicit_register_in_use_rejected",
    "balanced_epr", "epr_leak_witness", "epr_forms_completed", "epr_sequence_compiles",
    "meas_registers_released_at_flush", "meas_balanced", "reg_outcome_takes_one", "meas_compiles",
    "meas_sequence_compiles", "meas_budget_example"]] + [
    ("NetqasmVerif.Props.EprRegsObligations", "NQ.EprRegs." + n) for n in ["eprForms_balanced", "eprForms_peak",
                                                                             "eprForms_nonempty"]] + [
    ("NetqasmVerif.Props.C14Asm", "NQ.C14." + n) for n in [
        "assembler_scratch_not_live", "live_registers_survive_assembly", "reserved_to_return_insufficient"]]
TRANSLATORS = ["epr_regs"]
LEVEL_TEXT = (
    "Lean theorems about an executable model of the SDK builder + memory manager (Model/Sdk.lean, `emit` mirrors "
    "builder.py/memmgr.py/futures.py method by method): `balanced` — for EVERY completed host operation (if/loop/"
    "loop_body/foreach/enumerate/loop_until/try/add/measure, nested arbitrarily) and EVERY memory-manager state the "
    "active-register set after compiling equals the one before (structural induction); `sequence_compiles` — any "
    "sequence of any length with flushes anywhere never raises 'could not find an available loop register' if each "
    "single operation does not (induction over the list); `compiles_of_need` + `depth_bound` — an operation of "
    "nesting depth k needs at most 1*k + (2 + future-index depth) registers, `long_run_compiles` combines them; "
    "`temps_disjoint` — a temporary is taken from the inactive set and stays reserved; `temps_disjoint_code` — no EMITTED command of an operation writes an R register active at its start (live register of an enclosing operation) except the add of a RegFuture.add on its own handle; `assembler_scratch_not_live` / "
    "`live_registers_survive_assembly` (Props/C14Asm.lean) — the temporaries the ASSEMBLER picks for constants, "
    "given the reserved set the builder actually hands over (the active registers at the flush), are never active "
    "registers, so registers live across flushes (new_register) keep their values through assembly; "
    "`reserved_to_return_insufficient` — evaluated witness that the to-return list would not do. Tie: syntactic correspondence — "
    "random and adversarial host programs are run through the REAL SDK API; the proto-subroutine of every flush must "
    "equal the model's command for command and the MemoryManager snapshot (active registers, M registers, arrays/"
    "registers to return) must be equal after every top-level operation, including sequences of several hundred "
    "operations of every kind (also degenerate ones: empty bodies, empty ranges, nested empties). On executed runs "
    "the set of reserved registers the real builder passes to the assembler equals the model's active registers at "
    "that flush, and (model-free) the registers the real assembler introduces are disjoint from the registers live at "
    "that flush; histories with registers live across flushes, and histories whose loop_until / if conditions are "
    "RegFutures (new_register register, loop counters, M registers), run on the real Executor against direct "
    "evaluation; measurement histories (inplace x outcome target, >= 17 array-stored measurements between flushes) "
    "against the M pool. "
    "The model is of /repo with the F17 fix commits.")
LEVEL_NOTE = (
    "Trusted: Lean kernel; harness/sdk.py (interpreter of the host AST through the SDK API, canonicalisation); the "
    "model abstracts LabelManager's set to counters and `_used_array_addresses` to a counter. EPR operations are in "
    "the model by their register discipline only; their emitted code is checked statically on the real builder's "
    "subroutines (inside a loop the loop register is written only by its own increment; also nested in conn.loop). Measurement (M) registers are a separate pool that the SDK "
    "recycles at flush: more than 16 register-measurements between two flushes fail by design and are modelled so.")
TECHNIQUE = "Lean 4 proof (structural induction over host programs and over operation sequences) + syntactic differential correspondence with the real SDK builder"
TRUSTED = [
    "Lean 4.33 kernel; axioms at most propext, Classical.choice, Quot.sound (audited per theorem)",
    "harness/sdk.py: drives the real SDK API from the host AST, canonicalises proto-commands and MemoryManager state",
    "Driver/Sdk.lean: JSON <-> model AST",
]
ASSUMPTIONS = [
    "generic hardware configuration (no NV qubit relocation), one measured qubit at a time (virtual id 0)",
    "a 'completed operation' is any statement of the host AST except builder.new_register(), which by design keeps "
    "its register (theorem newReg_takes_one: exactly one)",
    "an explicit loop register (loop / loop_body) is an R register R0..R15 given as str or Register; other banks "
    "(C, and Q0 / M registers, which the SDK itself uses for qubit addresses and outcomes) are outside the model",
    "EPR operations are modelled by their register discipline only: the sequence of take (lowest free register) / "
    "release events that translate/epr_regs.py records from the real builder for each of the 360 API forms "
    "(create/recv x keep plain/post routine/sequential/with_info/rsp/measure/context x expect_phi_plus x "
    "min_fidelity_all_at_end x number 1..3 x generic/NV/NV-compiler); the commands they emit are C09/C10's subject",
]


def _leak_check(H, prog, res, what):
    """Model-free invariant on the real MemoryManager: a completed top-level operation leaves the
    active registers as they were; compiling must not raise for lack of a register."""
    r = H.RealRun(execute=False)
    before = sorted(x.index for x in r.mm._active_registers)
    for step, t in enumerate(prog):
        r.first_exc = None
        try:
            if t["k"] == "flush":
                r.flush()
            else:
                r.stmt(t)
        except Exception as e:
            kind = H.err_kind(r.first_exc or e)
            if kind == "noRegister":
                return {"what": "the real SDK ran out of registers compiling operation %d of a sequence of "
                                "completed operations" % step, "kind": kind, "step": step, "op": t,
                        "active_before": before, "stream": what}
            return {"what": "the real SDK raised %s compiling operation %d" % (kind, step), "kind": kind,
                    "step": step, "op": t, "stream": what}
        if t["k"] == "flush":
            still = sorted(x.index for x, u in r.mm._used_meas_registers.items() if u)
            if still:
                return {"what": "measurement (M) registers are still taken after a flush", "step": step,
                        "meas_registers_in_use": still, "op": t, "stream": what}
        after = sorted(x.index for x in r.mm._active_registers)
        if t["k"] != "reg" and after != before:
            out = {"what": "completed operation leaked/released registers", "step": step, "op": t,
                   "active_before": before, "active_after": after, "stream": what}
            # the same history, continued: the first operation at which compiling raises
            for step2 in range(step + 1, len(prog)):
                r.first_exc = None
                try:
                    if prog[step2]["k"] == "flush":
                        r.flush()
                    else:
                        r.stmt(prog[step2])
                except Exception as e:
                    out["history_raises_at_step"] = step2
                    out["history_error"] = H.err_kind(r.first_exc or e) + ": " + str(e)[:100]
                    out["history_op"] = prog[step2]
                    break
            return out
        before = after
    return None


def _meas_history(H, rng, n_ops, flush_every, kinds, script=None):
    from netqasm.sdk.qubit import Qubit as _Qubit
    r = H.RealRun(execute=False)
    mm = r.mm

    def used():
        return sorted(x.index for x, u in mm._used_meas_registers.items() if u)
    arr = r.conn.new_array(4)
    q = None
    log = []
    held = 0
    act0 = sorted(x.index for x in mm._active_registers)
    for i in range(n_ops if script is None else len(script)):
        kind = tuple(script[i]) if script is not None else rng.choice(kinds)
        if script is None and kind[1] == "reg" and held >= 15:
            kind = (kind[0], "new")
        log.append(list(kind))
        before = used()
        try:
            if q is None:
                q = _Qubit(r.conn)
            if rng.random() < 0.5:
                q.H()
            inplace, tgt = kind
            if tgt == "new":
                q.measure(inplace=inplace)
            elif tgt == "fut":
                q.measure(future=arr.get_future_index(rng.randrange(4)), inplace=inplace)
            else:
                q.measure(inplace=inplace, store_array=False)
                held += 1
            if not inplace:
                q = None
        except Exception as e:
            return {"what": "the real SDK raised %s at measurement %d of a history of completed measurements"
                            % (H.err_kind(e), i), "error": str(e)[:120], "step": i, "history": log,
                    "m_registers_in_use": before, "flush_every": flush_every}
        after = used()
        want = before if kind[1] != "reg" else None
        if (want is not None and after != want) or (want is None and len(after) != len(before) + 1):
            out = {"what": "a completed measurement (inplace=%s, outcome to %s) left the M pool changed"
                           % (kind[0], {"new": "a new array entry", "fut": "a given Future",
                                        "reg": "a register"}[kind[1]]),
                   "step": i, "m_before": before, "m_after": after, "history": list(log),
                   "flush_every": flush_every}
            # the same measurement repeated without a flush: where compiling raises
            for k in range(1, 40):
                try:
                    if q is None:
                        q = _Qubit(r.conn)
                    if kind[1] == "fut":
                        q.measure(future=arr.get_future_index(0), inplace=kind[0])
                    else:
                        q.measure(inplace=kind[0], store_array=kind[1] != "reg")
                    if not kind[0]:
                        q = None
                except Exception as e:
                    out["raises_after_repetitions"] = k
                    out["error"] = H.err_kind(e) + ": " + str(e)[:100]
                    break
            return out
        if sorted(x.index for x in mm._active_registers) != act0:
            return {"what": "a measurement changed the active R registers", "step": i, "history": log}
        if (i + 1) % flush_every == 0:
            try:
                if q is not None:
                    q.measure()
                    q = None
                r.flush()
            except Exception as e:
                return {"what": "the real SDK raised %s at the flush after measurement %d" % (H.err_kind(e), i),
                        "error": str(e)[:120], "step": i, "history": log}
            held = 0
            if used():
                return {"what": "measurement (M) registers are still taken after a flush", "step": i,
                        "meas_registers_in_use": used(), "history": log}
    return None


def _with_history(f, prog):
    """the history up to the failing operation: what `replay` re-runs"""
    f = dict(f)
    if "step" in f and "history" not in f:
        f["history"] = prog[:f["step"] + 1]
    return f


def _shrink_leak(H, f):
    """Minimal host operation that still leaks, repeated until the pool is empty."""
    if "meas_registers_in_use" in f:
        # M bank: one register outcome per subroutine, until compiling fails
        f = dict(f)
        f["minimal"] = [{"k": "qop", "g": [], "t": {"k": "reg"}}]
        p = []
        for n in range(1, 40):
            p = p + f["minimal"] + [{"k": "flush"}]
            r = H.RealRun(execute=False).run(p)
            if r.err is not None:
                f["fails_at_repetition"] = n
                f["error"] = r.err
                break
        return f
    op = f["op"]

    def leaks(cand):
        p = [{"k": "arr", "len": 2, "init": [0, 1]}, {"k": "arr", "len": 2, "init": [1, 1]},
             {"k": "arr", "len": 2, "init": [2, 0]}] + cand
        g = _leak_check(H, p, None, "shrink")
        return g is not None and g["what"].startswith("completed operation leaked")

    if op.get("k") == "flush" or not leaks([op]):
        return f
    small = H.shrink([op], leaks)
    f = dict(f)
    f["minimal"] = small
    # how many repetitions until compilation fails?
    p = [{"k": "arr", "len": 2, "init": [0, 1]}, {"k": "arr", "len": 2, "init": [1, 1]},
         {"k": "arr", "len": 2, "init": [2, 0]}]
    for n in range(1, 40):
        p = p + small + [{"k": "flush"}]
        r = H.RealRun(execute=False).run(p)
        if r.err is not None:
            f["fails_at_repetition"] = n
            f["error"] = r.err
            break
    return f


def run(ctx):
    from harness import sdk as H
    res = Result()
    res.rule = ("host programs (random well-scoped, adversarial, long sequences) run through the real SDK API and "
                "the Lean model; a case is non-trivial when it contains at least one loop/if/add/measure operation; "
                "distinct by the JSON of the program")
    rng = ctx.rng
    drv = ctx.driver

    def correspond(prog, stream):
        res.evaluations += 1
        m = drv.call({"op": "sdk.run", "p": prog})
        r = H.RealRun(execute=False).run(prog)
        d = H.compare_syntactic(prog, r, m)
        key = H.dumps(prog)
        if any(t["k"] not in ("flush", "arr") for t in prog):
            res.nontrivial.add(hash(key))
        res.count("stream:" + stream)
        if r.err:
            res.count("build-error:" + str(r.err[1]))
        for t in prog:
            res.count("top:" + t["k"])
        if d is not None and len(res.disagreements) >= 3:
            res.disagreements.append({"stream": "sdk." + stream, "input": prog, "model": d, "code": "(not shrunk)"})
        elif d is not None:
            small = H.shrink(prog, lambda q: H.compare_syntactic(
                q, H.RealRun(execute=False).run(q), drv.call({"op": "sdk.run", "p": q})) is not None, 150)
            m2 = drv.call({"op": "sdk.run", "p": small})
            r2 = H.RealRun(execute=False).run(small)
            res.disagreements.append({"stream": "sdk." + stream, "input": small,
                                      "model": H.compare_syntactic(small, r2, m2), "code": "see model/real diff"})
        return r

    # -- corpus: the F17 witnesses (fixed: must compile; a regression is a failure found at once)
    w1 = [{"k": "arr", "len": 1, "init": [0]}] + [
        x for _ in range(40) for x in (
            {"k": "if", "cb": False, "c": "ez", "a": {"f": {"a": 0, "i": 0}}, "b": {"v": 0},
             "body": [{"k": "qop", "g": [0], "t": {"k": "new"}}]}, {"k": "flush"})]
    w2 = [{"k": "arr", "len": 1, "init": [0]}] + [
        x for _ in range(20) for x in (
            {"k": "until", "n": 2, "body": [{"k": "qop", "g": [], "t": {"k": "fut", "f": {"a": 0, "i": 0}}}],
             "ef": {"f": {"a": 0, "i": 0}}, "ev": 0, "cl": []}, {"k": "flush"})]
    w3 = [x for _ in range(40) for x in ({"k": "qop", "g": [], "t": {"k": "reg"}}, {"k": "flush"})]
    w4 = [x for _ in range(3) for x in ([{"k": "qop", "g": [0], "t": {"k": "reg"}}] * 16 + [{"k": "flush"}])]
    w4 = [y for x in w4 for y in (x if isinstance(x, list) else [x])]
    for w, name in ((w1, "corpus-if_ez-on-future"), (w2, "corpus-loop_until"),
                    (w3, "corpus-40-register-outcomes"), (w4, "corpus-16-register-outcomes-per-subroutine")):
        correspond(w, name)
        f = _leak_check(H, w, res, name)
        if f:
            res.failures.append({"what": f["what"], "kf": None,
                                 "input": _with_history(_shrink_leak(H, f), w) if len(res.failures) < 3 else f})

    # -- stream A: random well-scoped programs and adversarial ones (error paths: 17 nested loops, >16 M registers,
    #    bad handles, type errors)
    nA = 12000 if ctx.thorough else 2000
    for i in range(nA):
        prog = H.Gen(rng, max_depth=4, max_stmts=30).program()
        correspond(prog, "random")
        if len(res.samples) < 3 and i % 50 == 7:
            res.samples.append({"program": prog})
    nW = 3000 if ctx.thorough else 500
    for _ in range(nW):
        correspond(H.wild_program(rng), "adversarial")

    # -- stream B: long sequences of completed operations, flush every k-th; syntactic + leak oracle
    plans = [(400, 5), (400, 1), (300, 60), (200, 400)]
    if ctx.thorough:
        plans = [(400, 1), (400, 2), (400, 7), (400, 16), (400, 17), (300, 25), (250, 400)] * 4
    for n_ops, k in plans:
        prog = H.long_sequence(rng, n_ops, k, depth=3, degenerate=0.15)
        correspond(prog, "long-%d-flush-every-%d" % (n_ops, k))
        f = _leak_check(H, prog, res, "long")
        if f:
            res.failures.append({"what": f["what"], "kf": None,
                                 "input": _with_history(_shrink_leak(H, f), prog) if len(res.failures) < 3 else f})
        res.count("long-sequence-ops", n_ops)

    # -- stream C: model-free leak oracle on the random programs' single operations, each repeated 20 times
    nC = 2500 if ctx.thorough else 400
    base = [{"k": "arr", "len": 2, "init": [0, 1]}, {"k": "arr", "len": 2, "init": [1, 1]},
            {"k": "arr", "len": 2, "init": [2, 0]}]
    for i in range(nC):
        # every third one degenerate: empty bodies, empty ranges, nested empties
        deg = i % 3 == 2
        op = H.degenerate_op(rng) if deg else H.completed_op(rng, depth=rng.choice([1, 2, 3, 4]))
        prog = base + [x for _ in range(20) for x in (op, {"k": "flush"})]
        res.evaluations += 1
        if deg:
            correspond(base + [op, op, {"k": "flush"}, op, {"k": "flush"}], "degenerate")
        f = _leak_check(H, prog, res, "repeat-20-degenerate" if deg else "repeat-20")
        res.count("repeat-kind:" + ("degenerate-" if deg else "") + op["k"])
        if f:
            res.failures.append({"what": f["what"], "kf": None,
                                 "input": _with_history(_shrink_leak(H, f), prog) if len(res.failures) < 3 else f})
    # -- stream D: end-to-end (shared with C05): a temporary must never sit in a live register of an enclosing
    #    operation — nested operations, explicit loop registers (lowest free / any free), run on the real
    #    Executor against the direct interpreter
    nD = 1500 if ctx.thorough else 250
    for _ in range(nD):
        op = H.completed_op(rng, depth=rng.choice([2, 3, 4]), h0=0)
        prog = base + [op, {"k": "flush"}]
        outs = [rng.randrange(2) for _ in range(64)]
        res.evaluations += 1
        st, det = H.oracle(prog, outs)
        res.count("end-to-end:" + st)
        if "\"r\":" in H.dumps(op):
            res.count("explicit-loop-register")
        if st == "fail":
            small = prog
            if sum(1 for x in res.failures if x["kf"] is None) < 3:
                small = H.shrink(prog, lambda q: H.oracle(q, outs)[0] == "fail", 200, 20)
                det = H.oracle(small, outs)[1]
            res.failures.append({"what": "end-to-end result of a nested operation differs from its direct evaluation: "
                                         + det[0]["what"], "kf": None,
                                 "input": {"program": small, "outcomes": outs, "detail": det[:3]}})
    # -- stream G: registers live ACROSS flushes (new_register) + later subroutines full of constants that do
    #    not mention them: (1) model-free: the registers the real assembler introduces are disjoint from the
    #    registers live at that flush, and the run on the real Executor keeps the registers' values (vs direct
    #    evaluation); (2) tie: the reserved set the real builder hands to the assembler = the model's active
    #    registers at that flush (`reservedOf`, Props/C14Asm.lean), subroutines and snapshots as everywhere
    ctrl_level = ("scratch-live", "ctrl-reg", "ctrl-array", "trace", "raise", "flushes")
    nG = 1200 if ctx.thorough else 160
    for _ in range(nG):
        prog = H.live_across_flushes(rng)
        outs = [rng.randrange(2) for _ in range(64)]
        res.evaluations += 1
        keep = {}
        st, det = H.oracle(prog, outs, keep=keep)
        det = [x for x in (det or []) if isinstance(x, dict) and x.get("feature") in ctrl_level]
        res.count("live-across-flushes:" + ("fail" if det else st))
        real = keep.get("real")
        if real is not None and real.err is None:
            res.count("assembler-scratch-registers", sum(len(v) for v in real.scratch.values()))
            d = H.compare_syntactic(prog, real, drv.call({"op": "sdk.run", "p": prog}))
            res.nontrivial.add(hash(H.dumps(prog)))
            if d is not None:
                res.disagreements.append({"stream": "sdk.live-across-flushes", "input": prog, "model": d,
                                          "code": "see model/real diff"})
        if st == "fail" and det:
            small = prog
            if sum(1 for x in res.failures if x["kf"] is None) < 3:
                def still(q):
                    s2, d2 = H.oracle(q, outs)
                    return s2 == "fail" and any(x.get("feature") == det[0]["feature"] for x in d2)
                small = H.shrink(prog, still, 200, 20)
                det = [x for x in H.oracle(small, outs)[1] if x.get("feature") in ctrl_level] or det
            res.failures.append({"what": "a register live across flushes did not survive a later subroutine: "
                                         + det[0]["what"], "kf": None,
                                 "input": {"program": small, "outcomes": outs, "detail": det[:3]}})
    # -- stream H: exit / branch conditions that are RegFutures — loop_until and if_* on a new_register() register,
    #    on the counter of an enclosing loop_body / of the loop_until itself, on an M register of
    #    measure(store_array=False).  The condition operand is not a temporary: (1) model-free, compile only: the
    #    active set after every completed operation equals the one before, nothing raises; (2) executed: scratch
    #    vs live registers, controller registers / arrays / trace against direct evaluation; (3) tie as in G
    nH = 900 if ctx.thorough else 110
    for _ in range(nH):
        prog = H.regfuture_conditions(rng)
        outs = [rng.randrange(2) for _ in range(64)]
        res.evaluations += 1
        f = _leak_check(H, prog, res, "regfuture-conditions")
        if f:
            f["history"] = prog[:f["step"] + 1]
            if sum(1 for x in res.failures if x["kf"] is None) < 6:
                # what the released register costs when the history is executed: the next temporary lands in it
                st, det = H.oracle(prog, outs)
                f["executed"] = [x for x in (det or []) if isinstance(x, dict) and x.get("feature") in ctrl_level][:3]
                f["program"], f["outcomes"] = prog, outs
            res.failures.append({"what": f["what"], "kf": None, "input": f})
            res.count("regfuture-conditions:leak")
            continue
        keep = {}
        st, det = H.oracle(prog, outs, keep=keep)
        det = [x for x in (det or []) if isinstance(x, dict) and x.get("feature") in ctrl_level]
        res.count("regfuture-conditions:" + ("fail" if det else st))
        real = keep.get("real")
        if real is not None and real.err is None:
            d = H.compare_syntactic(prog, real, drv.call({"op": "sdk.run", "p": prog}))
            res.nontrivial.add(hash(H.dumps(prog)))
            if d is not None:
                res.disagreements.append({"stream": "sdk.regfuture-conditions", "input": prog, "model": d,
                                          "code": "see model/real diff"})
        if st == "fail" and det:
            small = prog
            if sum(1 for x in res.failures if x["kf"] is None) < 3:
                def still_h(q):
                    s2, d2 = H.oracle(q, outs)
                    return s2 == "fail" and any(x.get("feature") == det[0]["feature"] for x in d2)
                small = H.shrink(prog, still_h, 200, 20)
                det = [x for x in H.oracle(small, outs)[1] if x.get("feature") in ctrl_level] or det
            res.failures.append({"what": "a RegFuture used as exit/branch condition did not stay live: "
                                         + det[0]["what"], "kf": None,
                                 "input": {"program": small, "outcomes": outs, "detail": det[:3]}})
    # -- stream I: RegFuture.add / Future.add with every operand kind (int, Future, future-indexed Future) with and
    #    without modulus, in histories with flushes: compile-only leak oracle (whether or not the model agrees),
    #    then executed against direct evaluation
    nI = 200 if ctx.thorough else 25
    for _ in range(nI):
        prog = H.add_history(rng, n_ops=rng.choice([20, 40]), flush_every=rng.choice([1, 4, 50]))
        res.evaluations += 1
        correspond(prog, "add-history")
        f = _leak_check(H, prog, res, "add-history")
        if f:
            res.failures.append({"what": f["what"], "kf": None,
                                 "input": _with_history(f, prog) if len(res.failures) < 6 else f})
            continue
        st, det = H.oracle(prog, [0] * 64)
        det = [x for x in (det or []) if isinstance(x, dict) and x.get("feature") in ctrl_level]
        res.count("add-history:" + ("fail" if det else st))
        if det:
            res.failures.append({"what": "add history: " + det[0]["what"], "kf": None,
                                 "input": {"program": prog, "outcomes": [0] * 64, "detail": det[:3]}})
    # -- stream J: the M pool under every kind of measurement — measure(inplace True/False x outcome to a new array
    #    entry / a given Future / a register), long histories with >= 17 array-stored measurements between two
    #    flushes, driven through the real SDK API directly (in-place measurement is not in the host AST).  Oracle
    #    (model-free): an array-stored measurement is a completed operation and leaves the set of used M registers
    #    as it was; a register-stored one takes exactly one until the flush; after a flush none is used; the active
    #    R registers never change; nothing raises.
    arr_kinds = [(True, "new"), (True, "fut"), (False, "new"), (False, "fut")]
    all_kinds = arr_kinds + [(True, "reg"), (False, "reg")]
    plansJ = [(40, 20, [(True, "new")]), (40, 20, [(True, "fut")]), (40, 40, [(False, "new"), (False, "fut")]),
              (60, 30, arr_kinds), (60, 25, all_kinds), (60, 7, all_kinds), (50, 50, arr_kinds)]
    for n_ops, k, kinds in plansJ * (6 if ctx.thorough else 1):
        res.evaluations += 1
        res.count("measurement-history")
        res.nontrivial.add(hash(("meas", n_ops, k, str(kinds), res.evaluations)))
        f = _meas_history(H, rng, n_ops, k, kinds)
        if f:
            res.failures.append({"what": f["what"], "kf": None, "input": f})
    # -- stream E: an explicit loop register that is in use must be rejected (never silently shared)
    for r_in_use, outer in ((0, "loop"), (0, "reg"), (1, "nested")):
        inner = {"k": "lbody", "s": 0, "e": 3, "d": 1, "r": r_in_use,
                 "body": [{"k": "addf", "f": {"a": 0, "i": 0}, "o": {"v": 1}, "m": None}]}
        if outer == "loop":
            prog = base + [{"k": "loop", "s": 0, "e": 2, "d": 1, "body": [inner]}, {"k": "flush"}]
        elif outer == "reg":
            prog = base + [{"k": "reg", "v": 5}, inner, {"k": "flush"}]
        else:
            prog = base + [{"k": "loop", "s": 0, "e": 2, "d": 1, "body": [
                {"k": "loop", "s": 0, "e": 2, "d": 1, "r": 1, "body": [dict(inner, k="loop")]}]}, {"k": "flush"}]
        correspond(prog, "explicit-register-in-use")
        r = H.RealRun(execute=False).run(prog)
        res.evaluations += 1
        if r.err is None or r.err[1] != "regState":
            res.failures.append({"what": "an explicit loop register that is in use was not rejected by the SDK",
                                 "kf": None, "input": {"program": prog, "real": r.err}})
    # -- stream F: EPR operations. (1) model-free: every API form, from several register states, leaves the
    #    active registers as they were, and repeated with a flush after each it keeps compiling;
    #    (2) tie of the replay model: active registers after every step of mixed sequences, model vs real SDK
    from harness import sdk_epr as E

    def epr_leak(form, prefix, reps, hw):
        r = H.RealRun(execute=False, hw=hw)
        for t in prefix:
            r.stmt(t)
        before = sorted(x.index for x in r.mm._active_registers)
        for n in range(1, reps + 1):
            try:
                r.stmt({"k": "epr", "form": form})
                r.flush()
            except Exception as e:
                return {"what": "the real SDK raised %s compiling the %d-th %s" % (H.err_kind(r.first_exc or e), n,
                                                                                  E.form_name(form)),
                        "form": form, "repetition": n, "prefix": prefix}
            for sub in r.subs[-1:]:
                bad = H.loop_register_writes(sub)
                if bad:
                    return {"what": "a temporary of an EPR operation is a live loop register: inside the loop the "
                                    "loop register is written by an instruction other than its own increment: "
                                    + E.form_name(form), "form": form, "prefix": prefix,
                            "writes": bad[:4], "subroutine": sub}
            after = sorted(x.index for x in r.mm._active_registers)
            if after != before:
                # how long until it bites?
                fail_at = None
                for k in range(n + 1, 40):
                    try:
                        r.stmt({"k": "epr", "form": form})
                        r.flush()
                    except Exception as e:
                        fail_at = [k, H.err_kind(r.first_exc or e) + ": " + str(e)[:80]]
                        break
                return {"what": "a completed EPR operation leaked/released registers: " + E.form_name(form),
                        "form": form, "active_before": before, "active_after": after, "prefix": prefix,
                        "compiling_fails_at_repetition": fail_at}
        return None

    forms = E.all_forms()
    prefixes = [[], [{"k": "reg", "v": 1}, {"k": "reg", "v": 2}]]
    for f in forms:
        res.evaluations += 1
        res.count("epr-api:" + f["api"])
        fl = epr_leak(f, prefixes[rng.randrange(2)], 2, f["hw"])
        if fl:
            res.failures.append({"what": fl["what"], "kf": None, "input": fl})
    sample = forms if ctx.thorough else rng.sample(forms, 30)
    for f in sample:
        res.evaluations += 1
        fl = epr_leak(f, [], 20, f["hw"])
        if fl:
            res.failures.append({"what": fl["what"], "kf": None, "input": fl})

    # EPR blocks with a loop of their own (context, post routine, sequential) nested in conn.loop / loop_body:
    # static check of the emitted subroutine, active set before == after
    nested = [f for f in forms if f["hw"] == "generic" and (f["api"] in E.CTX or f["mode"] in ("post", "seq"))]
    for f in (nested if ctx.thorough else rng.sample(nested, min(40, len(nested)))):
        res.evaluations += 1
        res.count("epr-nested-in-loop")
        outer = rng.choice(["loop", "lbody"])
        prog = [{"k": outer, "s": 0, "e": 2, "d": 1, "body": [{"k": "epr", "form": f}]}, {"k": "flush"}]
        r = H.RealRun(execute=False, hw=f["hw"]).run(prog)
        if r.err is not None:
            res.count("epr-nested-in-loop:" + str(r.err[1]))
            continue
        bad = [b for sub in r.subs for b in H.loop_register_writes(sub)]
        act = r.snaps[0]["active"] if r.snaps else []
        if bad or act:
            res.failures.append({"what": "EPR block nested in a loop: " + (
                "a live loop register is written inside its loop by an instruction other than its own increment"
                if bad else "registers still active afterwards") + ": " + E.form_name(f), "kf": None,
                "input": {"form": f, "program": None, "writes": bad[:4], "active_after": act,
                          "subroutine": r.subs[0]}})

    def correspond_active(prog, stream, hw):
        res.evaluations += 1
        m = drv.call({"op": "sdk.run", "p": prog})
        r = H.RealRun(execute=False, hw=hw).run(prog)
        res.count("stream:" + stream)
        ma = [x["active"] for x in m["snaps"]][:len(r.snaps)]
        ra = [x["active"] for x in r.snaps]
        if (r.err or None) != (m.get("err") or None) or ma != ra:
            k = next((i for i, (a, b) in enumerate(zip(ma, ra)) if a != b), -1)
            res.disagreements.append({"stream": "sdk." + stream, "input": prog[:k + 2] if k >= 0 else prog,
                                      "model": {"err": m.get("err"), "active": ma[k] if k >= 0 else None},
                                      "code": {"err": r.err, "active": ra[k] if k >= 0 else None}})
        for k, sub in enumerate(r.subs):
            bad = H.loop_register_writes(sub)
            if bad and sum(1 for x in res.failures if x["kf"] is None) < 12:
                res.failures.append({"what": "a live loop register is written inside its loop by an instruction "
                                             "other than its own increment (subroutine of flush %d)" % k,
                                     "kf": None, "input": {"writes": bad[:4], "subroutine": sub, "stream": stream}})
        if r.err is not None and r.err[1] == "noRegister":
            res.failures.append({"what": "the real SDK ran out of registers in a sequence of completed operations "
                                         "(with EPR operations) at step %d" % r.err[0], "kf": None,
                                 "input": {"program_tail": prog[max(0, r.err[0] - 3):r.err[0] + 1]}})

    for hw, n_ops, k in ([("generic", 200, 3), ("generic", 120, 40)] if not ctx.thorough else
                         [("generic", 400, 1), ("generic", 400, 7), ("generic", 300, 50)] * 2):
        correspond_active(H.long_sequence(rng, n_ops, k, depth=2, epr_hw=hw), "mixed-with-epr", hw)
    for hw in ("nv", "nvc"):
        prog = []
        for i in range(150 if ctx.thorough else 60):
            prog.append(H.epr_stmt(rng, hw))
            if i % 4 == 3:
                prog.append({"k": "flush"})
        prog.append({"k": "flush"})
        correspond_active(prog, "epr-only-" + hw, hw)
    if len(res.samples) < 4:
        res.samples.append({"long_sequence_head": H.long_sequence(rng, 3, 2)})
    return res


def replay(ctx, payload):
    from harness import sdk as H
    f = payload.get("failure", {}).get("input", {})
    if "program" in f:  # end-to-end streams: the program on the real Executor against direct evaluation
        st, det = H.oracle(f["program"], list(f.get("outcomes", [])) + [0] * 64)
        det = [x for x in (det or []) if isinstance(x, dict) and x.get("feature") in (
            "scratch-live", "ctrl-reg", "ctrl-array", "trace", "raise", "flushes")]
        print("replay:", st, json.dumps(det)[:1500])
        return 1 if st == "fail" and det else 0
    if "flush_every" in f and "history" in f:  # a measurement history (stream J): the same measurements again
        import random
        g = _meas_history(H, random.Random(0), 0, f["flush_every"], [], script=f["history"])
        print("replay:", json.dumps(g)[:1500])
        return 1 if g else 0
    if "history" in f and "minimal" not in f:  # the history itself: leak / raise at its last operation
        g = _leak_check(H, f["history"], None, "replay")
        print("replay:", json.dumps(g)[:1500])
        return 1 if g else 0
    prog = f.get("minimal") or [f.get("op")]
    base = [{"k": "arr", "len": 2, "init": [0, 1]}, {"k": "arr", "len": 2, "init": [1, 1]},
            {"k": "arr", "len": 2, "init": [2, 0]}]
    p = list(base)
    for n in range(1, 40):
        p = p + prog + [{"k": "flush"}]
        r = H.RealRun(execute=False).run(p)
        if r.err is not None:
            print("replay: compiling fails at repetition %d: %s" % (n, json.dumps(r.err)))
            return 1
    print("replay: no failure")
    return 0
