"""C16 — operands the format cannot represent are rejected, never silently altered."""
import json

from check import Result

PROP = "C16"
TARGETS = ["NetqasmVerif.Props.C16"]
M = "NetqasmVerif.Props.C16"
THEOREMS = [(M, "NQ.C16." + n) for n in [
    "inRangeOp_false_of_bad", "bad_of_inRangeOp_false", "encode_rejects", "encode_rejects_arity",
    "encodeInstr_rejects", "encodeSub_rejects", "encoded_never_decodes_differently",
    "sub_never_decodes_differently", "nv_never_differs", "reids_never_differs",
    "vanilla_never_differs_partial", "sdk_rotation_rejects", "encodeSubZ_rejects",
    "sdk_meas_basis_rejects", "sdk_breakpoint_rejects", "encode_rejects_after_update",
    "encodeSub_rejects_after_update"]]
TRANSLATORS = ["instr_table"]
LEVEL_TEXT = ('Lean theorems: for every instruction class (any table, any shape) and every operand list in which '
              'some slot holds a value outside its range (register index not in 0..15 / bank not in 0..3, imm8 not '
              'in 0..255, integer/address outside int32; no bound on the distance) encoding returns none '
              '(encode_rejects), a subroutine of any length containing such an instruction, an app id > 65535 or a '
              'version byte > 255 has no bytes (encodeSub_rejects, encodeSubZ_rejects), the SDK rotation route '
              'incl. hardware-mode normalisation n*2^(4-d) is rejected when the numerator leaves a byte '
              '(sdk_rotation_rejects), and bytes that are produced never decode to a different instruction / '
              'subroutine (with C01; NV and REIDS unconditional, vanilla outside the recorded opcode clash F1 of '
              'C01). Tie: the model codec is bound to the live classes by the probes/tables of C01 (regenerated, '
              'kernel-decided) and by the differential stream "real code raises <=> model none, else equal bytes" '
              'through direct construction, the text assembler and the SDK.')
LEVEL_NOTE = ('Trusted: Lean kernel; translator + harness. The text route uses the canonical rendering written '
              'by the harness (the parser itself is the subject of C17); the SDK route covers rot_X/Y/Z, '
              'measure(basis_rotations / named bases) on vanilla and NV, insert_breakpoint (enum and raw values), every '
              'integer-taking entry point of the SDK surface (new_register, Qubit(virtual_address), arrays, loops, '
              'branches, futures, EPR arguments) '
              'and app ids. The vanilla opcode clash (in-range meas_basis decodes as '
              'mov) is finding F1 of C01 and involves no out-of-range operand; it is counted, not judged, here. '
              'The model encoder is a pure function; that the real one has no call-order / module-state dependence '
              'is probed in fresh interpreters after different warm-ups (and under python -O/-OO).')
TECHNIQUE = ('Lean 4 proof (case analysis over operand kinds, induction over operand and instruction lists) + '
             'kernel-decided generated obligations + differential correspondence over three entry routes')
TRUSTED = [
    "Lean 4.33 kernel; axioms at most propext, Classical.choice, Quot.sound (audited per theorem)",
    "translate/instr_table.py (rows and single-bit probes of the live classes, shared with C01)",
    "harness/reject.py: generators of out-of-range values, canonical text rendering, in-process SDK runs",
]
ASSUMPTIONS = [
    "an instruction is modelled as (class, operand values); Python bool / numpy integer operands are "
    "modelled by their integer value",
    "the text route renders operands in canonical syntax; parsing of arbitrary text is covered by C17/C03",
]


def _mk(res, what, inp, kf=None):
    res.failures.append({"what": what, "input": inp, "kf": kf})


def run(ctx):
    from harness import codec as H
    from harness import reject as R
    import numpy as np
    res = Result()
    res.rule = ("every class of every flavour x every integer part of every operand slot x values just outside "
                "(one past either end), far outside (up to 1e20) and just inside, through direct construction "
                "(plain, numpy and bool immediates; also assigned IN PLACE to an instruction that was serialised before; "
                "whole Subroutine / ProtoSubroutine objects encoded, edited in place -- operand via field or setter, "
                "operand object, list append/insert/item assignment, app id, instantiate -- and encoded again through "
                "bytes(sub), sub.__bytes__(), sub.cstructs and SubroutineMessage, judged against a fresh encode of the "
                "same content), the text assembler and the SDK (rotations x3 axes x vanilla/"
                "NV/NV-hardware, measurement bases, app ids); non-trivial = some part out of range; distinct by "
                "(route, flavour, class, operands)")
    rng = ctx.rng
    thorough = ctx.thorough

    # ------------------------------------------------------------ routes D and T
    cases = []
    for fname in H.FLAVOURS:
        for c in H.flavour_classes(fname):
            for ops, tag, bad in R.cases_for_class(c, rng, thorough):
                cases.append((fname, c, ops, tag, bad))
    enc = ctx.driver.batch([{"op": "codec.encode", "fl": f, "i": {"c": H.T.cls_name(c), "o": ops}}
                            for f, c, ops, _, _ in cases])
    clash41 = set()  # (flavour, class) pairs inside C01's F1
    for fname in H.FLAVOURS:
        ids = {}
        for c in H.flavour_classes(fname):
            ids.setdefault(c.id, []).append(c)
        for cl in ids.values():
            if len(cl) > 1:
                for c in cl:
                    clash41.add((fname, H.T.cls_name(c)))

    def judge(route, fname, cname, ops, bad, rb, inst, model_b, exc):
        """shared comparison + oracle for one produced-or-rejected encoding"""
        res.evaluations += 1
        key = (route, fname, cname, json.dumps(ops, sort_keys=True))
        if bad:
            res.nontrivial.add(key)
        res.count(f"{route}:{'rejected' if rb is None else 'encoded'}")
        if rb != model_b:
            res.disagreements.append({"stream": "reject." + route,
                                      "input": {"fl": fname, "c": cname, "o": ops, "exc": exc},
                                      "model": model_b, "code": rb})
        if rb is None:
            return
        if bad:
            _mk(res, "unrepresentable operand accepted: bytes produced for an out-of-range value",
                {"route": route, "fl": fname, "c": cname, "o": ops, "bytes": rb})
            return
        rd = H.real_decode(fname, rb)
        if (fname, cname) in clash41:
            res.count("in-range-opcode-clash(C01-F1 scope)")
            return
        want = {"c": cname, "o": ops}
        got = H.instr_to_json(rd) if rd is not None else None
        if got != want:
            _mk(res, "produced bytes decode to a different instruction",
                {"route": route, "fl": fname, "want": want, "got": got, "bytes": rb})

    text_reqs, text_cases = [], []
    for (fname, c, ops, tag, bad), me in zip(cases, enc):
        cname = H.T.cls_name(c)
        res.count("part:%s/%s" % (tag[2], tag[3]))
        rb, exc, inst = R.real_direct(c, ops)
        judge("direct", fname, cname, ops, bad, rb, inst, me.get("b"), exc)
        # numpy / bool immediates (values a user computes with numpy end up here)
        for wname, wrap, ok in (("np64", np.int64, lambda v: -2 ** 63 <= v < 2 ** 63),
                                ("np32", np.int32, lambda v: -2 ** 31 <= v < 2 ** 31),
                                ("bool", bool, lambda v: v in (0, 1))):
            imms = [o["i"] for o in ops if "i" in o]
            if not imms or not all(ok(v) for v in imms):
                continue
            if wname != "np64" and rng.random() < 0.5:
                continue
            rb2, exc2, inst2 = R.real_direct(c, ops, wrap)
            judge("direct-" + wname, fname, cname, ops, bad, rb2, inst2, me.get("b"), exc2)
        if R.renderable(ops):
            text_cases.append((fname, c, ops, bad))
            text_reqs.append({"op": "reject.encsub", "fl": fname, "v0": 0, "v1": 0, "app": 0,
                              "is": [{"c": cname, "o": ops}]})
    tmodel = ctx.driver.batch(text_reqs)
    for (fname, c, ops, bad), tm in zip(text_cases, tmodel):
        cname = H.T.cls_name(c)
        txt = R.render_text(c.mnemonic, ops)
        rb, exc, parsed = R.real_text(fname, txt)
        mb = tm.get("b")
        judge("text", fname, cname, ops, bad, rb[4:] if rb is not None else None, None,
              mb[4:] if mb is not None else None, exc)
        if len(res.samples) < 3 and bad and res.evaluations % 211 == 0:
            res.samples.append({"route": "text", "fl": fname, "text": txt, "raises": exc, "model": mb})

    # ------------------------------------------------------------ object histories
    # an instruction that was serialised (and printed) once is given its operand IN PLACE (field
    # assignment or a property setter such as line / qreg / angle_num) and serialised again: an
    # unrepresentable operand must still be rejected, a representable one must be what is encoded
    from harness import text as X
    hist_cases = []
    sample = cases if thorough else rng.sample(cases, min(len(cases), 6000))
    for (fname, c, ops, tag, bad) in sample:
        j = tag[0]
        if tag[1] == "none" or not R.renderable(ops):  # a register bank > 3 cannot be built at all
            continue
        start = list(ops)
        start[j] = R.base_operand_json(tag[1], rng)
        hist_cases.append((fname, c, start, j, ops, bad))
    hm = ctx.driver.batch([{"op": "codec.encode", "fl": f, "i": {"c": H.T.cls_name(c), "o": ops}}
                           for f, c, _, _, ops, _ in hist_cases])
    for (fname, c, start, j, ops, bad), me in zip(hist_cases, hm):
        cname = H.T.cls_name(c)
        try:
            inst = R.build_direct(c, start)
            first = bytes(inst.serialize())
            str(inst)
            via = rng.choice(X.setter_aliases(c)[j])
            setattr(inst, via, H.operand_from_json(ops[j]))
        except Exception as e:  # the in-range start could not be built: not a history case
            res.count("history:setup-raises:" + type(e).__name__)
            continue
        try:
            rb, exc = list(bytes(inst.serialize())), None
        except Exception as e:
            rb, exc = None, type(e).__name__
        res.count("history-set-via:" + ("field" if via in [f.name for f in H.T.operand_fields(c)] else via))
        judge("history", fname, cname, ops, bad, rb, inst, me.get("b"), exc)
    # the metadata of a subroutine object: bytes(sub), then sub.app_id = ... in place
    from netqasm.lang.subroutine import Subroutine
    for app in [1, 65535, 65536, 70000, 2 ** 32 + 4464, -1]:
        res.evaluations += 1
        sub = Subroutine(instructions=[H.instr_from_json({"c": "core.SetInstruction",
                                                          "o": [{"r": [0, 1]}, {"i": 5}]})],
                         app_id=0, netqasm_version=(0, 0))
        bytes(sub)
        sub.app_id = app
        try:
            rb = list(bytes(sub))
        except Exception:
            rb = None
        badm = not 0 <= app <= 65535
        if badm:
            res.nontrivial.add(("history-meta", app))
        res.count(f"history-meta:{'rejected' if rb is None else 'encoded'}")
        if (rb is None) != badm or (rb is not None and rb[2] + 256 * rb[3] != app):
            _mk(res, "app id assigned in place after a first serialisation: altered or accepted out of range",
                {"app": app, "bytes": rb})

    # ------------------------------------------------------------ object histories, subroutine level
    # ONE Subroutine object: encode it, edit it in place (operand assigned through a field or a property
    # setter, operand objects mutated, instruction list append / insert / item assignment, app id,
    # instantiate), encode it again through every public route: the outcome must be that of a FRESH
    # encode of the same content -- an unrepresentable operand raises, nothing stale is returned
    import copy as _copy
    from netqasm.lang.subroutine import Subroutine as _Sub
    n_sh = 2500 if thorough else 500
    sh = []
    for _ in range(n_sh):
        fname = rng.choice(list(H.FLAVOURS))
        instrs = [_copy.deepcopy(H.random_instr(fname, rng)) for _ in range(rng.randrange(1, 6))]
        sub = _Sub(instructions=instrs, app_id=rng.choice([0, 1, 65535]), netqasm_version=(0, 0))
        steps = []
        try:
            first_how = rng.choice(R.ENCODERS)
            first, exc = R.encode_via(sub, first_how)
            steps.append({"encode": first_how, "raised": exc})
            for _e in range(rng.randrange(1, 4)):
                steps.append(R.edit_subroutine(sub, fname, rng))
                if rng.random() < 0.3:
                    how = rng.choice(R.ENCODERS)
                    steps.append({"encode": how, "raised": R.encode_via(sub, how)[1]})
            js, app, bad = R.content_of(sub)
            outcomes = {how: R.encode_via(sub, how) for how in R.ENCODERS}
            fresh = R.encode_via(R.fresh_copy(sub), "bytes(sub)")
        except Exception as e:  # a legal step raises inside the real code
            _mk(res, "a subroutine history of legal steps raises outside an encode", {"fl": fname, "steps": steps,
                "exception": type(e).__name__ + ": " + str(e)[:160]})
            continue
        sh.append((fname, steps, js, app, bad, outcomes, fresh))
    sm2 = ctx.driver.batch([{"op": "reject.encsub", "fl": f, "v0": 0, "v1": 0, "app": app, "is": js}
                            for f, _, js, app, _, _, _ in sh])
    for (fname, steps, js, app, bad, outcomes, fresh), m in zip(sh, sm2):
        res.evaluations += 1
        res.count("sub-history:" + ("rejected" if fresh[0] is None else "encoded"))
        for st in steps:
            if "edit" in st:
                res.count("sub-history-edit:" + st["edit"])
        if bad:
            res.nontrivial.add(("sub-history", fname, json.dumps(steps, sort_keys=True, default=str)[:2000]))
        if fresh[0] != m.get("b"):
            res.disagreements.append({"stream": "reject.sub-history", "input": {"fl": fname, "content": js, "app": app},
                                      "model": m.get("b"), "code": fresh[0]})
        for how, (rb, exc) in outcomes.items():
            if rb != fresh[0]:
                _mk(res, "encoding an edited subroutine object differs from a fresh encode of the same content "
                         "(stale bytes / missing rejection)",
                    {"fl": fname, "steps": steps, "route": how, "content_now": js, "app_id": app,
                     "unrepresentable": bad, "edited_object": rb if rb is None else rb[:64],
                     "fresh_encode": fresh[0] if fresh[0] is None else fresh[0][:64], "fresh_raises": fresh[1]})
                break
            if bad and rb is not None:
                _mk(res, "unrepresentable operand accepted after an in-place edit of an encoded subroutine",
                    {"fl": fname, "steps": steps, "route": how, "content_now": js, "app_id": app, "bytes": rb[:64]})
                break
    # proto-subroutine level: assemble + encode, edit an ICmd operand in place, assemble + encode again
    from netqasm.lang.parsing.text import assemble_subroutine, parse_text_protosubroutine
    from netqasm.lang.operand import Register as _Reg
    from netqasm.lang.encoding import RegisterName
    for _ in range(200 if thorough else 40):
        fname = rng.choice(list(H.FLAVOURS))
        picks = []
        while len(picks) < 3:
            c = rng.choice(H.flavour_classes(fname))
            ops = [R.base_operand_json(k, rng) for k in H.shape_of(c)]
            if R.renderable(ops) and H.shape_of(c):
                picks.append((c, ops))
        text = "# NETQASM 0.0\n# APPID 0\n" + "\n".join(
            " ".join([c.mnemonic] + [R.render_operand(o) for o in ops]) for c, ops in picks)
        res.evaluations += 1
        try:
            proto = parse_text_protosubroutine(text)
            first = bytes(assemble_subroutine(_copy.deepcopy(proto), flavour=H.FLAVOURS[fname]()))
            k = rng.randrange(len(picks))
            c, ops = picks[k]
            regs = [j for j, kd in enumerate(H.shape_of(c)) if kd == "reg"]
            imms = [j for j, kd in enumerate(H.shape_of(c)) if kd in ("imm8", "int32")]
            if regs and (not imms or rng.random() < 0.5):
                j = rng.choice(regs)
                proto.commands[k].operands[j] = _Reg(RegisterName.R, rng.choice([16, 17, 300]))
            elif imms:
                j = rng.choice(imms)
                proto.commands[k].operands[j] = rng.choice([2 ** 32 + 5, -2 ** 31 - 1, 2 ** 40])
            else:
                continue
            res.nontrivial.add(("proto-history", text, k, j))
            res.count("proto-history")
            try:
                second = list(bytes(assemble_subroutine(proto, flavour=H.FLAVOURS[fname]())))
            except Exception:
                second = None
            if second is not None:
                _mk(res, "unrepresentable operand accepted after an in-place edit of a ProtoSubroutine command",
                    {"fl": fname, "text": text, "edited_command": k, "slot": j, "bytes": second[:64]})
        except Exception as e:
            _mk(res, "a proto-subroutine history of legal steps raises outside the final encode",
                {"fl": fname, "text": text, "exception": type(e).__name__ + ": " + str(e)[:160]})

    # ------------------------------------------------------------ process-wide configurations
    # a compact pass of reject / accept cases (direct construction and text assembler) under every
    # configuration knob of the package (runtime settings, simulator selection, log level DEBUG): an
    # unrepresentable operand is rejected and a representable one encoded exactly as without it
    cfg_cases = []
    pick = rng.sample(range(len(cases)), min(len(cases), 400))
    for k in pick:
        fname, c, ops, tag, bad = cases[k]
        if len(cfg_cases) < 80 and R.renderable(ops) and (fname, H.T.cls_name(c)) not in clash41:
            cfg_cases.append((fname, c, ops, bad, enc[k].get("b")))

    def _cfg_pass(cname):
        for fname, c, ops, bad, mb_ in cfg_cases:
            res.evaluations += 1
            res.count("config:" + cname.split("(")[0].split("=")[0])
            rb, exc, inst = R.real_direct(c, ops)
            tb, texc, _p = R.real_text(fname, R.render_text(c.mnemonic, ops))
            tb = tb[4:] if tb is not None else None
            if rb != mb_ or tb != mb_ or (bad and (rb is not None or tb is not None)):
                _mk(res, "encode / reject outcome changes under a process-wide configuration",
                    {"config": cname, "fl": fname, "c": H.T.cls_name(c), "o": ops, "unrepresentable": bad,
                     "expected": mb_, "direct": rb, "text": tb, "exceptions": [exc, texc]})
    H.under_every_config(_cfg_pass)

    # ------------------------------------------------------------ alternative spellings, text route
    # every integer position of every class (immediate, address, array index / slice bound register,
    # register index, angle numerator / denominator) written as hex / octal / binary / with underscores,
    # sign, leading zeros, exponent, other digit alphabets ...: the assembler may reject the spelling, or
    # accept it with EXACTLY that value -- never with another one
    seen_cls = set()
    sp_cases = []
    for fname in ("vanilla", "nv"):
        for c in H.flavour_classes(fname):
            if (c.mnemonic, c.id) in seen_cls or (fname, H.T.cls_name(c)) in clash41:
                continue
            seen_cls.add((c.mnemonic, c.id))
            shape = H.shape_of(c)
            for j, kind in enumerate(shape):
                for path, part in R.parts_of(kind):
                    if part == "bank":
                        continue
                    good = [R.base_operand_json(k, rng) for k in shape]
                    if not R.renderable(good):
                        continue
                    vals = [rng.choice(R.JUST[part] + R.FAR[part][:5]), rng.choice(R.FAR[part][:8]),
                            rng.choice(R.INSIDE[part])]
                    if part in ("int32", "addr", "imm8", "idx"):
                        vals.append(2 ** 32 + rng.choice([1, 2, 3, 5]))        # low 32 bits look harmless
                        vals.append(0x1F00000000 + rng.randrange(1, 16))
                    if not thorough:
                        vals = rng.sample(vals, 2)
                    for v in vals:
                        for sname, stext in R.spellings(v):
                            sp_cases.append((fname, c, good, j, path, part, v, sname, stext))
    for (fname, c, good, j, path, part, v, sname, stext) in sp_cases:
        res.evaluations += 1
        words = [c.mnemonic] + [R.render_operand(o) if k != j else R.render_operand_alt(o, path, stext)
                                for k, o in enumerate(good)]
        text = "# NETQASM 0.0\n# APPID 0\n" + " ".join(words) + "\n"
        rb, exc, parsed = R.real_text(fname, text)
        res.count("spelling:" + sname + (":rejected" if rb is None else ":accepted"))
        bad = not R.in_range_part(part, v)
        if bad:
            res.nontrivial.add(("spelling", c.mnemonic, j, str(path), v, sname))
        if rb is None:
            continue
        want = {"c": H.T.cls_name(c), "o": [o if k != j else R.set_part(o, path, v) for k, o in enumerate(good)]}
        rs = H.real_decode_sub(fname, rb)
        got = [H.instr_to_json(i) for i in rs.instructions] if rs is not None else None
        if got != [want]:
            _mk(res, "the text assembler accepts a differently spelled integer with another value than written",
                {"fl": fname, "line": " ".join(words), "spelling": sname, "written_value": v, "position": [j, part],
                 "unrepresentable": bad, "assembled_as": [str(i) for i in rs.instructions] if rs else None})

    # ------------------------------------------------------------ metadata (app id, version)
    meta = []
    for app in [0, 1, 65535, 65536, 65537, 70000, 2 ** 32, 2 ** 32 + 4464, 10 ** 20, -1, -65536]:
        meta.append((0, 0, app))
    for v in [255, 256, 257, 511, 65536, 10 ** 20, -1, -256]:
        meta.append((v, 0, 7))
        meta.append((0, v, 7))
    setj = {"c": "core.SetInstruction", "o": [{"r": [0, 1]}, {"i": 5}]}
    mm = ctx.driver.batch([{"op": "reject.encsub", "fl": "vanilla", "v0": a, "v1": b, "app": c, "is": [setj]}
                           for a, b, c in meta])
    for (v0, v1, app), m in zip(meta, mm):
        bad = not (0 <= v0 <= 255 and 0 <= v1 <= 255 and 0 <= app <= 65535)
        for route in ("direct", "text"):
            res.evaluations += 1
            if bad:
                res.nontrivial.add((route, "meta", v0, v1, app))
            if route == "direct":
                rb = H.real_encode_sub([H.instr_from_json(setj)], app, (v0, v1))
            else:
                rb, _, _ = R.real_text("vanilla", R.render_text("set", setj["o"], v0, v1, app))
            res.count(f"meta-{route}:{'rejected' if rb is None else 'encoded'}")
            if rb != m.get("b"):
                res.disagreements.append({"stream": "reject.meta-" + route, "input": [v0, v1, app],
                                          "model": m.get("b"), "code": rb})
            if rb is not None:
                rs = H.real_decode_sub("vanilla", rb)
                if bad or rs is None or rs.app_id != app or tuple(rs.netqasm_version) != (v0, v1):
                    _mk(res, "metadata altered or out-of-range metadata accepted",
                        {"route": route, "v0": v0, "v1": v1, "app": app, "bytes": rb})

    # ------------------------------------------------------------ route S: the SDK
    ns = [0, 1, 15, 16, 17, 63, 64, 127, 128, 255, 256, 257, 300, 4095, 4096, 2 ** 31, 10 ** 20, -1]
    ds = [0, 1, 2, 3, 4, 5, 8, 255, 256, 300, -1]
    if thorough:
        ns += [rng.randrange(0, 5000) for _ in range(25)]
        ds += [rng.randrange(0, 400) for _ in range(10)]
    cfgs = [("vanilla", False, False), ("nv", True, False), ("nv", True, True)]
    axes = [("rot_X", "RotXInstruction"), ("rot_Y", "RotYInstruction"), ("rot_Z", "RotZInstruction")]
    sdk_cases = []
    for fname, nv, hw in cfgs:
        for meth, cn in axes:
            for n in ns:
                for d in ds:
                    sdk_cases.append((fname, nv, hw, meth, f"{fname}.{cn}", n, d))
    sm = ctx.driver.batch([{"op": "reject.sdkrot", "fl": f, "hw": hw, "c": cn, "q": 0, "n": n, "d": d}
                           for f, nv, hw, meth, cn, n, d in sdk_cases])
    for (fname, nv, hw, meth, cn, n, d), m in zip(sdk_cases, sm):
        res.evaluations += 1
        opcode = H.class_by_name(cn).id
        subs, exc = R.run_sdk(lambda c, q: getattr(q, meth)(n=n, d=d), nv, hw)
        got = None
        if subs is not None:
            cmds = R.commands_with_opcode(subs, opcode)
            got = cmds[0] if len(cmds) == 1 else {"unexpected": cmds}
        eff_n = n * 2 ** (4 - d) if (hw and 0 <= d <= 4) else n
        eff_d = 4 if hw else d
        bad = not (0 <= eff_n <= 255 and 0 <= eff_d <= 255)
        if bad:
            res.nontrivial.add(("sdk", fname, hw, cn, n, d))
        res.count(f"sdk:{'rejected' if got is None else 'encoded'}")
        if got != m.get("b"):
            res.disagreements.append({"stream": "reject.sdkrot",
                                      "input": {"fl": fname, "hw": hw, "c": cn, "n": n, "d": d, "exc": exc},
                                      "model": m.get("b"), "code": got})
        if got is not None:
            rd = H.real_decode(fname, got) if isinstance(got, list) else None
            ok = rd is not None and not bad and H.T.cls_name(type(rd)) == cn and \
                rd.operands[1].value == eff_n and rd.operands[2].value == eff_d
            if not ok:
                _mk(res, "SDK rotation altered or unrepresentable angle accepted",
                    {"fl": fname, "hw": hw, "c": cn, "n": n, "d": d, "bytes": got})
        if len(res.samples) < 6 and bad and res.evaluations % 97 == 0:
            res.samples.append({"route": "sdk", "fl": fname, "hw": hw, "call": f"{meth}(n={n}, d={d})",
                                "raises": exc, "model": m.get("b")})
    # every integer-taking entry point of the SDK surface (registers, qubit addresses, arrays, loops,
    # branches, futures, EPR arguments ...): a fresh connection per probe; first with an in-range marker to
    # learn whether the parameter reaches the subroutine at all, then with out-of-range values: the flush
    # must raise, or the committed program must carry exactly the given value -- never a wrapped one
    MARK = 12345
    oor = [2 ** 32 + 5, 2 ** 31, -2 ** 31 - 1, 2 ** 64, 2 ** 32 + 2 ** 31 + 7]
    if thorough:
        oor += [10 ** 20, -2 ** 32 - 5, 2 ** 33, 2 ** 32]
    setm = ctx.driver.batch([{"op": "codec.encode", "fl": "vanilla",
                              "i": {"c": "core.SetInstruction", "o": [{"r": [0, 0]}, {"i": v}]}} for v in oor])
    for v, m in zip(oor, setm):
        if m.get("b") is not None:
            res.disagreements.append({"stream": "reject.sdk-int", "input": v, "model": m.get("b"),
                                      "code": "model encodes a value the harness calls out of range"})
    for pname, width, body in R.sdk_int_probes():
        subs, exc, _raws = R.run_sdk_int_probe(pname, body, MARK)
        res.evaluations += 1
        if subs is None or MARK not in R.all_ints_of(subs):
            res.count("sdk-int:not-in-program" if subs is not None else "sdk-int:marker-raises")
            continue
        for v in oor:
            res.evaluations += 1
            res.nontrivial.add(("sdk-int", pname, v))
            subs, exc, _raws = R.run_sdk_int_probe(pname, body, v)
            res.count("sdk-int:" + ("rejected" if subs is None else "flushed"))
            if subs is None:
                continue
            ints = R.all_ints_of(subs)
            if v not in ints:
                wrapped = ((v + 2 ** 31) % 2 ** 32) - 2 ** 31
                _mk(res, "an out-of-range integer given to the SDK is flushed without error and the program "
                         "does not carry it (silently altered)",
                    {"sdk_call": pname, "value": v, "value_mod_2^32_signed": wrapped,
                     "wrapped_value_in_program": wrapped in ints,
                     "program": [[str(i) for i in __import__("netqasm.lang.parsing.binary", fromlist=["d"]
                                                            ).deserialize(sb).instructions][:12] for sb in subs][:2]})
    # measurement bases and app ids through the SDK
    vals8 = [0, 1, 24, 255, 256, 257, 300, 65536 + 3, 10 ** 20, -1, -256]
    rots = [(0, 0, 0), (255, 255, 255), (8, 24, 31)]
    for pos in range(3):
        for v in vals8:
            r = [rng.choice([0, 8, 255]) for _ in range(3)]
            r[pos] = v
            rots.append(tuple(r))
    for _ in range(60 if thorough else 10):
        rots.append(tuple(rng.choice(vals8 + [rng.randrange(256)]) for _ in range(3)))
    meas_cases = [(fname, nv, r) for fname, nv in (("vanilla", False), ("nv", True)) for r in rots]
    mb = ctx.driver.batch([{"op": "reject.sdkmeas", "fl": f, "a": [0, 0, a, b, c]} for f, _, (a, b, c) in meas_cases])
    for (fname, nv, (a, b, c)), m in zip(meas_cases, mb):
        res.evaluations += 1
        subs, exc = R.run_sdk(lambda cn, q: q.measure(basis_rotations=(a, b, c)), nv)
        got = None
        if subs is not None:
            cmds = R.commands_with_opcode(subs, 41)
            got = cmds[0] if len(cmds) == 1 else {"unexpected": cmds}
        bad = not all(0 <= v <= 255 for v in (a, b, c))
        if bad:
            res.nontrivial.add(("sdk-meas", fname, a, b, c))
        res.count(f"sdk-meas:{'rejected' if got is None else 'encoded'}")
        if got != m.get("b"):
            res.disagreements.append({"stream": "reject.sdkmeas", "input": [fname, a, b, c, exc],
                                      "model": m.get("b"), "code": got})
        if got is not None and (bad or got[3:7] != [a, b, c, 4]):
            _mk(res, "SDK measurement basis altered", {"fl": fname, "rotations": [a, b, c], "bytes": got})
    # the named bases X / Y are emitted as meas_basis with fixed immediates
    from netqasm.sdk.qubit import QubitMeasureBasis
    for basis, want in ((QubitMeasureBasis.X, [0, 24, 0, 4]), (QubitMeasureBasis.Y, [8, 0, 0, 4])):
        res.evaluations += 1
        subs, exc = R.run_sdk(lambda cn, q: q.measure(basis=basis))
        cmds = R.commands_with_opcode(subs, 41) if subs is not None else None
        res.count("sdk-meas-named")
        if not cmds or len(cmds) != 1 or cmds[0][3:7] != want:
            _mk(res, "SDK named measurement basis altered", {"basis": str(basis), "commands": cmds, "exc": exc})
    # breakpoints: the two immediates are `action.value`, `role.value`
    import types
    from netqasm.lang.ir import BreakpointAction, BreakpointRole
    brk = [(a, r, True) for a in BreakpointAction for r in BreakpointRole]
    for v in vals8:
        brk.append((types.SimpleNamespace(value=v), BreakpointRole.CREATE, False))
        brk.append((BreakpointAction.NOP, types.SimpleNamespace(value=v), False))
    bm = ctx.driver.batch([{"op": "reject.sdkbrk", "fl": "vanilla", "a": [a.value, r.value]} for a, r, _ in brk])
    for (a, r, is_enum), m in zip(brk, bm):
        res.evaluations += 1
        subs, exc = R.run_sdk(lambda cn, q: cn.insert_breakpoint(a, r))
        got = None
        if subs is not None:
            cmds = R.commands_with_opcode(subs, 100)
            got = cmds[0] if len(cmds) == 1 else {"unexpected": cmds}
        bad = not (0 <= a.value <= 255 and 0 <= r.value <= 255)
        if bad:
            res.nontrivial.add(("sdk-brk", a.value, r.value))
        res.count(f"sdk-breakpoint:{'rejected' if got is None else 'encoded'}")
        if got != m.get("b"):
            res.disagreements.append({"stream": "reject.sdkbrk", "input": [a.value, r.value, exc],
                                      "model": m.get("b"), "code": got})
        if got is not None and (bad or got[1:3] != [a.value, r.value]):
            _mk(res, "SDK breakpoint immediates altered", {"action": a.value, "role": r.value, "bytes": got})
    for app in [0, 65535, 65536, 70000, 2 ** 32 + 1]:
        res.evaluations += 1
        subs, exc = R.run_sdk(lambda cn, q: q.H(), app_id=app)
        bad = not 0 <= app <= 65535
        if bad:
            res.nontrivial.add(("sdk-app", app))
        res.count(f"sdk-app:{'rejected' if subs is None else 'encoded'}")
        if (subs is None) != bad:
            res.disagreements.append({"stream": "reject.sdk-app", "input": app,
                                      "model": "none" if bad else "some", "code": exc})
        if subs is not None:
            for s in subs:
                if bad or s[2] + 256 * s[3] != app:
                    _mk(res, "SDK app id altered", {"app": app, "bytes": list(s[:4])})
    # The rejection must not depend on the interpreter's mode: with `python -O` assert statements
    # are compiled away, so a range check written as an assertion silently disappears.
    import subprocess
    import sys as _sys
    from vlib import common as _common
    code = r"""
import sys, json
sys.path.insert(0, %r)
from netqasm.lang.parsing.text import parse_text_subroutine
from netqasm.lang.parsing.binary import deserialize
from netqasm.lang.instr.flavour import NVFlavour
from netqasm.lang.subroutine import Subroutine
out = []
for t in ["set R16 5", "set R1 2147483648", "rot_x Q0 300 4", "store R0 @4294967296[R1]", "jmp -2147483649",
          "meas_basis Q0 M0 256 1 1 1", "set R1 -5"]:
    try:
        s = parse_text_subroutine("# NETQASM 1.0\n# APPID 0\n" + t, flavour=NVFlavour())
        b = bytes(s)
        back = [str(i) for i in deserialize(b, flavour=NVFlavour()).instructions]
        out.append([t, "encoded", back])
    except Exception as e:
        out.append([t, "raised", type(e).__name__])
for app in [65536, 70000, -1]:
    try:
        out.append(["app %%d" %% app, "encoded", list(bytes(Subroutine(instructions=[], app_id=app)))])
    except Exception as e:
        out.append(["app %%d" %% app, "raised", type(e).__name__])
print(json.dumps(out))
""" % (_common.REPO,)
    for flag in ([], ["-O"], ["-OO"]):
        try:
            p = subprocess.run([_sys.executable] + flag + ["-c", code], capture_output=True, text=True, timeout=120)
            rows = json.loads(p.stdout.strip().split("\n")[-1])
        except Exception as exc:  # the probe itself could not run
            res.disagreements.append({"stream": "reject.optimised-interpreter", "input": {"flag": flag},
                                      "model": "runs", "code": f"probe failed: {exc}"})
            continue
        for (t, what, detail) in rows:
            res.evaluations += 1
            res.count("interp" + ("".join(flag) or "-default"))
            legal = t == "set R1 -5"
            if legal:
                if what != "encoded" or detail != ["set R1 -5"]:
                    res.failures.append({"what": "an in-range program is not encoded faithfully", "kf": None,
                                         "input": {"python_flags": flag, "text": t, "result": [what, detail]}})
            elif what != "raised":
                res.failures.append({"what": "an unrepresentable operand is encoded instead of rejected "
                                             "(interpreter mode %s)" % ("".join(flag) or "default"), "kf": None,
                                     "input": {"python_flags": flag, "text": t, "decodes_as": detail}})
    # The rejection must not depend on what the process did before (module-level / class-level state
    # such as memoised field lists): run the same probes in FRESH interpreters after different warm-ups
    # -- base structs instantiated directly, every struct of the encoding module default-constructed,
    # an accepted / a rejected encode, a decode, the SDK imported -- and in different probe orders.
    probes = []  # (flavour, text, expected canonical line or None when it must be rejected)
    seen_mn = set()
    for fname in ("vanilla", "nv"):
        for c in H.flavour_classes(fname):
            if (c.mnemonic, c.id) in seen_mn:
                continue
            seen_mn.add((c.mnemonic, c.id))
            shape = H.shape_of(c)
            good = [R.base_operand_json(k, rng) for k in shape]
            if R.renderable(good) and (fname, H.T.cls_name(c)) not in clash41:
                line = " ".join([c.mnemonic] + [R.render_operand(o) for o in good])
                probes.append((fname, R.render_text(c.mnemonic, good), line))
            for j, kind in enumerate(shape):
                for path, part in R.parts_of(kind):
                    if part == "bank":
                        continue
                    ops = list(good)
                    ops[j] = R.set_part(ops[j], path, rng.choice(R.JUST[part] + R.FAR[part][:3]))
                    probes.append((fname, R.render_text(c.mnemonic, ops), None))
    warmups = [[], ["Command()"], ["Register()"], ["Address()"], ["Metadata()"],
               ["Command()", "Register()", "Address()", "Metadata()"], ["all-structs"], ["rejected"],
               ["accepted", "decode"], ["sdk"], ["NoOperandCommand()", "rejected", "Command()"]]
    extra = ["Command()", "Register()", "Address()", "Metadata()", "all-structs", "rejected", "accepted",
             "decode", "sdk", "NoOperandCommand()", "ArrayEntry()", "ArraySlice()", "OptionalInt"]
    if not thorough:  # keep the quick tier small: the base struct most commands derive from, the
        # combined and generic warm-ups, and a few random ones
        warmups = [[], ["Command()"], ["Command()", "Register()", "Address()", "Metadata()"], ["all-structs"],
                   ["rejected"], ["accepted", "decode"], ["sdk"]]
    for _ in range(30 if thorough else 2):
        warmups.append(rng.sample(extra, rng.randrange(1, 5)))
    order_code = r"""
import sys, json
sys.path.insert(0, %r)
plan = json.loads(sys.stdin.read())
from netqasm.lang import encoding
from netqasm.lang.parsing.text import parse_text_subroutine
from netqasm.lang.parsing.binary import deserialize
from netqasm.lang.instr import flavour as fl
import ctypes
FL = {"vanilla": fl.VanillaFlavour, "nv": fl.NVFlavour}
PRE = "# NETQASM 1.0\n# APPID 0\n"
for w in plan["warmup"]:
    try:
        if w == "all-structs":
            for name in dir(encoding):
                obj = getattr(encoding, name)
                if isinstance(obj, type) and issubclass(obj, ctypes.Structure) and obj is not ctypes.Structure:
                    try:
                        obj()
                    except Exception:
                        pass
        elif w == "rejected":
            try:
                bytes(parse_text_subroutine(PRE + "set R1 2147483648"))
            except Exception:
                pass
        elif w == "accepted":
            bytes(parse_text_subroutine(PRE + "qalloc Q0"))
        elif w == "decode":
            deserialize(bytes(parse_text_subroutine(PRE + "x Q1\nret_reg M0")))
        elif w == "sdk":
            import netqasm.sdk.connection, netqasm.sdk.qubit, netqasm.backend.messages
        elif w == "OptionalInt":
            encoding.OptionalInt(5)
        else:
            getattr(encoding, w[:-2])()
    except Exception as e:
        print("warmup", w, type(e).__name__, file=sys.stderr)
out = []
for k in plan["order"]:
    f, text = plan["probes"][k]
    try:
        s = parse_text_subroutine(text, flavour=FL[f]())
        back = [str(i) for i in deserialize(bytes(s), flavour=FL[f]()).instructions]
        out.append([k, "encoded", back])
    except Exception as e:
        out.append([k, "raised", type(e).__name__])
print(json.dumps(out))
""" % (_common.REPO,)
    plans = []
    for wu in warmups:
        order = list(range(len(probes)))
        if wu:
            rng.shuffle(order)
        plans.append((wu, order, {"warmup": wu, "order": order, "probes": [[f, t] for f, t, _ in probes]}))

    def _run_plan(item):
        wu, order, plan = item
        try:
            p = subprocess.run([_sys.executable, "-c", order_code], input=json.dumps(plan), capture_output=True,
                               text=True, timeout=300)
            return json.loads(p.stdout.strip().split("\n")[-1])
        except Exception as exc:
            return exc

    from concurrent.futures import ThreadPoolExecutor
    with ThreadPoolExecutor(max_workers=8) as pool:
        results = list(pool.map(_run_plan, plans))
    for (wu, order, plan), rows in zip(plans, results):
        if isinstance(rows, Exception):
            res.disagreements.append({"stream": "reject.call-order", "input": {"warmup": wu},
                                      "model": "runs", "code": f"probe failed: {rows}"})
            continue
        res.count("fresh-process-warmup:" + ("+".join(wu) or "none"))
        for k, what, detail in rows:
            res.evaluations += 1
            fname, text, want = probes[k]
            line = text.strip().split("\n")[-1]
            if want is None:
                res.nontrivial.add(("order", "+".join(wu), fname, line))
                if what != "raised":
                    res.failures.append({"what": "an unrepresentable operand is encoded instead of rejected, "
                                                 "depending on what the process did before", "kf": None,
                                         "input": {"fresh_process_warmup": wu, "flavour": fname, "text": line,
                                                   "position_in_order": order.index(k),
                                                   "decodes_as": detail}})
            elif what != "encoded" or detail != [want]:
                res.failures.append({"what": "an in-range program is not encoded faithfully (fresh process, "
                                             "after a warm-up)", "kf": None,
                                     "input": {"fresh_process_warmup": wu, "flavour": fname, "text": line,
                                               "result": [what, detail]}})
    return res
