"""C12 — controller matches entanglement responses to requests under any interleaving."""
import hashlib
import json

from check import Result

PROP = "C12"
TARGETS = ["NetqasmVerif.Props.C12", "NetqasmVerif.Props.C12Bridge", "NetqasmVerif.Props.QlinkObligations",
           "NetqasmVerif.Props.C12Controller"]
M = "NetqasmVerif.Props.C12"
THEOREMS = [(M, "NQ.C12." + n) for n in [
    "exactly_once", "exactly_once_count", "consumed_by_oldest_in_order", "consumed_by_head",
    "retired_iff_complete", "consume_effect", "keep_only_when_free", "unit_never_overwritten",
    "wait_sound", "handlePending_quiescent", "scenario_nonvacuous", "measure_overtakes_deferred_keep",
    "rejected_issue_unchanged", "queued_requests_were_issued", "busy_virtual_defers",
    "one_communication_qubit_defers"]]
MQ = "NetqasmVerif.Props.QlinkObligations"
THEOREMS += [(MQ, "NQ.Qlink." + n) for n in ["response_conversion_copies_every_field", "basis_conversion_exact",
                                             "bell_state_verbatim"]]
MC = "NetqasmVerif.Props.C12Controller"
THEOREMS += [(MC, "NQ.C12." + n) for n in [
    "controller_refines_exec", "controller_exactly_once", "controller_consumed_by_oldest_in_order",
    "controller_consume_refines", "inv_controller_consume", "inv_controller_handlePending",
    "inv_controller_deliver", "inv_controller_tick", "controller_wait_sound",
    "epr_fault_atomic", "wait_block_unchanged", "controller_rejected_issue_unchanged", "controller_nonvacuous"]]
MB = "NetqasmVerif.Props.C12Bridge"
THEOREMS += [(MB, "NQ.C12." + n) for n in [
    "keep_handler_is_exec_keep", "handler_preserves_qubit_invariant", "measure_handler_keeps_rel",
    "handlePending_preserves_qubit_invariant", "bridge_nonvacuous"]]
TRANSLATORS = ["epr_tables", "qlink_tables"]
LEVEL_TEXT = ('Lean theorems over a transition system of the controller\'s EPR bookkeeping (request queues per '
              '(remote node, purpose, role), pending list, result arrays, unit modules, live subroutines; actions: '
              'instruction steps incl. create/recv/qalloc/qfree/store/wait, response delivery, poll), proved by '
              'induction over ALL action sequences (no bound on requests, pairs, applications): exactly-once '
              'consumption, consumption by the oldest request in pair order, retirement after exactly tot_pairs, '
              'slice k / k-th virtual qubit, keep responses only onto free virtual ids, wait soundness; bridge to the '
              'controller model of C13: a keep response consumed by this handler is a successful Exec.keepResp, so '
              'C13\'s qubit invariant is preserved by real response handling under a hypothesis on the link '
              'layer\'s physical ids only. Tie: '
              'differential replay of random and (thorough) exhaustively enumerated schedules on the real Executor '
              'with instruction-granularity yields vs the compiled model, state compared after every action, plus '
              'a model-free oracle of the six invariants plus quiescence (after a delivery or poll no handleable '
              'response is left pending; a request whose queue received all its responses is retired) on the '
              'executor\'s own fields; scenarios include both roles on one socket with early-arriving responses.')
LEVEL_TEXT += (' The combined controller model (Model/Controller.lean = Exec + Epr by composition: Exec\'s '
               'instruction set plus register-level create_epr/recv_epr/wait_*, deliver/poll on Exec\'s arrays and '
               'unit module) satisfies the same theorems for every reachable controller state, equals Exec on '
               'EPR-free programs, preserves C13\'s invariant, and is compared with the real executor on the FULL '
               'state (registers, all arrays, shared memory, unit modules, program counters, queues, pending) '
               'after every action.')
LEVEL_NOTE = ('Trusted: Lean kernel; harness/epr.py (schedule replay, canonicalisation); the hand-written model '
              'Model/Epr.lean is tied to executor.py only by the correspondence stream. Registers and request '
              'decoding are outside this model (C04/C11). Environment assumptions are hypotheses: issuing '
              'subroutine live at consumption, pair count >= 1, result array long enough.')
TECHNIQUE = 'Lean 4 proof (invariants by induction over action traces, history variables) + differential correspondence + invariant oracle'
TRUSTED = [
    "Lean 4.33 kernel; axioms at most propext, Classical.choice, Quot.sound (audited per theorem)",
    "Model/Epr.lean is a hand-written model of executor.py's EPR bookkeeping; its tie to the code is the "
    "differential stream (state equality after every action of every explored schedule)",
    "harness/epr.py: SteppingExecutor overrides only documented extension points (node_id, _do_wait, "
    "_wait_to_handle_epr_responses as no-op, _execute_command yielding before delegating)",
]
ASSUMPTIONS = [
    "the result array of a CREATE request may be longer than 10*pairs (a reused buffer): the pair count comes "
    "from the request arguments; for a receive request it is len/10 by definition",
    "application life cycle: stop_application may occur anywhere in a schedule (in well-formed scenarios after "
    "the application's subroutines have ended); it drops the application's memory and qubits only — requests, "
    "the pending list and the subroutine table are untouched (model action stopApp)",
    "link-layer behaviours explored: distinct physical ids per pair AND one communication qubit (every keep "
    "response carries the same logical_qubit_id; keep requests of the sequential kind, one at a time); globally "
    "unique create ids AND per-link numbering (equal (create_id, sequence_number) on different remote nodes). "
    "A response is identified on the wire by (remote node, create id, sequence number, direction)",
    "faults at the environment boundary are modelled as the action `rejected`: a create_epr/recv_epr whose call "
    "into the network stack (put, get_purpose_id) raised changes nothing (issuing is atomic with the stack's "
    "acceptance); the raising subroutine stays registered, as in the code",
    "executor instances share nothing: each executor of a process is an independent run of the model",
    "responses reach the controller natively or as qlink-interface 1.0 objects converted by the real "
    "response_from_qlink_1_0 (K and M; the executor converts neither R-type nor unknown objects); purpose ids "
    "depend on (remote node, socket): harness stack remote*1000+socket",
    "the subroutine that issued a request is still live when its responses are consumed (otherwise "
    "_get_app_id raises inside the handler; the model returns 'raises' there too)",
    "requests ask for >= 1 pair and their result array holds 10*pairs entries (a 0-pair request is never retired)",
    "LINK-LAYER ORDER: the responses of one queue (remote node, purpose, role) are delivered in the order "
    "of the requests they answer and with fresh physical qubit ids; the bookkeeping itself never reads "
    "sequence numbers. 'Pair k of a request' = the k-th response it consumes; this is the k-th pair "
    "generated for it under link-layer order when the requests of a queue have one type. Observation "
    "measure_overtakes_deferred_keep (kept as an observation): with keep and measure requests mixed in one "
    "queue, a measure response answering the younger request is consumed by the older keep request while "
    "its own keep response is deferred",
    "two live subroutines of one application are switched only at the executor's own yield points",
    "_wait_to_handle_epr_responses is overridden (as every simulator does): the base version recurses forever",
]


def _run_case(ctx, res, H, sc, toks, tag):
    rp = H.Replayer(sc, H.new_executor())
    # the controller model (Model/Controller.lean) is compared on the FULL state (registers, all arrays,
    # shared memory, unit modules, program counters, queues, pending) — every case in the thorough tier,
    # a sample in the quick tier
    rp.full = ctx.thorough or (res.evaluations % 5 == 0) or tag == "replay"
    for tok in toks:
        rp.step(tok)
        if rp.stopped:
            break
    init, steps, orc = rp.init_acts, rp.steps, rp.oracle
    req = H.model_request(init, steps)
    out = ctx.driver.call(req)
    res.evaluations += 1
    d = H.compare_with_model(out, init, steps) if "obs" in out else {"model": out}
    if rp.full:
        cout = ctx.driver.call(H.ctl_request(rp))
        dc = H.compare_with_ctl(cout, rp) if "obs" in cout else {"model": cout}
        res.count("controller-model-full-state")
        if dc is not None:
            res.disagreements.append({"stream": "ctl.run (full state)", "input": {"scenario": sc.desc(), "schedule": toks},
                                      "model": json.loads(json.dumps(dc.get("model", dc), default=str)),
                                      "code": json.loads(json.dumps(dc.get("code", dc), default=str)),
                                      "what": str(dc.get("what", ""))})
    nact = sum(len(s["acts"]) for s in steps)
    res.count("actions", nact)
    res.count("responses-consumed", len(orc.consumed))
    for s in steps:
        res.count("tok:" + s["tok"][0])
        if "raised" in s:
            res.count("raised:" + s["raised"])
        if s.get("wait") is True:
            res.count("wait-blocked")
        if s.get("wait") is False:
            res.count("wait-passed")
    if orc.mixed:
        res.count("mixed-type-key")
    if len(orc.consumed) > 0:
        res.nontrivial.add(hashlib.sha1((tag + json.dumps(sc.desc(), sort_keys=True) + json.dumps(toks))
                                        .encode()).hexdigest()[:20])
    if d is not None:
        res.disagreements.append({"stream": "epr.run", "input": {"scenario": sc.desc(), "schedule": toks},
                                  "model": d.get("model", d), "code": d.get("code", d)})
    unexpected = [st for st in steps if "raised" in st]
    if unexpected and not sc.malformed and not orc.violations:
        orc.violations.append({"what": "the executor raised %s in a well-formed scenario (step %s)"
                                       % (unexpected[0]["raised"], unexpected[0]["tok"])})
    if orc.violations and not sc.malformed:
        res.failures.append({"what": orc.violations[0]["what"], "kf": None,
                             "input": {"scenario": sc.desc(), "schedule": toks,
                                       "violations": json.loads(json.dumps(orc.violations[:5], default=str))}})
    if len(res.samples) < 4 and len(orc.consumed) >= 2 and res.evaluations % 50 == 1:
        res.samples.append({"scenario": sc.desc(), "schedule": toks[:60], "consumed": len(orc.consumed)})
    return d, orc


# once this many failing inputs are on record the remaining streams add nothing (and a broken executor may
# make every further case slower and slower)
MAX_FAILURES = 400


def _run_two(ctx, res, H, scs, toks):
    rps = H.replay_two(scs, toks)
    res.evaluations += 1
    res.count("two-executors")
    inp = {"two_executors": [sc.desc() for sc in scs], "schedule": [[k, list(t)] for k, t in toks]}
    for k, rp in enumerate(rps):
        out = ctx.driver.call(H.model_request(rp.init_acts, rp.steps))
        d = H.compare_with_model(out, rp.init_acts, rp.steps) if "obs" in out else {"model": out}
        if d is not None:
            res.disagreements.append({"stream": "epr.run(two executors, node %d)" % k, "input": inp,
                                      "model": d.get("model", d), "code": d.get("code", d)})
        viol = list(rp.oracle.violations)
        raised = [st for st in rp.steps if "raised" in st]
        if raised and not viol:
            viol.append({"what": "executor %d raised %s in a well-formed scenario" % (k, raised[0]["raised"])})
        if viol:
            res.failures.append({"what": "executor %d of 2: %s" % (k, viol[0]["what"]), "kf": None,
                                 "input": {**inp, "violations": json.loads(json.dumps(viol[:5], default=str))}})
            break
        if rp.oracle.consumed:
            res.nontrivial.add(hashlib.sha1((json.dumps(inp, sort_keys=True)).encode()).hexdigest()[:20])


def run(ctx):
    from harness import epr as H
    H.quiet()
    res = Result()
    res.rule = ("a case = (scenario, schedule); non-trivial when at least one response was consumed by a "
                "request; distinct by hash of (scenario programs + responses, schedule)")
    rng = ctx.rng
    # several executor instances in one process (two nodes), schedules interleaved: a response parked at
    # one executor must never show up at, or be consumed by, the other
    n_two = 1000 if ctx.thorough else 200
    for i in range(n_two):
        if len(res.failures) >= MAX_FAILURES:
            break
        scs = [H.gen_scenario(rng), H.gen_scenario(rng, mixed_roles=(i % 2 == 0))]
        for r in scs[1].resps:
            r.uid += 1000
            r.cid += 1000
        toks = H.interleave(rng, H.random_schedule(scs[0], rng, early=rng.choice([0, 1, 2])),
                            H.random_schedule(scs[1], rng, early=rng.choice([0, 1, 2])))
        _run_two(ctx, res, H, scs, toks)
    n_random = 8000 if ctx.thorough else 750
    for i in range(n_random):
        if len(res.failures) >= MAX_FAILURES:
            break
        mal = rng.random() < 0.12
        sc = H.gen_scenario(rng, malformed=mal)
        toks = H.random_schedule(sc, rng)
        _run_case(ctx, res, H, sc, toks, "rnd")
    # create and receive roles mixed on ONE socket, responses arriving before their instruction ran
    n_mixed = 3000 if ctx.thorough else 350
    for i in range(n_mixed):
        if len(res.failures) >= MAX_FAILURES:
            break
        sc = H.gen_scenario(rng, mixed_roles=True)
        toks = H.random_schedule(sc, rng, early=rng.choice([0, 1, 1, 2, 3]))
        _run_case(ctx, res, H, sc, toks, "mix")
        res.count("mixed-roles-one-socket")
    # link-layer behaviours: ONE communication qubit (every keep response carries the same physical id;
    # sequential keep requests whose pairs share a virtual qubit) and per-link numbering (responses of two
    # remote nodes carry equal (create_id, sequence_number))
    n_link = 3000 if ctx.thorough else 420
    for i in range(n_link):
        if len(res.failures) >= MAX_FAILURES:
            break
        if i % 2 == 0:
            sc = H.gen_scenario(rng, one_comm=True, per_link=(i % 4 == 0))
            res.count("link:one-communication-qubit")
        else:
            sc = H.gen_scenario(rng, per_link=True, two_remotes=True, mixed_roles=False)
            res.count("link:per-link-numbering-two-remotes")
        toks = H.random_schedule(sc, rng, early=rng.choice([0, 0, 1, 2]))
        _run_case(ctx, res, H, sc, toks, "lnk")
    # application life cycle inside the schedules: two applications on the node, stop_application of one
    # while responses for the other's not-yet-issued requests are parked
    n_life = 2500 if ctx.thorough else 380
    for i in range(n_life):
        if len(res.failures) >= MAX_FAILURES:
            break
        sc = H.gen_scenario(rng, two_apps=True, mixed_roles=(i % 3 == 0), malformed=(i % 9 == 8))
        toks = H.random_schedule(sc, rng, early=rng.choice([0, 1, 2, 3, len(sc.resps)]), stops=True)
        _run_case(ctx, res, H, sc, toks, "lif")
        res.count("life-cycle:stop-in-schedule")
    # faults at the environment boundary: the network stack refuses a request (put raises) or does not
    # know the socket (get_purpose_id raises) inside one subroutine; the others go on using the socket
    n_fault = 2000 if ctx.thorough else 350
    for i in range(n_fault):
        if len(res.failures) >= MAX_FAILURES:
            break
        sc = H.gen_scenario(rng, faults=True)
        toks = H.random_schedule(sc, rng, early=rng.choice([0, 0, 1]))
        _run_case(ctx, res, H, sc, toks, "flt")
        res.count("stack-fault:%s" % sc.fault)
    # exhaustive interleavings of small scenarios (one subroutine): every merge of the instruction
    # sequence with the per-queue response sequences; counted as complete when not cut by the cap
    n_small = 18 if ctx.thorough else 5
    cap = 1500 if ctx.thorough else 250
    for i in range(n_small):
        if len(res.failures) >= MAX_FAILURES:
            break
        sc = H.gen_scenario(rng, max_reqs=2, max_pairs=2 if i % 2 else 3, small=True, mixed_roles=(i % 3 == 0),
                            one_comm=(i % 3 == 1), per_link=(i % 2 == 0))
        k = 0
        for toks in H.exhaustive_schedules(sc, cap):
            _run_case(ctx, res, H, sc, toks, "exh")
            k += 1
        res.count("exhaustive-schedules", k)
        res.count("exhaustive-scenarios-complete" if k < cap else "exhaustive-scenarios-cut-by-cap")
    return res


def replay(ctx, payload):
    """Re-run the failing (scenario, schedule) of a replay file on the real executor and the model."""
    from harness import epr as H
    H.quiet()
    inp = (payload.get("failure") or {}).get("input")
    if inp is None:
        for t in payload.get("no_longer_checks", []):
            if t.get("kind") == "correspondence":
                inp = t["input"]
                break
    if inp is None:
        print("replay file names no input:", json.dumps(payload.get("no_longer_checks", [])[:3])[:600])
        return 1
    if "two_executors" in inp:
        scs = [H.Scenario.from_desc(d) for d in inp["two_executors"]]
        res = Result()
        _run_two(ctx, res, H, scs, [(k, tuple(t)) for k, t in inp["schedule"]])
        for f in res.failures:
            print("FAIL:", f["what"])
        for d in res.disagreements:
            print("MODEL!=CODE:", d["stream"], str(d["code"])[:300])
        return 1 if (res.failures or res.disagreements) else 0
    sc = H.Scenario.from_desc(inp["scenario"])
    toks = [tuple(t) for t in inp["schedule"]]
    res = Result()
    d, orc = _run_case(ctx, res, H, sc, toks, "replay")
    print("model-vs-code:", d)
    print("oracle:", json.dumps(orc.violations[:5], default=str))
    return 1 if (d or res.failures) else 0
