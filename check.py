#!/venv/bin/python
"""One check = translate -> prove -> audit -> correspond -> oracle search -> report.

usage: check.py Cxx [--tier quick|thorough] [--replay path]
exit 0: property held on everything explored (known findings are printed)
exit 1: VIOLATION line printed
exit 2: infrastructure error (never reported as a violation)
"""
import argparse
import importlib
import json
import os
import sys
import traceback

sys.path.insert(0, os.path.dirname(os.path.abspath(__file__)))
from vlib import common  # noqa: E402


class Ctx:
    def __init__(self, prop, tier, seed):
        self.prop = prop
        self.tier = tier
        self.seed = seed
        self.rng = common.Rng(seed * 1000003 + sum(map(ord, prop)))
        self._driver = None
        self.tie_broken = []  # descriptions of proof / translation / correspondence breakage
        self.notes = []

    @property
    def thorough(self):
        return self.tier == "thorough"

    @property
    def driver(self):
        if self._driver is None:
            self._driver = common.Driver()
        return self._driver

    def close(self):
        if self._driver is not None:
            self._driver.close()


class Result:
    """What a plug-in's `run` returns."""

    def __init__(self):
        self.evaluations = 0
        self.nontrivial = set()  # hashable descriptors of distinct non-trivial cases
        self.rule = ""
        self.samples = []
        self.distribution = {}
        self.disagreements = []  # model vs code: {"stream":..., "input":..., "model":..., "code":...}
        self.failures = []  # property fails on the real code: {"what":..., "input":..., "kf": id or None}
        self.gen_obligations = []  # names of generated obligations (for the evidence count)

    def count(self, key, n=1):
        self.distribution[key] = self.distribution.get(key, 0) + n


class RunGuard:
    """Bounds what the correspondence / oracle stage may consume. The real code runs in-process on generated
    inputs (including malformed ones); a change that makes it allocate without bound or loop forever must not turn
    the check into a hang (which a caller could only report as a timeout). Address space is capped (a MemoryError
    raised inside /repo's code is then an ordinary 'code raised here' event for the plug-in, or a broken tie), and a
    watchdog far above the normal running time (quick <= 40 s, thorough <= 15 min) ends the stage as a broken tie:
    the property is no longer shown to hold."""

    class Expired(Exception):
        pass

    def __init__(self, tier):
        self.tier = tier
        self.old = None
        self.secs = int(os.environ.get("VERIF_STAGE_TIMEOUT", "1500" if tier == "quick" else "10800"))
        self.mem = int(float(os.environ.get("VERIF_MEM_GB", "8")) * (1 << 30))

    def _expired(self, signum, frame):
        raise RunGuard.Expired(f"correspondence/oracle stage still running after {self.secs} s "
                               f"(normal: under a minute in the quick tier)")

    def arm(self):
        import resource
        import signal
        try:
            self.old = resource.getrlimit(resource.RLIMIT_AS)
            hard = self.old[1]
            cap = self.mem if hard == resource.RLIM_INFINITY else min(self.mem, hard)
            resource.setrlimit(resource.RLIMIT_AS, (cap, hard))
        except (ValueError, OSError):
            self.old = None
        signal.signal(signal.SIGALRM, self._expired)
        signal.alarm(self.secs)

    def disarm(self):
        import resource
        import signal
        signal.alarm(0)
        if self.old is not None:
            try:
                resource.setrlimit(resource.RLIMIT_AS, self.old)
            except (ValueError, OSError):
                pass
            self.old = None


# checks whose quick tier is short enough to afford the alt-config pass on every change (total stays <= ~35 s)
ALT_CONFIG_IN_QUICK = {"C01", "C02", "C07", "C15", "C16", "C17", "C19", "C20"}


def alt_config_pass(plug, ctx, res):
    """Second, quick-sized pass of the plug-in's streams with the package's process-wide hardware flag switched on
    (netqasm.runtime.settings.set_is_using_hardware(True), what the `netqasm run --hardware` entry point does).
    No property here is stated relative to that flag and nothing in the modelled code reads it on the pinned tree, so
    every stream must behave exactly as in the first pass; failures and disagreements of this pass are reported
    with the configuration named in their input."""
    try:
        from netqasm.runtime import settings as S
        old = S.get_is_using_hardware()
        S.set_is_using_hardware(True)
    except Exception as e:
        ctx.notes.append(f"alt-config pass skipped: {type(e).__name__}: {e}")
        return
    ctx2 = Ctx(ctx.prop, "quick", ctx.seed + 7919)
    ctx2._driver = ctx.driver
    try:
        r2 = plug.run(ctx2)
    finally:
        S.set_is_using_hardware(old)
    cfg = "netqasm.runtime.settings.set_is_using_hardware(True)"
    for f in r2.failures:
        f = dict(f)
        f["input"] = {"config": cfg, "input": f.get("input")}
        res.failures.append(f)
    for d in r2.disagreements:
        d = dict(d)
        d["stream"] = str(d.get("stream")) + " [config: hardware flag on]"
        res.disagreements.append(d)
    res.evaluations += r2.evaluations
    res.count("alt-config-pass-cases", r2.evaluations)
    ctx.notes.append(f"alt-config pass ({cfg}): {r2.evaluations} cases, {len(r2.failures)} failures, "
                     f"{len(r2.disagreements)} disagreements")


def replay_dispatch(plug, prop, ctx, payload):
    """Plug-in replay where it exists and applies; otherwise (no plug-in replay, a broken-tie replay file, a replay
    function that raises or declines with exit 2) the generic seed-based replay. A failure recorded by the
    alt-config pass is replayed with that configuration switched on."""
    fail = payload.get("failure") if isinstance(payload, dict) else None
    cfg_wrapped = isinstance(fail, dict) and isinstance(fail.get("input"), dict) and \
        set(fail["input"].keys()) == {"config", "input"}
    restore = None
    if cfg_wrapped:
        payload = json.loads(json.dumps(payload))
        payload["failure"]["input"] = fail["input"]["input"]
        payload["_config"] = fail["input"]["config"]
        try:
            from netqasm.runtime import settings as S
            old = S.get_is_using_hardware()
            S.set_is_using_hardware(True)
            restore = (S, old)
        except Exception:
            restore = None
    try:
        rc = None
        if hasattr(plug, "replay") and payload.get("kind") == "failing-input":
            try:
                rc = plug.replay(ctx, payload)
            except Exception:
                traceback.print_exc()
                print("replay: the plug-in's replay could not read this file; falling back to the seed-based replay")
                rc = None
        if rc not in (0, 1):
            rc = generic_replay(plug, prop, payload)
        return rc
    finally:
        if restore is not None:
            restore[0].set_is_using_hardware(restore[1])


def generic_replay(plug, prop, payload):
    """Replay for plug-ins without their own `replay`: every random choice of a run derives from
    (seed, property), so re-running the plug-in's streams with the recorded seed and tier on the
    current tree regenerates the recorded input; report whether the recorded failure (same
    description) or, for a broken tie, the same stream disagreement shows again.
    exit 1: reproduced, exit 0: no longer reproduces."""
    if payload.get("_config"):
        ctx = Ctx(prop, "quick", int(payload.get("seed", 0)) + 7919)
    else:
        ctx = Ctx(prop, payload.get("tier", "quick"), int(payload.get("seed", 0)))
    try:
        res = plug.run(ctx)
    except Exception as exc:
        traceback.print_exc()
        print(f"replay: harness aborted ({type(exc).__name__}); recorded kind={payload.get('kind')}")
        ctx.close()
        return 1
    ctx.close()
    if payload.get("kind") == "failing-input":
        want = payload["failure"].get("what")
        hits = [f for f in res.failures if f.get("what") == want]
        if not hits:  # same stream, different witness text
            key = str(want)[:40]
            hits = [f for f in res.failures if str(f.get("what"))[:40] == key]
        for f in hits[:3]:
            print("replay: reproduced:", json.dumps(f, default=str)[:1500])
        if not hits:
            print(f"replay: recorded failure no longer reproduces ({len(res.failures)} other failures)")
        return 1 if hits else 0
    want = {(d.get("kind"), d.get("stream"), d.get("decl")) for d in payload.get("no_longer_checks", [])}
    got = {("correspondence", d.get("stream"), None) for d in res.disagreements}
    both = want & got
    for k in sorted(map(str, both))[:5]:
        print("replay: correspondence still broken:", k)
    proofs = [d for d in payload.get("no_longer_checks", []) if d.get("kind") in ("proof", "translator")]
    if proofs:
        print("replay: recorded proof/translator breakage is re-checked by running the check itself "
              "(lake build): " + ", ".join(str(d.get("decl") or d.get("name")) for d in proofs[:5]))
    if not both and not proofs:
        print("replay: recorded correspondence breakage no longer reproduces")
    return 1 if both else 0


def main():
    ap = argparse.ArgumentParser()
    ap.add_argument("prop")
    ap.add_argument("--tier", default=os.environ.get("VERIF_TIER", "quick"), choices=["quick", "thorough"])
    ap.add_argument("--replay")
    args = ap.parse_args()
    prop = args.prop.upper()
    timer = common.Timer()
    seed = common.seed_from_env()
    try:
        common.use_repo()
    except Exception:
        # a tree that cannot even be imported: infrastructure error
        traceback.print_exc()
        return 2
    plug = importlib.import_module("checks." + prop.lower())
    ctx = Ctx(prop, args.tier, seed)

    if args.replay:
        with open(args.replay) as f:
            payload = json.load(f)
        rc = replay_dispatch(plug, prop, ctx, payload)
        ctx.close()
        return rc

    proof_failures = []
    audit = {}
    gen_obligations = []
    build_out = ""
    try:
        with common.BuildLock():
            # 1. translate
            for name in getattr(plug, "TRANSLATORS", []):
                try:
                    mod = importlib.import_module("translate." + name)
                    gen_obligations += mod.generate() or []
                except Exception as e:  # the code no longer has the shape the translator reads
                    ctx.tie_broken.append({"kind": "translator", "name": name,
                                           "error": f"{type(e).__name__}: {e}"})
                    traceback.print_exc()
            # 2. prove
            targets = list(plug.TARGETS) + ["nqdriver"]
            ok, build_out = common.lake_build(targets)
            if not ok:
                errs = common.parse_build_errors(build_out)
                for e in errs:
                    e["decl"] = common.enclosing_decl(e["file"], e["line"])
                proof_failures = errs or [{"file": "?", "line": 0, "msg": build_out[-2000:], "decl": None}]
                # the driver may still be buildable even if a Props module is not
                ok2, _ = common.lake_build(["nqdriver"])
                if not ok2 and not os.path.exists(common.DRIVER_BIN):
                    print(build_out[-4000:])
                    print("infrastructure error: model driver does not build")
                    return 2
        # 3. audit
        theorems = list(plug.THEOREMS)
        if not proof_failures:
            audit, audit_out = common.audit_axioms(prop, theorems)
            for _, name in theorems:
                if name not in audit:
                    proof_failures.append({"file": "audit", "line": 0, "decl": name,
                                           "msg": "theorem missing from audit output"})
                elif not set(audit[name]) <= common.ALLOWED_AXIOMS:
                    proof_failures.append({"file": "audit", "line": 0, "decl": name,
                                           "msg": "axioms " + ",".join(audit[name])})
            if args.tier == "thorough":
                # independent re-check of the compiled property modules
                import subprocess
                mods = list(plug.TARGETS) + list(getattr(plug, "LEANCHECK_EXTRA", []))
                p = subprocess.run(["lake", "env", "leanchecker"] + mods, cwd=common.LEAN_DIR,
                                   capture_output=True, text=True, timeout=3000)
                if p.returncode != 0:
                    proof_failures.append({"file": "leanchecker", "line": 0, "decl": None,
                                           "msg": (p.stdout + p.stderr)[-500:]})
                else:
                    ctx.notes.append("leanchecker accepted " + " ".join(mods))
            bad = common.grep_forbidden()
            for h in bad:
                proof_failures.append({"file": "grep", "line": 0, "decl": None, "msg": "forbidden construct " + h})
    except Exception:
        traceback.print_exc()
        print("infrastructure error during translate/prove")
        return 2

    for pf in proof_failures:
        ctx.tie_broken.append({"kind": "proof", **pf})

    # 4/5. correspondence and oracle search on the real code
    guard = RunGuard(args.tier)
    try:
        guard.arm()
        res = plug.run(ctx)
        if (args.tier == "thorough" or prop in ALT_CONFIG_IN_QUICK or os.environ.get("VERIF_ALT_CONFIG") == "1") \
                and getattr(plug, "ALT_CONFIG", True):
            alt_config_pass(plug, ctx, res)
        guard.disarm()
    except Exception as exc:
        guard.disarm()
        traceback.print_exc()
        import subprocess as _sp
        frames = traceback.extract_tb(exc.__traceback__)
        in_repo = [f for f in frames if os.path.abspath(f.filename).startswith(os.path.abspath(common.REPO) + os.sep)]
        # (a MemoryError under RunGuard's cap, far above what the harness needs, comes from data whose size the
        # real code determined: deterministic on this tree, hence a broken tie and not an infrastructure error)
        infra = (isinstance(exc, (OSError, TimeoutError, _sp.SubprocessError, ImportError))
                 or "model driver" in str(exc)) and not isinstance(exc, RunGuard.Expired)
        if infra and not in_repo:
            print("infrastructure error in correspondence/oracle harness")
            ctx.close()
            return 2
        # The real code raised where the harness does not expect it, or behaved so that an
        # invariant the harness relies on no longer holds (a deterministic logic error in the
        # harness on this tree): the correspondence can no longer be executed. That is a broken
        # tie, never exit 2 (on the unchanged tree either outcome would mark the check broken).
        last = (in_repo or frames)[-1]
        ctx.tie_broken.append({"kind": "harness-crash-in-repo-code" if in_repo else "harness-assumption-broken",
                               "error": f"{type(exc).__name__}: {str(exc)[:300]}",
                               "at": f"{last.filename}:{last.lineno} in {last.name}"})
        res = Result()
        res.rule = "harness aborted by an unexpected exception: the behaviour of /repo left what the harness models"
    ctx.close()
    for d in res.disagreements:
        ctx.tie_broken.append({"kind": "correspondence", **d})

    # 6. known findings
    known = {k["id"]: k for k in common.load_known_findings(prop)}
    new_failures = [f for f in res.failures if not (f.get("kf") and f["kf"] in known)]
    seen_known = {}
    for f in res.failures:
        if f.get("kf") in known:
            seen_known.setdefault(f["kf"], f)
    for kid in sorted(seen_known):
        print(f"KNOWN-FINDING: property={prop} {kid}: {known[kid]['what']}")

    violations = 0
    lines = []
    if new_failures:
        violations = len(new_failures)
        f0 = new_failures[0]
        path = common.write_replay(prop, {"property": prop, "kind": "failing-input", "failure": f0,
                                          "seed": seed, "tier": args.tier,
                                          "tie_broken": ctx.tie_broken[:20],
                                          "other_failures": new_failures[1:10]})
        lines.append(f"VIOLATION property={prop} replay={os.path.relpath(path, common.VERIF)}")
    elif ctx.tie_broken:
        violations = 1
        path = common.write_replay(prop, {"property": prop, "kind": "no-failing-input-found",
                                          "seed": seed, "tier": args.tier,
                                          "no_longer_checks": ctx.tie_broken[:40]})
        lines.append(f"VIOLATION property={prop} replay={os.path.relpath(path, common.VERIF)} no-failing-input-found")

    # 7. evidence
    theorems = list(plug.THEOREMS)
    gen_obligations = gen_obligations + list(res.gen_obligations)
    n_obl = len(theorems) + len(gen_obligations)
    failed_decls = {pf.get("decl") for pf in proof_failures}
    if proof_failures:
        discharged = 0 if any(pf.get("decl") is None for pf in proof_failures) else max(0, n_obl - len(failed_decls))
    else:
        discharged = n_obl
    ev = {
        "property_id": prop,
        "tier": args.tier,
        "seed": seed,
        "level": "proof",
        "coverage": {
            "obligations": n_obl,
            "discharged": discharged,
            "checker_cmd": "cd /verif/lean && lake build " + " ".join(plug.TARGETS)
                           + " && lake env lean <#print axioms of every listed theorem>",
            "trusted_base": list(getattr(plug, "TRUSTED", [])),
            "theorems": [{"name": n, "axioms": audit.get(n)} for _, n in theorems],
            "generated_obligations": gen_obligations,
            "evaluations": res.evaluations,
            "distinct_nontrivial": len(res.nontrivial),
            "rule": res.rule,
            "samples": res.samples[:8] or [{"note": "no correspondence sample"}],
            "distribution": res.distribution,
            "disagreements_checked": res.evaluations,
            "model_code_disagreements": len(res.disagreements),
            "known_findings_reproduced": sorted(seen_known),
            "tie_broken": ctx.tie_broken[:10],
            "notes": ctx.notes,
        },
        "assumptions": list(getattr(plug, "ASSUMPTIONS", [])),
        "wall_s": timer.s(),
        "violations": violations,
    }
    common.write_evidence(prop, ev)
    for ln in lines:
        print(ln)
    print(f"{prop} {args.tier}: obligations {discharged}/{n_obl}, correspondence cases {res.evaluations} "
          f"({len(res.nontrivial)} distinct non-trivial), disagreements {len(res.disagreements)}, "
          f"failures {len(res.failures)} (known {len(res.failures) - len(new_failures)}), {timer.s()} s")
    return 1 if violations else 0


if __name__ == "__main__":
    sys.exit(main())
