#!/venv/bin/python
"""Regenerates /verif/MANIFEST.json from the plug-ins under checks/ (one per property)."""
import importlib
import json
import os
import sys

ROOT = os.path.dirname(os.path.dirname(os.path.abspath(__file__)))
sys.path.insert(0, ROOT)

props = [json.loads(l) for l in open(os.path.join(ROOT, "properties.jsonl"))]
checks, na = [], []
for p in props:
    pid = p["id"]
    path = os.path.join(ROOT, "checks", pid.lower() + ".py")
    if not os.path.exists(path):
        na.append({"property_id": pid, "reason": "check not built yet in this round (planned: DESIGN.md §5 %s)" % pid})
        continue
    m = importlib.import_module("checks." + pid.lower())
    if getattr(m, "NOT_APPLICABLE", None):
        na.append({"property_id": pid, "reason": m.NOT_APPLICABLE})
        continue
    checks.append({
        "property_id": pid,
        "quick_cmd": f"/venv/bin/python check.py {pid} --tier quick",
        "thorough_cmd": f"/venv/bin/python check.py {pid} --tier thorough",
        "evidence_file": f"evidence/{pid}.json",
        "replay_cmd_template": f"/venv/bin/python check.py {pid} --replay {{path}}",
        "engine": "lean4-proof+correspondence",
        "level_claimed": {"category": "proof", "text": m.LEVEL_TEXT, "design_ref": "DESIGN.md §5 " + pid},
        "level_note": m.LEVEL_NOTE,
        "technique": m.TECHNIQUE,
    })
manifest = {
    "version": 1,
    "setup_cmd": "bash setup.sh",
    "hooks": {
        "guard": "NETQASM_VERIF",
        "enable": "no source hooks: the harness subclasses the documented extension points of netqasm in-process; "
                  "NETQASM_VERIF=1 is exported by the checks but read by nothing in /repo",
        "baseline_off_cmd": "cd /repo && /venv/bin/python -m pytest -ra -q -p no:cacheprovider --timeout=900 "
                            "--continue-on-collection-errors",
        "source_commits": [],
        "add_only": True,
    },
    "engines": [{
        "name": "lean4-proof+correspondence",
        "path": "check.py",
        "serves_properties": [c["property_id"] for c in checks],
        "kind_free_text": "Lean 4 theorems over executable models (lean/NetqasmVerif), generated obligations "
                          "re-decided by the kernel from data translated out of /repo on every run, and a "
                          "differential correspondence between the compiled model driver and the real code; "
                          "a model-free oracle search produces replays",
    }],
    "checks": checks,
    "notes": "See DESIGN.md. known_findings.json lists genuine defects recorded or fixed.",
    "not_applicable": na,
}
with open(os.path.join(ROOT, "MANIFEST.json"), "w") as f:
    json.dump(manifest, f, indent=1)
print(len(checks), "checks;", len(na), "not claimed")
