#!/venv/bin/python
"""keep_mutant.py <src dir> <seeded id> <detected-by text>: store a validated seeded change."""
import json, os, shutil, sys
src, sid, det = sys.argv[1], sys.argv[2], sys.argv[3]
root = os.path.dirname(os.path.dirname(os.path.abspath(__file__)))
dst = os.path.join(root, "seeded", sid)
os.makedirs(dst, exist_ok=True)
for f in ("patch.diff", "demo.py"):
    shutil.copy(os.path.join(src, f), os.path.join(dst, f))
meta = json.load(open(os.path.join(src, "meta.json")))
meta["detected_by"] = det
meta["validated"] = "tools/try_mutant.py validate: suite 171 passed / demo exit 0 without and 1 with the change; tools/try_mutant.py run: quick check(s) applied to /repo and undone"
json.dump(meta, open(os.path.join(dst, "meta.json"), "w"), indent=1)
print("kept", dst)
